#!/usr/bin/env python3
"""Schema extraction for C03 (shared by the one-off golden generator and by harness/drivers/c03.py).

  extract()  -> (schemas, registry, problems)   read off the IMPORTED bacpypes (bind the tree first)
       schemas : {class name: {"k": "seq"|"choice", "els": [{"name", "ctx", "opt", "ty"}...]}
                              | {"k": "arrayof", "of": ty, "fixed": n}}            (named array classes)
       ty      : {"k": "atom", "app": 0..12, "cls": name}      a primitive (application tag number + class name)
               | {"k": "anyatomic"} | {"k": "any", "cls": "Any"|"SequenceOfAny"}
               | {"k": "ref", "name": class name}               a named sequence / choice / array class
               | {"k": "seqof"|"listof"|"arrayof", "of": ty, "fixed": n | -1}
       registry: [{"reg": "confirmed"|"ack"|"unconfirmed"|"error", "choice": n, "cls": name}...]
  to_tla(schemas, registry) -> text of the module Schemas (literal TLA+ records: the same shape that
       ndJsonDeserialize gives for the JSON of `schemas`, so TLC can compare tree and golden with `=`).

Run as a script ONCE on the pinned tree:   BACPYPES_SRC=/repo/py34 /venv/bin/python harness/gen_schemas.py
writes spec/golden/Schemas.tla.  The committed file is the pinned transcription; the check never rewrites it.
"""
import os, sys, inspect, json

NOCTX = -1


def _mods():
    from bacpypes import apdu, basetypes, constructeddata as cd, primitivedata as pd
    return apdu, basetypes, cd, pd


ATOMS = {}      # atomic class name -> class object (filled by type_expr; the driver's leaf renderer needs the classes)


def type_expr(k, cd, pd, named):
    """class object -> ty"""
    if k in cd._sequence_of_classes:
        return {"k": "seqof", "of": type_expr(k.subtype, cd, pd, named), "fixed": -1}
    if k in cd._list_of_classes:
        return {"k": "listof", "of": type_expr(k.subtype, cd, pd, named), "fixed": -1}
    if k in cd._array_of_classes:
        return {"k": "arrayof", "of": type_expr(k.subtype, cd, pd, named),
                "fixed": -1 if k.fixed_length is None else int(k.fixed_length)}
    if inspect.isclass(k) and issubclass(k, cd.AnyAtomic):
        return {"k": "anyatomic"}
    if inspect.isclass(k) and issubclass(k, pd.Atomic):
        ATOMS[k.__name__] = k
        return {"k": "atom", "app": int(k._app_tag), "cls": k.__name__}
    if inspect.isclass(k) and issubclass(k, cd.Any):
        return {"k": "any", "cls": k.__name__}
    if inspect.isclass(k) and (issubclass(k, (cd.Sequence, cd.Choice)) or any(b in cd._array_of_classes for b in k.__mro__)):
        named.add(k)
        return {"k": "ref", "name": k.__name__}
    raise TypeError("cannot classify %r" % (k,))


def class_schema(k, cd, pd, named):
    if issubclass(k, cd.Choice):
        kind, table = "choice", k.choiceElements
    elif issubclass(k, cd.Sequence):
        kind, table = "seq", k.sequenceElements
    else:
        base = [b for b in k.__mro__ if b in cd._array_of_classes][0]
        return {"k": "arrayof", "of": type_expr(base.subtype, cd, pd, named),
                "fixed": -1 if base.fixed_length is None else int(base.fixed_length)}
    els = []
    for e in table:
        els.append({"name": e.name, "ctx": NOCTX if e.context is None else int(e.context),
                    "opt": bool(e.optional), "ty": type_expr(e.klass, cd, pd, named)})
    return {"k": kind, "els": els}


def extract():
    apdu, basetypes, cd, pd = _mods()
    classes = {}
    problems = []
    for m in (basetypes, apdu):
        for name, v in sorted(vars(m).items()):
            if not inspect.isclass(v) or v.__module__ != m.__name__:
                continue
            is_arr = any(b in cd._array_of_classes for b in v.__mro__[1:])
            if issubclass(v, (cd.Sequence, cd.Choice)) or is_arr:
                if v in (apdu.APCISequence, apdu.ConfirmedRequestSequence, apdu.ComplexAckSequence,
                         apdu.UnconfirmedRequestSequence, apdu.ErrorSequence):
                    continue
                if name != v.__name__:
                    continue
                if name in classes and classes[name] is not v:
                    problems.append("two classes named %s" % name)
                classes[name] = v
    schemas = {}
    todo = set(classes.values())
    done = set()
    while todo:
        k = todo.pop()
        done.add(k)
        named = set()
        try:
            schemas[k.__name__] = class_schema(k, cd, pd, named)
        except Exception as e:
            problems.append("%s: %s" % (k.__name__, e))
        for n in named - done:
            if n.__name__ in classes and classes[n.__name__] is not n:
                problems.append("two classes named %s" % n.__name__)
            classes.setdefault(n.__name__, n)
            todo.add(n)
    registry = []
    for reg, table in (("confirmed", apdu.confirmed_request_types), ("ack", apdu.complex_ack_types),
                       ("unconfirmed", apdu.unconfirmed_request_types), ("error", apdu.error_types)):
        for choice, k in sorted(table.items()):
            registry.append({"reg": reg, "choice": int(choice), "cls": k.__name__})
    return schemas, registry, problems, classes


# ---- TLA+ rendering ---------------------------------------------------------------------------------------
def tla(v):
    if isinstance(v, bool):
        return "TRUE" if v else "FALSE"
    if isinstance(v, int):
        return str(v)
    if isinstance(v, str):
        return json.dumps(v)
    if isinstance(v, (list, tuple)):
        return "<<" + ", ".join(tla(x) for x in v) + ">>"
    if isinstance(v, dict):
        return "[" + ", ".join("%s |-> %s" % (k, tla(x)) for k, x in v.items()) + "]"
    raise TypeError(v)


def to_tla(schemas, registry, header=""):
    out = ["------------------------------ MODULE Schemas ------------------------------",
           "(***************************************************************************)",
           "(* GENERATED ONCE by harness/gen_schemas.py from the pinned tree; this file *)",
           "(* is the pinned transcription of the sequenceElements / choiceElements     *)",
           "(* tables of apdu.py and basetypes.py and of the four service registries.   *)",
           "(* Never regenerated by the check: drift of the working tree against it is  *)",
           "(* the SchemaDrift monitor of C03.  ctx = -1: no context tag.               *)",
           "(***************************************************************************)"]
    out.append("EXTENDS Integers")
    if header:
        out.append(header)
    names = sorted(schemas)
    out.append("ClassNames == <<" + ",\n    ".join(", ".join(json.dumps(n) for n in names[i:i + 4]) for i in range(0, len(names), 4)) + ">>")
    out.append("")
    for n in names:
        s = schemas[n]
        if s["k"] in ("seq", "choice"):
            out.append("S_%s == [k |-> %s, els |-> <<" % (n, json.dumps(s["k"])))
            out.append(",\n".join("    " + tla(e) for e in s["els"]))
            out.append("  >>]")
        else:
            out.append("S_%s == %s" % (n, tla(s)))
    out.append("")
    out.append("Schemas == [")
    out.append(",\n".join("    %s |-> S_%s" % (n, n) for n in names))
    out.append("  ]")
    out.append("")
    out.append("Registry == <<")
    out.append(",\n".join("    " + tla(r) for r in registry))
    out.append("  >>")
    out.append("=============================================================================")
    return "\n".join(out) + "\n"


# Review corrections: where the review of the generated tables against clause 21 (and against the class's own
# hand-written codec) found the TABLE wrong, the golden module gets the reviewed entry and the tree's table entry is
# a SchemaDrift finding (DESIGN 5/C03 trust note: "a pinned table found wrong becomes a finding, not a golden entry").
#   NameValue.name: BACnetNameValue ::= SEQUENCE { name [0] CharacterString, value ABSTRACT-SYNTAX.&Type OPTIONAL };
#   NameValue.encode/decode (hand-written) use context tag 0, the sequenceElements table says "no context tag".
REVIEW_CORRECTIONS = {("NameValue", "name"): {"ctx": 0}}


def apply_review(schemas):
    for (cls, el), fix in REVIEW_CORRECTIONS.items():
        for e in schemas[cls]["els"]:
            if e["name"] == el:
                e.update(fix)


if __name__ == "__main__":
    here = os.path.dirname(os.path.abspath(__file__))
    sys.path.insert(0, here)
    import common
    common.bind_source()
    schemas, registry, problems, _ = extract()
    for p in problems:
        sys.stderr.write("PROBLEM: %s\n" % p)
    apply_review(schemas)
    dst = os.path.join(common.VERIF, "spec", "golden", "Schemas.tla")
    if os.path.exists(dst) and "--force" not in sys.argv:
        sys.stderr.write("%s exists (the golden module is generated once); use --force to overwrite\n" % dst)
        sys.exit(1)
    os.makedirs(os.path.dirname(dst), exist_ok=True)
    open(dst, "w").write(to_tla(schemas, registry))
    print("%d classes, %d registry entries -> %s" % (len(schemas), len(registry), dst))
