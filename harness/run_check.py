"""Dispatcher: bin/check <ID> [--tier quick|thorough] [--replay PATH]"""
import sys, os, argparse, importlib, traceback
sys.path.insert(0, os.path.dirname(os.path.abspath(__file__)))
sys.path.insert(0, os.path.join(os.path.dirname(os.path.abspath(__file__)), "drivers"))


def main():
    ap = argparse.ArgumentParser()
    ap.add_argument("pid")
    ap.add_argument("--tier", default=os.environ.get("VERIF_TIER", "quick"), choices=["quick", "thorough"])
    ap.add_argument("--replay", default=None)
    ap.add_argument("--seed", type=int, default=int(os.environ.get("VERIF_SEED", "0") or 0))
    a = ap.parse_args()
    pid = a.pid.upper()
    import common
    common.bind_source()
    try:
        mod = importlib.import_module(pid.lower())
    except ImportError:
        traceback.print_exc()
        sys.exit(2)
    try:
        if a.replay:
            rc = mod.replay(a.replay)
        else:
            rc = mod.main(a.tier, a.seed)
    except SystemExit:
        raise
    except Exception:
        traceback.print_exc()
        sys.stderr.write("MACHINERY FAILURE in %s\n" % pid)
        sys.exit(2)
    sys.stdout.flush()
    sys.exit(rc)


main()
