"""Dispatcher: bin/check <ID> [--tier quick|thorough] [--replay PATH]"""
import sys, os, argparse, importlib, traceback
sys.path.insert(0, os.path.dirname(os.path.abspath(__file__)))
sys.path.insert(0, os.path.join(os.path.dirname(os.path.abspath(__file__)), "drivers"))


def main():
    ap = argparse.ArgumentParser()
    ap.add_argument("pid")
    ap.add_argument("--tier", default=os.environ.get("VERIF_TIER", "quick"), choices=["quick", "thorough"])
    ap.add_argument("--replay", default=None)
    ap.add_argument("--seed", type=int, default=int(os.environ.get("VERIF_SEED", "0") or 0))
    a = ap.parse_args()
    pid = a.pid.upper()
    import common
    common.bind_source()
    try:
        mod = importlib.import_module(pid.lower())
    except ImportError:
        traceback.print_exc()
        sys.exit(2)
    try:
        if a.replay:
            rc = mod.replay(a.replay)
        else:
            rc = mod.main(a.tier, a.seed)
    except SystemExit:
        raise
    except Exception as err:
        traceback.print_exc()
        # Where did it come from?  An exception raised INSIDE the code under test, on an input of the check's fixed corpus
        # that the reference tree handles, escaping to the driver's top level, is the implementation leaving its
        # specified behaviour (the drivers wrap every call whose refusal is legitimate); anything raised by the harness
        # itself is a machinery failure.
        tb = traceback.extract_tb(err.__traceback__)
        inner = tb[-1].filename if tb else ""
        if not a.replay and os.path.abspath(inner).startswith(os.path.abspath(common.SRC)):
            import json, time, hashlib
            d = os.path.join(common.VERIF, "replays", pid)
            os.makedirs(d, exist_ok=True)
            text = "".join(traceback.format_exception(type(err), err, err.__traceback__))
            path = os.path.join(d, "LibraryRaised_%s.json" % hashlib.sha1(text.encode()).hexdigest()[:12])
            json.dump({"property": pid, "monitor": "LibraryRaisedOnCheckedInput", "detail": {"exception": repr(err), "raised_in": "%s:%d %s" % (
                tb[-1].filename, tb[-1].lineno, tb[-1].name), "traceback": text[-3000:]}, "replay": None, "tier": a.tier, "seed": a.seed},
                open(path, "w"), indent=1)
            json.dump({"property_id": pid, "tier": a.tier, "seed": a.seed, "level": "other", "violations": 1, "wall_s": 0.0,
                       "coverage": {"explanation": "the run was cut short: the code under test raised %r at %s:%d on an input of the "
                                    "check's fixed corpus and the exception escaped to the driver; reported as a violation, nothing else "
                                    "was evaluated" % (err, tb[-1].filename, tb[-1].lineno)}},
                      open(os.path.join(common.VERIF, "evidence", "%s.json" % pid), "w"), indent=1)
            print("VIOLATION property=%s replay=%s" % (pid, path))
            print("  monitor=LibraryRaisedOnCheckedInput %r raised in %s:%d (%s)" % (err, tb[-1].filename, tb[-1].lineno, tb[-1].name))
            print("%s FAIL tier=%s seed=%d: the code under test raised on a checked input (run cut short)" % (pid, a.tier, a.seed))
            sys.stdout.flush()
            sys.exit(1)
        sys.stderr.write("MACHINERY FAILURE in %s\n" % pid)
        sys.exit(2)
    sys.stdout.flush()
    sys.exit(rc)


main()
