"""C01 -- Primitive values survive encoding unchanged and are never silently altered.   (spec/Prims.tla, MC_Prims.tla)

D  TLC checks on the grid (DESIGN C01: integers at 0, +-1, 2^k-1, 2^k, 2^k+1; bit strings 0..64 x patterns; OID, float,
   string-length boundary classes; every name/number of every Enumerated subclass of the working tree, the named bits of
   every BitString subclass, every object type by name) that Dec(Enc(v)) = v for the application tag and every context
   number 0..254, that the contents are canonical (no shorter contents carry the number, fixed sizes, unused-bit count,
   zero padding), that the Boolean special case holds, and that distinct values never share an encoding.
R  spec -> code: TLC writes per case Representable / WithinCapacity and the expected octets (application tag and context
   tags); the harness constructs the value with the real class, encodes it (Atomic.encode -> Tag.encode, Tag.app_to_context,
   Any.cast_in), compares octets exactly, decodes the spec's octets (Tag.decode, context_to_app, class(tag), Any.cast_out)
   and compares values exactly.  Refusal: a value that is not Representable must raise (constructor or encoder); one that
   is representable but needs more than 4 contents octets may raise or must be exact; nothing else may be emitted.
T  code -> spec: seeded random values of every type (ints of 1..9 octets, all 2^32 OID words, random bit patterns of
   floats, arbitrary octet / UTF-8 strings, ...) encoded by the implementation with the application tag and with context
   numbers sampled over 0..254, decoded back, recorded as ndjson; TLC validates Enc(v) = octets, Dec(octets) = decoded = v.

"A value the type accepts" for Unsigned / Integer / Enumerated beyond 32 bits: the constructors accept every Python int
(Unsigned, Enumerated: >= 0) and the standard's encoding is of unbounded length, so such values are Representable; an
encoder of bounded capacity may refuse them (that is the property's refusal clause), but whatever it emits must be the
canonical longer encoding.  Silently emitting other octets is the violation.
"""
import os, sys, json, math, random, struct, shutil, importlib, pkgutil
from common import Check, VERIF, Hang, watchdog
import tlc

import bacpypes
from bacpypes.primitivedata import (Tag, TagList, Atomic, Null, Boolean, Unsigned, Unsigned8, Unsigned16, Integer, Real, Double,
                                    OctetString, CharacterString, BitString, Enumerated, Date, Time, ObjectIdentifier, ObjectType,
                                    ApplicationTag)
from bacpypes.pdu import PDUData
from bacpypes.constructeddata import Any

PID = "C01"
BOUNDARY_CTX = [0, 1, 14, 15, 16, 254]


def tla_set(xs):
    return "{" + ", ".join(str(x) for x in xs) + "}"


def cfg(init, invs, post=None, **kw):
    c = dict(CtxAll=tla_set(range(255)), CtxEmit="{}", CtxEnum="{}")
    c.update(kw)
    t = "INIT %s\nNEXT %s\nCHECK_DEADLOCK FALSE\n" % (init, init.replace("Init", "Next")) + "".join("INVARIANT %s\n" % i for i in invs)
    if post:
        t += "POSTCONDITION %s\n" % post
    return t + "CONSTANTS\n" + "".join("  %s = %s\n" % kv for kv in c.items())


# ---- rendering / projection (trusted, dumb) ------------------------------------------------------------------------
PAT = bytes(range(32, 127))


def blob(n):
    r = n % 95
    p = PAT[r:] + PAT[:r]
    return (p * (n // 95 + 1))[:n]


def render(items):
    if all(0 <= x <= 255 for x in items):
        return bytes(items)
    return b"".join(bytes([x]) if x >= 0 else blob(-x) for x in items)


def limbs_int(v):
    m = sum(l << (16 * i) for i, l in enumerate(v[1:]))
    return -m if v[0] else m


def int_limbs(x):
    out = [1 if x < 0 else 0]
    m = abs(x)
    while m:
        out.append(m & 0xFFFF)
        m >>= 16
    return out


def f32(v):
    s, e, mh, ml = v
    m = (mh << 16) | ml
    if e == 255:
        x = math.inf if m == 0 else struct.unpack(">d", struct.pack(">Q", (0x7FF << 52) | (m << 29)))[0]     # NaN with that payload
    elif e == 0:
        x = math.ldexp(m, -149)
    else:
        x = math.ldexp((1 << 23) | m, e - 150)
    return math.copysign(x, -1.0) if s else x


def f64(v):
    s, e, m3, m2, m1, m0 = v
    m = (m3 << 48) | (m2 << 32) | (m1 << 16) | m0
    if e == 2047:
        x = math.inf if m == 0 else struct.unpack(">d", struct.pack(">Q", (0x7FF << 52) | m))[0]
    elif e == 0:
        x = math.ldexp(m, -1074)
    else:
        x = math.ldexp((1 << 52) | m, e - 1075)
    return math.copysign(x, -1.0) if s else x


def fields(x, mbits, bias, emax):
    """IEEE fields of a Python float known to be a binary32 / binary64 value: [s, e, mantissa]; None if it is not one"""
    s = 1 if math.copysign(1.0, x) < 0 else 0
    if x != x:
        return [s, emax, 1 << (mbits - 1)]
    if math.isinf(x):
        return [s, emax, 0]
    a = abs(x)
    if a == 0:
        return [s, 0, 0]
    m, ex = math.frexp(a)
    e = ex - 1 + bias
    if e <= 0:
        q = math.ldexp(a, bias - 1 + mbits)
        e, base = 0, 0
    else:
        q = math.ldexp(m, mbits + 1)
        base = 1 << mbits
    if q != int(q) or e >= emax:
        return None
    return [s, e, int(q) - base]


def fields32(x):
    f = fields(x, 23, 127, 255)
    return None if f is None else [f[0], f[1], f[2] >> 16, f[2] & 0xFFFF]


def fields64(x):
    f = fields(x, 52, 1023, 2047)
    return None if f is None else [f[0], f[1], f[2] >> 48, (f[2] >> 32) & 0xFFFF, (f[2] >> 16) & 0xFFFF, f[2] & 0xFFFF]


def text_of(v):
    return "".join(chr(c) if c >= 0 else blob(-c).decode("ascii") for c in v)


KLASS = {"Null": Null, "Boolean": Boolean, "Unsigned": Unsigned, "Unsigned8": Unsigned8, "Unsigned16": Unsigned16, "Integer": Integer,
         "Real": Real, "Double": Double, "RealFromDouble": Real, "OctetString": OctetString, "CharacterString": CharacterString,
         "Utf8String": CharacterString, "BitString": BitString, "Enumerated": Enumerated, "Date": Date, "Time": Time,
         "ObjectIdentifier": ObjectIdentifier}


def construct(ty, v, klass=None, how=None):
    """abstract value -> instance of the real class (raises if the class refuses the value)"""
    k = klass or KLASS[ty]
    if ty == "Null":
        return k(())
    if ty == "Boolean":
        return k(bool(v[0]))
    if ty in ("Unsigned", "Unsigned8", "Unsigned16", "Integer"):
        return k(limbs_int(v))
    if ty == "Enumerated":
        return k(how) if isinstance(how, str) else k(limbs_int(v))
    if ty == "Real":
        return k(f32(v))
    if ty in ("Double", "RealFromDouble"):
        return k(f64(v))
    if ty == "OctetString":
        return k(render(v))
    if ty == "CharacterString":
        return k(ApplicationTag(Tag.characterStringAppTag, render(v)))      # the only public way to a non-UTF-8 string
    if ty == "Utf8String":
        return k(text_of(v))
    if ty == "BitString":
        return k([how]) if isinstance(how, str) else k(list(v))
    if ty in ("Date", "Time"):
        return k(tuple(v))
    if ty == "ObjectIdentifier":
        return k(how, v[1]) if isinstance(how, str) else k(v[0], v[1])
    raise ValueError(ty)


def project(ty, obj, klass=None):
    """instance of the real class -> abstract value (bytes / str for the string types)"""
    val = obj.value
    if ty == "Null":
        return [] if val == () else ["?", repr(val)]
    if ty == "Boolean":
        return [int(val)] if isinstance(val, bool) else ["?", repr(val)]
    if ty in ("Unsigned", "Unsigned8", "Unsigned16", "Integer"):
        return int_limbs(val)
    if ty == "Enumerated":
        return int_limbs(obj.get_long())
    if ty in ("Real", "RealFromDouble"):
        return fields32(val)
    if ty == "Double":
        return fields64(val)
    if ty == "OctetString":
        return bytes(val)
    if ty == "CharacterString":
        return bytes([obj.strEncoding]) + bytes(obj.strValue)
    if ty == "Utf8String":
        return val if obj.strEncoding == 0 else ["?", obj.strEncoding]
    if ty == "BitString":
        return list(val)
    if ty in ("Date", "Time"):
        return list(val)
    if ty == "ObjectIdentifier":
        return list(obj.get_tuple())
    raise ValueError(ty)


def want_value(ty, v):
    if ty in ("OctetString", "CharacterString"):
        return render(v)
    if ty == "Utf8String":
        return text_of(v)
    return list(v)


# ---- the implementation, wrapped ----------------------------------------------------------------------------------
def impl_encode(obj, n):
    tag = Tag()
    obj.encode(tag)
    if n >= 0:
        tag = tag.app_to_context(n)
    pdu = PDUData()
    tag.encode(pdu)
    return bytes(pdu.pduData)


def impl_decode(klass, o, n):
    pdu = PDUData(o)
    tag = Tag(pdu)
    if pdu.pduData:
        raise ValueError("%d octets left after the tag" % len(pdu.pduData))
    if n >= 0:
        if tag.tagClass != Tag.contextTagClass or tag.tagNumber != n:
            raise ValueError("not context tag %d" % n)
        tag = tag.context_to_app(klass._app_tag)
    return klass(tag)


def attempt(fn):
    try:
        return ("ok", fn())
    except Exception as e:
        return ("raised", "%s: %s" % (type(e).__name__, e))


HANGS = [0]
PER_SIG = {}
NAN_RECS = ([], {})


def viol(chk, monitor, sig, detail, rp=None):
    """at most 3 replay files per distinct signature (F1 alone hits hundreds of grid points)"""
    k = monitor + json.dumps(sig, sort_keys=True)
    PER_SIG[k] = PER_SIG.get(k, 0) + 1
    if PER_SIG[k] <= 3:
        chk.violation(monitor, sig, detail, rp)
    else:
        chk.extra["repeats_not_listed"] = chk.extra.get("repeats_not_listed", 0) + 1


def guarded(chk, fn, what, rp):
    if HANGS[0] >= 3:
        return None
    try:
        with watchdog(10):
            return attempt(fn)
    except Hang:
        HANGS[0] += 1
        viol(chk, "Terminates", {"api": what}, {"what": "no return within 10 s", "case": rp}, rp)
        return None


# ---- cases generated from the working tree ---------------------------------------------------------------------------
def subclasses(c):
    out = []
    for s in c.__subclasses__():
        out.append(s)
        out += subclasses(s)
    return out


def tree_cases():
    for m in pkgutil.walk_packages(bacpypes.__path__, "bacpypes."):
        try:
            importlib.import_module(m.name)
        except Exception:
            pass
    cases, info = [], {}

    def add(ty, v, **kw):
        i = len(cases) + 1
        cases.append({"id": i, "ty": ty, "v": v})
        info[i] = kw
    enums = sorted(set(subclasses(Enumerated)), key=lambda c: (c.__module__, c.__name__))
    n_names = 0
    for c in enums:
        table = {}
        for k in reversed(c.__mro__):
            table.update(getattr(k, "enumerations", {}) or {})
        for name, num in sorted(table.items(), key=lambda kv: (kv[1], kv[0])):
            n_names += 1
            add("Enumerated", int_limbs(num), klass=c, name=name, num=num)
    bits = sorted(set(subclasses(BitString)), key=lambda c: (c.__module__, c.__name__))
    for c in bits:
        L = c.bitLen
        add("BitString", [0] * L, klass=c)
        add("BitString", [1] * L, klass=c)
        for name, pos in sorted(c.bitNames.items(), key=lambda kv: kv[1]):
            add("BitString", [1 if i == pos else 0 for i in range(L)], klass=c, name=name)
    for name, num in sorted(ObjectType.enumerations.items(), key=lambda kv: kv[1]):
        add("ObjectIdentifier", [num, (num * 65537 + 4194303) % 4194304], name=name)
    for c in sorted(set(subclasses(Unsigned)) - {Unsigned8, Unsigned16}, key=lambda c: c.__name__):
        for x in {c._low_limit, c._high_limit if c._high_limit is not None else 65536}:
            add("Unsigned", int_limbs(x), klass=c)
    for c in sorted(set(subclasses(OctetString)), key=lambda c: c.__name__):
        add("OctetString", [255, 1, 7], klass=c)
    others = [c for c in subclasses(Atomic) if c.__module__ != "bacpypes.primitivedata" and not issubclass(c, (Enumerated, BitString))]
    return cases, info, {"enumerated_subclasses": len(enums), "enumeration_names": n_names, "bitstring_subclasses": len(bits),
                         "other_atomic_subclasses": sorted(c.__name__ for c in others)}


# ---- R: replay of the expected results -------------------------------------------------------------------------------
def int_case(ty, v):
    x = limbs_int(v)
    if ty == "Integer":
        n = 1
        while not (-(1 << (8 * n - 1)) <= x < (1 << (8 * n - 1))):
            n += 1
    else:
        if x < 0:
            return "negative"
        n = max(1, (x.bit_length() + 7) // 8)
    return "needs>4octets" if n > 4 else "%d-octet" % n


def case_class(ty, v):
    """coarse, stable description of a case (violation signature)"""
    if ty in ("Unsigned", "Unsigned8", "Unsigned16", "Integer", "Enumerated"):
        return int_case(ty, v)
    if ty in ("OctetString", "CharacterString", "Utf8String"):
        n = sum(1 if x >= 0 else -x for x in v)
        return "len<=4" if n <= 4 else "len5..253" if n <= 253 else "len254..65535" if n <= 65535 else "len>=65536"
    if ty == "BitString":
        return "bits%%8=%d" % (len(v) % 8)
    if ty == "Real":
        return "nan" if v[1] == 255 and (v[2] or v[3]) else "inf" if v[1] == 255 else "subnormal/zero" if v[1] == 0 else "normal"
    if ty == "Double":
        return "nan" if v[1] == 2047 and any(v[2:]) else "inf" if v[1] == 2047 else "subnormal/zero" if v[1] == 0 else "normal"
    if ty == "ObjectIdentifier":
        return "type>1023" if not 0 <= v[0] <= 1023 else "instance>4194303" if not 0 <= v[1] <= 4194303 else "in-range"
    return "any"


def show_v(ty, v):
    if ty in ("Unsigned", "Unsigned8", "Unsigned16", "Integer", "Enumerated"):
        return limbs_int(v)
    if len(v) > 24:
        return "%s... (%d items)" % (list(v[:12]), len(v))
    return list(v)


def replay_case(chk, r, info):
    ty, v = r["ty"], r["v"]
    g = info.get(r["gen"], {}) if r["gen"] else {}
    klass = g.get("klass") or KLASS[ty]
    cc = case_class(ty, v)
    rp = {"kind": "case", "ty": ty, "v": v, "klass": klass.__module__ + "." + klass.__name__, "name": g.get("name")}
    hows = [None] + ([g["name"]] if g.get("name") else [])
    if r["nan"]:
        # all NaNs are one value (Prims.Same): the comparison is left to TLC, through the record path
        for c in [[-1]] + r["ctx"]:
            one_record(chk, ty, v, c[0], NAN_RECS[0], NAN_RECS[1])
        return
    if ty == "RealFromDouble" and r["rep"]:
        return              # a double within binary32's range: rounding is by design, nothing is specified here
    nontrivial = cc not in ("any", "1-octet", "len<=4", "in-range", "normal") or bool(r["gen"])
    for how in hows:
        key = (ty, tuple(v) if len(v) < 40 else (len(v), v[0]), klass.__name__, how)
        sig = {"type": ty, "case": cc}
        if klass is not KLASS[ty]:
            sig["class"] = klass.__name__
        built = guarded(chk, lambda: construct(ty, v, klass, how), "constructor", rp)
        if built is None:
            return
        expect = [(-1, render(r["app"]))] + [(c[0], render(c[1:])) for c in r["ctx"]] if r["rep"] and r["app"] else [(-1, None), (BOUNDARY_CTX[len(v) % 6], None)]
        for n, exp_o in expect:
            chk.case(key + (n,), nontrivial=nontrivial)
            tagging = "app" if n < 0 else "ctx"
            got = built if built[0] == "raised" else guarded(chk, lambda: impl_encode(built[1], n), "encode", rp)
            if got is None:
                return
            detail = {"type": ty, "class": klass.__name__, "value": show_v(ty, v), "by_name": how, "tagging": "application" if n < 0 else "context %d" % n,
                      "expected": exp_o[:24].hex() + ("..." if len(exp_o) > 24 else "") if exp_o is not None else "refusal",
                      "got": got[1][:24].hex() if got[0] == "ok" else got[1]}
            if not r["rep"]:
                chk.monitor("RefusesUnrepresentable")
                if got[0] == "ok":
                    back = attempt(lambda: project(ty, impl_decode(klass, got[1], n), klass))
                    viol(chk, "RefusesUnrepresentable", dict(sig, tagging=tagging), dict(detail, decodes_to=str(back[1])[:80]), dict(rp, n=n))
                continue
            if not r["cap"]:
                # representable, beyond 32 bits: refuse or be exact
                chk.monitor("RefusesUnrepresentable")
                if got[0] == "ok" and got[1] != exp_o:
                    back = attempt(lambda: show_v(ty, project(ty, impl_decode(klass, got[1], n), klass)))
                    viol(chk, "RefusesUnrepresentable", sig, dict(detail, decodes_to=str(back[1])[:80],
                                  what="emitted octets that are not the value's encoding instead of refusing"), dict(rp, n=n))
                continue
            chk.monitor("EncEqualsSpec")
            if got[0] != "ok" or got[1] != exp_o:
                viol(chk, "EncEqualsSpec", dict(sig, tagging=tagging), detail, dict(rp, n=n))
            # decode the spec's octets
            dec = guarded(chk, lambda: impl_decode(klass, exp_o, n), "decode", rp)
            if dec is None:
                return
            chk.monitor("DecEqualsSpec")
            if dec[0] != "ok":
                viol(chk, "DecEqualsSpec", dict(sig, tagging=tagging), dict(detail, got=dec[1], octets=exp_o[:24].hex()), dict(rp, n=n))
                continue
            pv = attempt(lambda: project(ty, dec[1], klass))[1]
            wv = want_value(ty, v)
            same = (pv == wv) or (r["nan"] and isinstance(pv, list) and pv[1] == wv[1] and any(pv[2:]))
            if not same:
                viol(chk, "DecEqualsSpec", dict(sig, tagging=tagging), dict(detail, octets=exp_o[:24].hex(), decoded=str(pv)[:120], expected_value=str(show_v(ty, v))[:120]), dict(rp, n=n))
            # the implementation's own notion of "the same value" (names of enumerations, object types)
            chk.monitor("RoundTrip")
            if not r["nan"] and built[0] == "ok" and dec[1].value != built[1].value:
                viol(chk, "RoundTrip", dict(type=ty, what="value-changed", **({"class": sig["class"]} if "class" in sig else {})),
                              dict(detail, constructed=repr(built[1].value)[:80], after_round_trip=repr(dec[1].value)[:80]), dict(rp, n=n))
            # the decoded value handed on through the copy constructor (what Sequence.encode does with every atomic element:
            # element.klass(value)) must still encode to the octets it was decoded from
            rc = attempt(lambda: impl_encode(klass(dec[1]), n))
            chk.monitor("RoundTrip")
            if rc[0] != "ok" or rc[1] != exp_o:
                viol(chk, "RoundTrip", dict(type=ty, what="copy-changes-encoding", **({"class": sig["class"]} if "class" in sig else {})),
                     dict(detail, octets=exp_o[:24].hex(), copy_encodes_as=rc[1][:24].hex() if rc[0] == "ok" else str(rc[1])[:120]), dict(rp, n=n))
        # Any.cast_in / cast_out carry the application form
        if r["rep"] and r["cap"] and built[0] == "ok" and ty != "RealFromDouble":
            exp_o = render(r["app"])

            def via_any():
                a = Any(built[1])
                tl = TagList()
                a.encode(tl)
                pdu = PDUData()
                tl.encode(pdu)
                b = Any()
                b.decode(TagList([Tag(PDUData(exp_o))]))
                return bytes(pdu.pduData), b.cast_out(klass)
            chk.case(key + ("any",), nontrivial=nontrivial)
            ra = guarded(chk, via_any, "Any", rp)
            if ra is None:
                return
            if ra[0] != "ok" or ra[1][0] != exp_o:
                viol(chk, "EncEqualsSpec", dict(sig, tagging="any"), {"type": ty, "value": show_v(ty, v), "expected": exp_o[:24].hex(),
                                                                           "got": ra[1][0][:24].hex() if ra[0] == "ok" else ra[1]}, dict(rp, n=-1))
            elif not r["nan"] and ra[1][1] != built[1].value:
                viol(chk, "RoundTrip", dict(type=ty, what="value-changed", **({"class": sig["class"]} if "class" in sig else {})),
                              {"type": ty, "class": klass.__name__, "constructed": repr(built[1].value)[:80], "cast_out": repr(ra[1][1])[:80]}, dict(rp, n=-1))


# ---- T: random values -------------------------------------------------------------------------------------------------
def rand_value(rng, ty):
    """(abstract value, python constructor argument(s))"""
    if ty == "Null":
        return []
    if ty == "Boolean":
        return [rng.randint(0, 1)]
    if ty in ("Unsigned", "Enumerated"):
        k = rng.choice([1, 1, 2, 2, 3, 4, 4, 5, 8, 9]) if ty == "Unsigned" else rng.choice([1, 1, 2, 3, 4, 4, 5])
        return int_limbs(int.from_bytes(rng.randbytes(k), "big"))
    if ty == "Integer":
        k = rng.choice([1, 1, 2, 2, 3, 4, 4, 5, 8, 9])
        return int_limbs(int.from_bytes(rng.randbytes(k), "big", signed=True))
    if ty == "Real":
        w = rng.getrandbits(32)
        return [w >> 31, (w >> 23) & 0xFF, (w >> 16) & 0x7F, w & 0xFFFF]
    if ty == "Double":
        w = rng.getrandbits(64)
        return [w >> 63, (w >> 52) & 0x7FF, (w >> 48) & 0xF, (w >> 32) & 0xFFFF, (w >> 16) & 0xFFFF, w & 0xFFFF]
    if ty == "OctetString":
        return list(rng.randbytes(rng.choice([0, 1, 3, 4, 5, 17, 100, 253, 254, 300])))
    if ty == "CharacterString":
        enc = rng.choice([0, 0, 3, 4, 5, 1, 2, 200])
        if enc in (3, 4):       # UCS-4 / UCS-2 content must be text of that character set for the class to accept it
            text = "".join(chr(rng.choice([rng.randint(32, 126), rng.randint(160, 55295), rng.randint(57344, 65533)])) for _ in range(rng.choice([0, 1, 2, 9, 63, 64])))
            return [enc] + list(text.encode("utf_32be" if enc == 3 else "utf_16be"))
        return [enc] + list(rng.randbytes(rng.choice([0, 1, 3, 4, 8, 40, 252, 253, 260])))
    if ty == "Utf8String":
        pools = [(32, 126), (0, 127), (128, 2047), (2048, 55295), (57344, 65535), (65536, 1114111)]
        out = []
        for _ in range(rng.choice([0, 1, 2, 5, 20, 60, 130])):
            lo, hi = rng.choice(pools[:2] + pools)
            out.append(rng.randint(lo, hi))
        return out
    if ty == "BitString":
        return [rng.randint(0, 1) for _ in range(rng.choice([0, 1, 7, 8, 9, 15, 16, 17, 31, 33, 64, 100]))]
    if ty in ("Date", "Time"):
        return list(rng.randbytes(4))
    raise ValueError(ty)


RAND_TYPES = ["Null", "Boolean", "Unsigned", "Integer", "Enumerated", "Real", "Double", "OctetString", "CharacterString", "Utf8String",
              "BitString", "Date", "Time", "ObjectIdentifier"]


def jsonable(ty, pv):
    """projected value -> sequence of integers for TLC"""
    if isinstance(pv, bytes):
        return list(pv)
    if isinstance(pv, str):
        return [ord(ch) for ch in pv]
    return pv


def one_record(chk, ty, v, ctx, recs, meta):
    """encode v with the implementation, decode the result with it, append the record for TLC; returns 1 if refused (allowed)"""
    rp = {"kind": "random", "ty": ty, "v": v, "n": ctx}
    klass = KLASS[ty]
    built = guarded(chk, lambda: construct(ty, v), "constructor", rp)
    if built is None:
        return 0
    got = built if built[0] == "raised" else guarded(chk, lambda: impl_encode(built[1], ctx), "encode", rp)
    if got is None:
        return 0
    cc = case_class(ty, v)
    chk.case(("rand", ty, tuple(v), ctx), nontrivial=True)
    if got[0] != "ok":
        if cc == "needs>4octets":
            chk.monitor("RefusesUnrepresentable")
            return 1            # allowed: beyond the encoder's capacity
        viol(chk, "EncEqualsSpec", {"type": ty, "case": cc, "tagging": "app" if ctx < 0 else "ctx"},
             {"type": ty, "value": show_v(ty, v), "raised": got[1], "what": "refused a value of the accepted domain"}, rp)
        return 0
    dec = guarded(chk, lambda: jsonable(ty, project(ty, impl_decode(klass, got[1], ctx))), "decode", rp)
    if dec is None:
        return 0
    if dec[0] != "ok" or dec[1] is None or (dec[1] and dec[1][0] == "?"):
        viol(chk, "RoundTrip", {"type": ty, "case": cc, "tagging": "app" if ctx < 0 else "ctx"},
             {"type": ty, "value": show_v(ty, v), "octets": got[1][:24].hex(), "decode": str(dec[1])[:100]}, rp)
        return 0
    rid = len(recs) + 1
    recs.append({"id": rid, "ty": ty, "n": ctx, "v": v, "o": list(got[1]), "d": dec[1]})
    meta[rid] = (ty, v, ctx, cc, got[1])
    return 0


def random_records(chk, rng, n, recs=None, meta=None):
    recs = [] if recs is None else recs
    meta = {} if meta is None else meta
    refused = 0
    for i in range(n):
        ty = RAND_TYPES[i % len(RAND_TYPES)]
        ctx = rng.choice([-1, -1, rng.choice(BOUNDARY_CTX), rng.randrange(255)])
        if ty == "ObjectIdentifier":
            # any of the 2^32 words: let the implementation read it, then write it back
            word = rng.randbytes(4)
            first = attempt(lambda: project(ty, impl_decode(ObjectIdentifier, bytes([0xC4]) + word, -1)))
            if first[0] != "ok":
                viol(chk, "DecEqualsSpec", {"type": ty, "case": "random-word"}, {"word": word.hex(), "raised": first[1]},
                              {"kind": "oidword", "word": word.hex()})
                continue
            v = first[1]
        else:
            v = rand_value(rng, ty)
        refused += one_record(chk, ty, v, ctx, recs, meta)
    return recs, meta, refused


def validate_records(chk, recs, meta, label):
    if not recs:
        return
    wd = tlc.workdir("c01r")
    try:
        tf = os.path.join(wd, "recs.ndjson")
        with open(tf, "w") as f:
            for r in recs:
                f.write(json.dumps(r, separators=(",", ":")) + "\n")
        res = tlc.run_tlc("MC_Prims", cfg_text=cfg("InitRec", ["ImplRec"]), env={"TRACE_FILE": tf, "CASE_FILE": tf, "JDK_JAVA_OPTIONS": "-Xss256m"},
                          timeout=1800, name="Prims/records:" + label, heap="6g",
                          workers=max(1, min(8, int(os.environ.get("VERIF_TLC_WORKERS", "16")))))
    finally:
        shutil.rmtree(wd, ignore_errors=True)
    if res["error_kind"] or not res["finished"] or res["distinct"] != len(recs):
        tlc.machinery_failure("record validation did not complete (%s, %d of %d)\n%s" % (res["error"], res["distinct"], len(recs), res["output"][-2500:]))
    chk.extra["trace_validation_states"] = chk.extra.get("trace_validation_states", 0) + res["distinct"]
    bad = {v["id"]: v for v in tlc.printed_values(res["output"])}
    chk.traces_validated += len(recs) - len(bad)
    chk.monitor("EncEqualsSpec", len(recs))
    chk.monitor("DecEqualsSpec", len(recs))
    chk.monitor("RoundTrip", len(recs))
    for rid, b in sorted(bad.items()):
        ty, v, ctx, cc, o = meta[rid]
        rp = {"kind": "random", "ty": ty, "v": v, "n": ctx}
        detail = {"type": ty, "value": show_v(ty, v), "tagging": "application" if ctx < 0 else "context %d" % ctx, "got": o[:24].hex(),
                  "expected": bytes(x for x in b["exp"] if 0 <= x <= 255)[:24].hex(), "disagree_on": sorted(b["why"]),
                  "octets_decode_to": str(show_v(ty, list(b["dec"])) if ty in ("Unsigned", "Integer", "Enumerated") and len(b["dec"]) and b["dec"][0] in (0, 1) else list(b["dec"])[:12])}
        if cc == "needs>4octets":
            viol(chk, "RefusesUnrepresentable", {"type": ty, "case": cc}, dict(detail, what="emitted octets that are not the value's encoding instead of refusing"), rp)
        else:
            mon = "EncEqualsSpec" if "enc" in b["why"] or "unrepresentable" in b["why"] else "DecEqualsSpec" if "dec" in b["why"] else "RoundTrip"
            viol(chk, mon, {"type": ty, "case": cc, "tagging": "app" if ctx < 0 else "ctx"}, detail, rp)


# -----------------------------------------------------------------------------------------------------------------
def run_grid(chk, thorough, only=None):
    cases, info, stats = tree_cases()
    if only is not None:
        cases, info = only
    wd = tlc.workdir("c01")
    try:
        cf = os.path.join(wd, "cases.ndjson")
        with open(cf, "w") as f:
            for c in cases:
                f.write(json.dumps(c) + "\n")
        out = os.path.join(wd, "expected.ndjson")
        res = tlc.run_tlc("MC_Prims", cfg_text=cfg("InitGrid", ["InvGrid"], "WriteGrid",
                                                   CtxEmit=tla_set(range(255)) if thorough else tla_set(BOUNDARY_CTX),
                                                   CtxEnum=tla_set(BOUNDARY_CTX) if thorough else "{}"),
                          env={"CASE_FILE": cf, "OUT_FILE": out, "TRACE_FILE": cf}, timeout=1500, name="Prims/grid")
        chk.tlc(res)
        if res["error_kind"] or not res["finished"]:
            tlc.machinery_failure("the design model itself fails (%s)\n%s" % (res["error"], res["output"][-3000:]))
        n = nrep = nunrep = ncap = 0
        with open(out) as f:
            for line in f:
                r = json.loads(line)
                if only is not None and not r["gen"]:
                    continue                    # replay of one case: skip the fixed grid
                n += 1
                nrep += r["rep"]
                nunrep += not r["rep"]
                ncap += r["rep"] and not r["cap"] and bool(r["app"])
                replay_case(chk, r, info)
                if n in (3, 400, 900) or (r["gen"] and n % 1500 == 0):
                    chk.sample({"type": r["ty"], "value": show_v(r["ty"], r["v"]), "representable": r["rep"], "within_capacity": r["cap"],
                                "app_octets": render(r["app"])[:16].hex(), "ctx": [[c[0], render(c[1:])[:16].hex()] for c in r["ctx"][:2]]})
    finally:
        shutil.rmtree(wd, ignore_errors=True)
    chk.extra["grid"] = dict(stats, cases=n, representable=nrep, unrepresentable=nunrep, representable_beyond_capacity=ncap,
                             generated_from_tree=len(cases))


def main(tier, seed):
    chk = Check(PID, tier, seed)
    rng = random.Random(seed)
    thorough = tier == "thorough"
    chk.rule = ("model: one TLC state per grid case (theorems for the application tag and all 255 context numbers); implementation: one "
                "evaluation = one (value, class, construction form, tagging) encoded and decoded by the real classes and compared "
                "with / validated by Prims.tla; distinct = distinct such tuples; non-trivial = boundary / multi-octet / escape-"
                "crossing / special-value / unrepresentable cases and every case generated from the tree's tables")
    chk.assumptions = [
        "Real/Double are covered on IEEE-754 bit fields; a Real built from a non-binary32 double is rounded by design (only clear overflow must be refused)",
        "NaN payloads are not BACnet data: all NaNs of a width count as one value",
        "only UTF-8 character strings are produced by the library; other character sets are checked as decode -> re-encode stability of (encoding, raw octets)",
        "numbers needing more than 4 contents octets: the encoder may refuse or must emit the canonical longer form",
        "enumeration tables are those of the working tree (names <-> numbers are not compared with the standard here)"]
    run_grid(chk, thorough)
    recs, meta, refused = random_records(chk, rng, 250000 if thorough else 14000, NAN_RECS[0], NAN_RECS[1])
    # every small number, exhaustively across the 1-octet (quick) and 2-octet (thorough) boundaries
    lim = 70000 if thorough else 2200
    for x in range(-lim, lim + 1):
        one_record(chk, "Integer", int_limbs(x), -1 if x % 3 else BOUNDARY_CTX[x % 6], recs, meta)
        if x >= 0:
            one_record(chk, "Unsigned", int_limbs(x), -1 if x % 3 else BOUNDARY_CTX[x % 6], recs, meta)
    chk.extra["exhaustive_small_numbers"] = {"Integer": [-lim, lim], "Unsigned": [0, lim]}
    B = 25000
    for i in range(0, len(recs), B):
        part = recs[i:i + B]
        validate_records(chk, [dict(r, id=j + 1) for j, r in enumerate(part)], {j + 1: meta[r["id"]] for j, r in enumerate(part)}, "random+small[%d]" % (i // B))
    chk.extra["random"] = {"records": len(recs), "refused_beyond_capacity": refused,
                           "by_type": {t: sum(1 for r in recs if r["ty"] == t) for t in RAND_TYPES}}
    chk.extra["level_note"] = ("codec property: exhaustive over boundary classes and the tree's tables, sampled elsewhere; not a proof for all values. "
                               "Floats on bit fields only; non-UTF-8 character sets decode-only.")
    return chk.finish()


def replay(path):
    body = json.load(open(path))
    rp = body["replay"]
    chk = Check(PID, "quick", body.get("seed", 0))
    if rp["kind"] == "case":
        _, info, _ = tree_cases()
        gid = 0
        for i, g in info.items():
            k = g.get("klass")
            if k is not None and k.__module__ + "." + k.__name__ == rp["klass"] and g.get("name") == rp["name"]:
                gid = i
        if gid:
            cases = [{"id": gid, "ty": rp["ty"], "v": rp["v"]}]
        else:
            cases = [{"id": 1, "ty": rp["ty"], "v": rp["v"]}]
            info = {}
        run_grid(chk, False, only=(cases, info))
    elif rp["kind"] == "random":
        ty, v, n = rp["ty"], rp["v"], rp["n"]
        built = attempt(lambda: construct(ty, v))
        got = built if built[0] == "raised" else attempt(lambda: impl_encode(built[1], n))
        print("value:", show_v(ty, v), "tagging:", n, "->", got[1].hex() if got[0] == "ok" else got[1])
        if got[0] == "ok":
            d = attempt(lambda: jsonable(ty, project(ty, impl_decode(KLASS[ty], got[1], n))))
            print("decodes to:", d[1] if d[0] != "ok" else show_v(ty, d[1]) if ty in ("Unsigned", "Integer", "Enumerated") else d[1])
            if d[0] == "ok":
                validate_records(chk, [{"id": 1, "ty": ty, "n": n, "v": v, "o": list(got[1]), "d": d[1]}], {1: (ty, v, n, case_class(ty, v), got[1])}, "replay")
    else:
        print(attempt(lambda: project("ObjectIdentifier", impl_decode(ObjectIdentifier, bytes([0xC4]) + bytes.fromhex(rp["word"]), -1))))
    return chk.finish()
