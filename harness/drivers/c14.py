"""C14 -- Scheduled work runs once, in order, never early; failures stay isolated.   (spec/Kernel.tla)

D  TLC exhaustive on MC_Kernel_a (one-shot tasks, collisions, raising tasks/functions), _b (4 tasks, deeper),
   _r (recurring tasks), plus the named deviation DropBatchOnRaise=TRUE which must violate the invariant.
R  state graph of a small configuration dumped by TLC, covered edge by edge, every walk executed on the real
   TaskManager + core.run_once with the projected state compared after every step.
T  random histories (length up to 200) and every raising subset of deferred batches executed on the real code,
   recorded with the full projected state, and validated by TLC (Trace_Kernel.tla): conformance step by step
   and all C14 monitors (TLA+ formulas evaluated by TLC on the logged states).
   Recurring tasks on float clocks (0.1 s, 1/3 s, 1 ms at epoch-sized clocks) against NextSlot in exact rationals.
   core.run (the production loop) with asyncore.loop stubbed.
"""
import os, sys, json, random, collections, itertools, time
from fractions import Fraction
from common import Check, VERIF, WORK, Hang, watchdog
import tlc, tlaval
import vtime

vt = vtime.install()
import bacpypes.core as core
import bacpypes.task as task_module
from bacpypes.task import TaskManager
import bacpypes.task as task
from bacpypes.task import OneShotTask, RecurringTask

NONE = -1


class Rig:
    """A real TaskManager with instrumented tasks / deferred functions, driven by Kernel.tla operations."""

    def __init__(self, K, rec, interval, offset, task_defers, F, fn_defers, traises, fraises, unit=1.0, task_does=None, loop="run_once", early=False):
        self.task_does = task_does or {}
        self.early = early
        self.loop = loop            # "run_once" | "run": which of the library's two loops executes a pass
        self.K, self.F, self.rec = list(K), list(F), set(rec)
        self.interval, self.offset = interval, offset
        self.task_defers, self.fn_defers = task_defers, fn_defers
        self.traises, self.fraises = set(traises), set(fraises)
        self.unit = unit
        vt.reset(0.0)
        self.fired, self.called, self.submitted = [], [], []
        self.inst_at = {k: NONE for k in self.K}
        rig = self

        class One(OneShotTask):
            def __init__(self, k):
                OneShotTask.__init__(self)
                self.k = k

            def process_task(self):
                rig._fire(self)

        class Rc(RecurringTask):
            def __init__(self, k):
                RecurringTask.__init__(self, interval[k] * 1000.0 * unit, (offset[k] * 1000.0 * unit) or None)
                self.k = k

            def process_task(self):
                rig._fire(self)

            def install_task(self, *a, **kw):
                rig.inst_at[self.k] = rig.mnow()
                RecurringTask.install_task(self, *a, **kw)
                # the library computes the slot in floats (integral only to ~1e-9): snap it to the model's
                # microsecond grid so that collisions with one-shot times are reproducible; the float-level
                # behaviour is examined separately by recurring_float_grid()
                if self.taskTime is None:
                    return              # no task manager yet: the library only remembers the task
                snapped = round(self.taskTime, 6)
                if snapped != self.taskTime:
                    import heapq
                    self.taskTime = snapped
                    vt.tm.tasks = [(snapped, e[1], e[2]) if e[2] is self else e for e in vt.tm.tasks]
                    heapq.heapify(vt.tm.tasks)
        self.tasks = {k: (Rc(k) if k in self.rec else One(k)) for k in self.K}
        del task_module._unscheduled_tasks[:]
        if early:
            # as at import time: no task manager yet (the library's module global; the object itself stays)
            task_module._task_manager = None

    def mnow(self):
        return int(round(vt.now / self.unit))

    def mt(self, t):
        return NONE if t is None else int(round(t / self.unit))

    def _fire(self, t):
        self.fired.append([t.k, self.mt(t.taskTime)])
        if t.k in self.traises:
            raise RuntimeError("task %d raises" % t.k)
        f = self.task_defers.get(t.k, 0)
        if f:
            self._defer(f)
        a = self.task_does.get(t.k)
        if a:                           # what this task does to another one from inside its process_task
            op, j, dt = a
            if op == "suspend":
                self.tasks[j].suspend_task()
            else:
                self.inst_at[j] = self.mnow()
                self.tasks[j].install_task(when=(self.mnow() + dt) * self.unit)

    def _pass_of_core_run(self):
        """one pass through the production loop core.run (asyncore.loop stubbed: it ends the loop when nothing is due)"""
        import asyncore
        real = asyncore.loop

        def fake(timeout=None, count=None, **kw):
            tm = vt.tm
            if not core.deferredFns and not (tm.tasks and tm.tasks[0][0] <= vt.now):
                core.running = False
        asyncore.loop = fake
        core.asyncore.loop = fake
        try:
            core.run(sigterm=None, sigusr1=None)
        finally:
            asyncore.loop = real
            core.asyncore.loop = real

    def _defer(self, f):
        self.submitted.append(f)
        core.deferred(self._call, f)

    def _call(self, f):
        self.called.append(f)
        g = self.fn_defers.get(f, 0)
        if g:
            self._defer(g)
        if f in self.fraises:
            raise RuntimeError("fn %d raises" % f)

    def apply(self, op, k, a):
        self.fired, self.called = [], []
        if op == "at":
            self.inst_at[k] = self.mnow()
            self.tasks[k].install_task(when=a * self.unit)
        elif op == "after":
            self.inst_at[k] = self.mnow()
            self.tasks[k].install_task(delta=a * self.unit)
        elif op == "rec":
            self.tasks[k].install_task()
        elif op == "reoff":
            self.tasks[k].install_task(offset=a * 1000.0 * self.unit)      # (an explicit offset, 0 included)
        elif op == "suspend":
            self.tasks[k].suspend_task()
        elif op == "resume":
            self.tasks[k].resume_task()
        elif op == "defer":
            self._defer(k)
        elif op == "run":
            vt.now = (self.mnow() + a) * self.unit
            if self.loop == "run":
                self._pass_of_core_run()
            else:
                core.run_once()
        elif op == "start":
            # the library's own start-up code: TaskManager.__init__ installs what was remembered
            # (the singleton guard is lifted for the call: the object is the one that will be registered again)
            TaskManager._singleton_instance = None
            try:
                TaskManager.__init__(vt.tm)
            finally:
                TaskManager._singleton_instance = vt.tm
            del task_module._unscheduled_tasks[:]
        elif op == "tick":
            vt.now = (self.mnow() + a) * self.unit       # the clock moves, the loop does not run
        else:
            raise ValueError(op)

    def proj(self):
        heap = sorted(vt.tm.tasks)
        return {
            "now": self.mnow(),
            "q": [[self.mt(e[0]), e[2].k] for e in heap],
            "sched": [bool(self.tasks[k].isScheduled) for k in self.K],
            "due": [self.mt(self.tasks[k].taskTime) for k in self.K],
            "instAt": [self.inst_at[k] for k in self.K],
            "defq": [args[0] for fn, args, kw in core.deferredFns],
            "out": [list(x) for x in self.fired],
            "called": list(self.called),
            "submitted": list(self.submitted),
            "off": [int(round((getattr(self.tasks[k], "taskIntervalOffset", 0) or 0) / 1000.0 / self.unit)) for k in self.K],
            "mgr": task_module._task_manager is not None,
            "early": [t.k for t in task_module._unscheduled_tasks if hasattr(t, "k")] if task_module._task_manager is None else [],
        }


# ---------------------------------------------------------------------------------------------------------
CONFIGS = {
    # name: (K, Rec, Interval, Offset, TaskDefers, F, FnDefers)
    "a": dict(K=[1, 2, 3], rec=[], interval={}, offset={}, task_defers={3: 1}, F=[1, 2, 3], fn_defers={1: 3}),
    "r": dict(K=[1, 2, 3], rec=[1, 2], interval={1: 2, 2: 3}, offset={1: 0, 2: 1}, task_defers={}, F=[1],
              fn_defers={}),
    "t": dict(K=[1, 2, 3, 4], rec=[4], interval={4: 2}, offset={4: 1}, task_defers={2: 1, 3: 2}, F=[1, 2, 3, 4, 5, 6],
              fn_defers={1: 4, 4: 5, 2: 6}),
    # many one-shot timers pending at once (trace validation only): removals from the middle of a deep heap
    "h": dict(K=list(range(1, 13)), rec=[], interval={}, offset={}, task_defers={}, F=[1], fn_defers={},
              task_does={1: ("suspend", 2, 0), 3: ("at", 4, 2), 5: ("suspend", 6, 0), 7: ("at", 8, 5)}),
    # tasks installed before a task manager exists (module-level recurring functions, constructors run before core.run)
    "boot": dict(K=[1, 2, 3, 4, 5], rec=[4, 5], interval={4: 2, 5: 2}, offset={4: 0, 5: 0}, task_defers={}, F=[1], fn_defers={}, early=True),
    # tasks that act on other tasks from inside process_task: a handler cancelling a timeout, a handler re-arming one
    "e": dict(K=[1, 2, 3, 4], rec=[], interval={}, offset={}, task_defers={}, F=[1], fn_defers={},
              task_does={1: ("suspend", 2, 0), 3: ("at", 4, 1)}),
}


def heap_ops(rng, c, n):
    """many timers of very different lengths installed together, most of them stopped again before they are due (what
    transactions completing normally do to their timeout tasks), the clock advancing in small steps in between"""
    ops, now = [], 0
    for _ in range(n):
        r = rng.random()
        if r < 0.45:
            ops.append(("at", rng.choice(c["K"]), now + rng.choice([1, 2, 3, 5, 8, 13, 21, 34, 60])))
        elif r < 0.55:
            ops.append(("after", rng.choice(c["K"]), rng.choice([1, 3, 30])))
        elif r < 0.80:
            ops.append(("suspend", rng.choice(c["K"]), 0))
        elif r < 0.84:
            ops.append(("resume", rng.choice(c["K"]), 0))
        elif r < 0.90:
            d = rng.choice([1, 2, 3])
            now += d
            ops.append(("tick", 0, d))      # the clock moves while the loop is not running
        else:
            d = rng.choice([0, 1, 1, 2, 4])
            now += d
            ops.append(("run", 0, d))
    for _ in range(8):          # let everything still pending fire
        now += 10
        ops.append(("run", 0, 10))
    return ops


def tla_fn(d, dom):
    return "<<" + ", ".join(str(d.get(i, 0)) for i in dom) + ">>" if dom else "<<>>"


def tla_set(s):
    return "{" + ", ".join(str(x) for x in sorted(s)) + "}"


def cfg_for(c, mode, traises_sets="{{}}", fraises_sets="{{}}", times="{1, 2}", deltas="{0, 1}", steps="{0, 1, 2}",
            maxlevel=6, drop=False, props=True, ticks="{}", offgrid="{}"):
    rec = c["rec"]
    n = max(c["K"])
    inter = "[k \\in %s |-> CASE %s]" % (tla_set(rec), " [] ".join("k = %d -> %d" % (k, c["interval"][k]) for k in rec)) if rec else "<<>>"
    offs = "[k \\in %s |-> CASE %s]" % (tla_set(rec), " [] ".join("k = %d -> %d" % (k, c["offset"][k]) for k in rec)) if rec else "<<>>"
    defs = {"Interval": inter, "Offset": offs, "TaskDefers": tla_fn(c["task_defers"], range(1, n + 1)),
            "FnDefers": tla_fn(c["fn_defers"], range(1, max(c["F"]) + 1)),
            "TaskRaisesSets": traises_sets, "FnRaisesSets": fraises_sets,
            "TaskDoes": "<<" + ", ".join('<<"%s", %d, %d>>' % tuple(c.get("task_does", {}).get(k, ("none", 0, 0))) for k in range(1, n + 1)) + ">>"}
    consts = {"K": tla_set(c["K"]), "Rec": tla_set(rec), "F": tla_set(c["F"]), "Times": times, "Deltas": deltas, "Steps": steps, "TickSteps": ticks, "OffGrid": offgrid, "MaxLevel": str(maxlevel), "MgrAtStart": "FALSE" if c.get("early") else "TRUE",
              "DropBatchOnRaise": "TRUE" if drop else "FALSE"}
    if mode == "mc":
        lines = ["SPECIFICATION Spec", "CONSTRAINT Bound", "CHECK_DEADLOCK FALSE"]
        for inv in INVS:
            lines.append("INVARIANT " + inv)
        if props:
            lines += ["PROPERTY FiresOnlyScheduled", "PROPERTY FifoAmongEquals"]
    else:
        lines = ["SPECIFICATION TSpec", "CHECK_DEADLOCK FALSE"]
    return defs, consts, lines


INVS = ["Sorted", "AtMostOneEntryPerTask", "SchedIffQueued", "NeverEarly", "FireOrderTime", "FireOrderVsQueued",
        "OncePerInstall", "RecurringSlots", "DeferredExactlyOnceInOrder", "NothingDueLeftUnlessRaise"]


def run_mc(chk, name, c, expect_error=None, dump=None, timeout=900, **kw):
    defs, consts, lines = cfg_for(c, "mc", **kw)
    files, cfg = tlc.mc_wrapper("MCgen_" + name, "Kernel", defs, lines, consts)
    res = tlc.run_tlc("MCgen_" + name, cfg_text=cfg, files=files, timeout=timeout, dump_dot=dump, name="Kernel/" + name)
    if expect_error is None:
        chk.tlc(res)
        if res["error_kind"]:
            # the design itself violates a property: this is a defect of the model, not of the code
            tlc.machinery_failure("design model %s violates %s\n%s" % (name, res["error"], res["output"][-2000:]))
    else:
        if res["error"] not in expect_error and res["error_kind"] not in ("invariant", "action_property", "property", "temporal", "assert"):
            tlc.machinery_failure("sanity: deviation config %s should violate %s, got %r" % (name, expect_error, res["error"]))
        chk.extra.setdefault("sanity", []).append("config %s with deviation violates %s as expected (%d states)" % (
            name, expect_error, res["distinct"]))
    return res


# ---- R: spec -> code ------------------------------------------------------------------------------------
def edge_cover(nodes, edges, init):
    succ = collections.defaultdict(list)
    for u, v in edges:
        succ[u].append(v)
    parent = {init: None}
    dq = collections.deque([init])
    while dq:
        u = dq.popleft()
        for v in succ[u]:
            if v not in parent:
                parent[v] = u
                dq.append(v)

    def path_to(u):
        p = []
        while parent[u] is not None:
            p.append(u)
            u = parent[u]
        return p[::-1]
    todo = collections.defaultdict(list)
    for u, v in edges:
        if u in parent:
            todo[u].append(v)
    walks = []
    for start in sorted(todo, key=lambda u: len(path_to(u))):
        while todo[start]:
            walk = path_to(start)
            u = start
            while todo[u]:
                v = todo[u].pop()
                walk.append(v)
                u = v
            walks.append(walk)
    return walks


def spec_state_as_proj(st):
    return {"now": st["now"], "q": [list(e) for e in st["q"]], "sched": list(seqval(st["sched"])),
            "due": list(seqval(st["due"])), "instAt": list(seqval(st["instAt"])), "defq": list(st["defq"]),
            "out": [list(e) for e in st["out"]], "called": list(st["called"]), "submitted": list(st["submitted"])}


def seqval(v):
    if isinstance(v, dict):
        return tuple(v[k] for k in sorted(v))
    return v


def replay_graph(chk, name, cname, c, **kw):
    """TLC dumps the state graph of a small configuration; an edge cover of it is executed on the real kernel.
    The recorded executions then go through Trace_Kernel (conformance against the very states TLC computed, and
    the monitors)."""
    wd = tlc.workdir("dot")
    dot = os.path.join(wd, "g")
    try:
        run_mc(chk, name, c, dump=dot, props=False, **kw)
        nodes, edges, init0 = tlaval.parse_dot(dot + ".dot")
    finally:
        import shutil
        shutil.rmtree(wd, ignore_errors=True)
    inits = [n for n, st in nodes.items() if st["act"]["op"] == "init"]
    out = []
    steps = 0
    for init in inits:
        st0 = nodes[init]
        for w in edge_cover(nodes, edges, init):
            ops = [(nodes[v]["act"]["op"], nodes[v]["act"]["k"], nodes[v]["act"]["a"]) for v in w]
            steps += len(ops)
            for v in w:
                chk.case(("R", name, v))
            out.append((cname, sorted(st0["TaskRaises"]), sorted(st0["FnRaises"]), ops))
    chk.extra.setdefault("replay", []).append({"config": name, "graph_nodes": len(nodes), "graph_edges": len(edges),
                                               "walks": len(out), "steps_executed_on_impl": steps})
    return out


# ---- T: code -> spec ------------------------------------------------------------------------------------
HANGS = [0]


def record_history(c, traises, fraises, ops, loop="run_once"):
    if HANGS[0] >= 3:
        return []           # the kernel hangs; three demonstrations are enough, do not burn 10 s per history
    try:
        return _record_history(c, traises, fraises, ops, loop)
    finally:
        task_module._task_manager = vt.tm               # (a history that began before the manager existed ends with it in place)
        del task_module._unscheduled_tasks[:]


def _record_history(c, traises, fraises, ops, loop):
    rig = Rig(traises=traises, fraises=fraises, loop=loop, **c)
    evs = []
    for op, k, a in ops:
        try:
            with watchdog(10):
                rig.apply(op, k, a)
        except Hang:
            HANGS[0] += 1
            evs.append({"op": op, "k": k, "a": a, "st": rig.proj(), "hang": True})
            break
        except RuntimeError as e:
            if op == "resume" and "task time is None" in str(e):
                continue        # Resume is not enabled before the first installation (spec: due[k] # NONE)
            raise
        evs.append({"op": op, "k": k, "a": a, "st": rig.proj()})
    return evs


def random_ops(rng, c, n, times=(0, 1, 2, 3, 4, 5), deltas=(0, 1, 2), steps=(0, 0, 1, 1, 2, 3)):
    ops = []
    one = [k for k in c["K"] if k not in c["rec"]]
    now = 0
    for _ in range(n):
        r = rng.random()
        if r < 0.25 and one:
            ops.append(("at", rng.choice(one), now + rng.choice(times) - 1 if now else rng.choice(times)))
        elif r < 0.40 and one:
            ops.append(("after", rng.choice(one), rng.choice(deltas)))
        elif r < 0.45 and c["rec"]:
            ops.append(("rec", rng.choice(c["rec"]), 0))
        elif r < 0.48 and c["rec"]:
            k = rng.choice(c["rec"])
            ops.append(("reoff", k, rng.choice([0, 0, 1, c["interval"][k] - 1])))
        elif r < 0.58:
            ops.append(("suspend", rng.choice(c["K"]), 0))
        elif r < 0.66:
            ops.append(("resume", rng.choice(c["K"]), 0))
        elif r < 0.76:
            ops.append(("defer", rng.choice(c["F"]), 0))
        elif r < 0.81:
            d = rng.choice((1, 1, 2))
            now += d
            ops.append(("tick", 0, d))
        else:
            d = rng.choice(steps)
            now += d
            ops.append(("run", 0, d))
    return [(o, k, max(a, 0)) for o, k, a in ops]


def validate_traces(chk, name, c, traces, label):
    """traces: list of dict(tid, traises, fraises, evs, ops).  Runs Trace_Kernel over all of them in one JVM."""
    for t in traces:
        if t["evs"] and t["evs"][-1].get("hang"):
            ev = t["evs"].pop()
            chk.violation("Terminates", {"step_op": ev["op"]},
                          {"config": name, "what": "the kernel did not return from this step within 10 s", "event": ev,
                           "ops": t["ops"][:len(t["evs"]) + 1]},
                          {"kind": "history", "config": name, "traises": t["traises"], "fraises": t["fraises"], "ops": t["ops"]})
    if not traces:
        return
    wd = tlc.workdir("tr")
    tf = os.path.join(wd, "traces.ndjson")
    with open(tf, "w") as f:
        for t in traces:
            f.write(json.dumps({"tid": t["tid"], "traises": t["traises"], "fraises": t["fraises"], "evs": t["evs"],
                                "mgr0": not c.get("early")}) + "\n")
    defs, consts, lines = cfg_for(c, "trace")
    body = "---- MODULE TRgen_%s ----\nEXTENDS Trace_Kernel\n" % name
    for k, v in defs.items():
        body += "c_%s == %s\n" % (k, v)
    body += "====\n"
    cfg = "CONSTANTS\n" + "\n".join(["  %s <- c_%s" % (k, k) for k in defs] + ["  %s = %s" % (k, v) for k, v in consts.items()]) + "\n" + "\n".join(lines) + "\n"
    try:
        res = tlc.run_tlc("TRgen_" + name, cfg_text=cfg, files={"TRgen_%s.tla" % name: body}, workers=8, timeout=1800,
                          env={"TRACE_FILE": tf}, name="Trace_Kernel/" + label)
    finally:
        import shutil
        shutil.rmtree(wd, ignore_errors=True)
    if res["error_kind"]:
        tlc.machinery_failure("trace validation run failed: %s\n%s" % (res["error"], res["output"][-3000:]))
    verdicts = {v["tid"]: v for v in tlc.printed_values(res["output"])}
    if len(verdicts) != len(traces):
        tlc.machinery_failure("trace validation returned %d verdicts for %d traces\n%s" % (len(verdicts), len(traces), res["output"][-2000:]))
    chk.extra["trace_validation_states"] = chk.extra.get("trace_validation_states", 0) + res["distinct"]
    for t in traces:
        v = verdicts[t["tid"]]
        replay = {"kind": "history", "config": name, "traises": t["traises"], "fraises": t["fraises"], "ops": t["ops"]}
        if v["viol"]:
            byname = {}
            for m, l in v["viol"]:
                byname.setdefault(m, []).append(l)
            for m, ls in sorted(byname.items()):
                l = min(ls)
                ev = t["evs"][l - 1]
                raiser = bool(set(ev["st"]["called"]) & set(t["fraises"]))
                chk.violation(m, {"step_op": ev["op"], "raising_fn_in_batch": raiser},
                              {"config": name, "step": l, "event": ev, "prefix_ops": t["ops"][:l + 2]}, replay)
        elif v["rej"]:
            chk.deviation({"config": name, "tid": t["tid"], "step": v["rej"], "event": t["evs"][v["rej"] - 1],
                           "ops": t["ops"][:v["rej"] + 1]})
        else:
            chk.traces_validated += 1


def batch_subset_traces(c, maxbatch):
    """every subset of raising members in deferred batches of up to maxbatch functions (config 't': functions
    1, 2 and 4 defer further work), followed by passes to quiescence"""
    traces = []
    F = c["F"]
    for n in range(1, maxbatch + 1):
        batch = F[:n]
        for r in range(0, n + 1):
            for sub in itertools.combinations(batch, r):
                ops = [("defer", f, 0) for f in batch] + [("run", 0, 0), ("run", 0, 0), ("run", 0, 1)]
                traces.append((list(sub), ops))
    return traces


# ---- recurring tasks on float clocks ---------------------------------------------------------------------
def recurring_float_grid(chk, rng, n_cases):
    """RecurringTask on epoch-sized float clocks: each firing must be at a slot offset + j*interval (tolerance
    2 us: the library's own 1 us jitter plus float rounding), strictly after (re)installation, one per slot."""
    intervals_ms = [100.0, 1000.0 / 3.0, 1.0, 250.0, 1000.0, 7.0, 60000.0]
    bases = [0.0, 1.0e6, 1.7e9, 1.7e9 + 0.123456]
    tol = Fraction(2, 10 ** 6)
    cases = 0
    for iv in intervals_ms:
        for base in bases:
            for off in (None, iv / 4.0, iv / 2.0):
                cases += 1
                vt.reset(base)
                fires = []

                class R(RecurringTask):
                    def process_task(self):
                        fires.append(vt.now)
                t = R(iv, off)
                t.install_task()
                inst = Fraction(vt.now)
                I = Fraction(iv) / 1000
                O = Fraction(off or 0.0) / 1000
                horizon = base + 12 * iv / 1000.0
                steps = 0
                expected_j = None
                ok = True
                while vt.tm.tasks and vt.tm.tasks[0][0] <= horizon and steps < 50:
                    steps += 1
                    when = vt.tm.tasks[0][0]
                    # NeverEarly at float level: advance exactly to the deadline
                    vt.now = when
                    if HANGS[0] >= 3:
                        break
                    try:
                        with watchdog(10):
                            core.run_once()
                    except Hang:
                        HANGS[0] += 1
                        chk.violation("Terminates", {"where": "recurring"}, {"interval_ms": iv, "offset_ms": off, "base": base},
                                      {"kind": "recurring", "interval_ms": iv, "offset_ms": off, "base": base})
                        break
                    if not fires or len(fires) != steps:
                        chk.violation("RecurringSlots", {"kind": "missed_or_double"},
                                      {"interval_ms": iv, "offset_ms": off, "base": base, "fires": fires[-3:], "step": steps},
                                      {"kind": "recurring", "interval_ms": iv, "offset_ms": off, "base": base})
                        ok = False
                        break
                    f = Fraction(fires[-1])
                    j = round((f - O) / I)
                    err = abs(f - (O + j * I))
                    chk.monitor("RecurringSlots")
                    # float spacing at epoch clocks is 2.4e-7: allow 2 us
                    if err > tol or (expected_j is not None and j != expected_j) or (expected_j is None and not (
                            O + j * I > inst - tol and O + j * I - inst <= I + tol)):
                        chk.violation("RecurringSlots", {"kind": "slot"},
                                      {"interval_ms": iv, "offset_ms": off, "base": base, "fire": fires[-1], "j": j,
                                       "expected_j": expected_j, "err": float(err)},
                                      {"kind": "recurring", "interval_ms": iv, "offset_ms": off, "base": base})
                        ok = False
                        break
                    expected_j = j + 1
                chk.case(("recfloat", iv, base, off), nontrivial=True)
                t.suspend_task()
    chk.extra["recurring_float_cases"] = cases


# ---- core.run ---------------------------------------------------------------------------------------------
def core_run_loop(chk, rng, n):
    """The production loop core.run with asyncore.loop stubbed (it advances the virtual clock to the next deadline):
    tasks and deferred functions, some raising; every task fires once in (time, installation) order, every
    deferred function is called once in submission order."""
    import asyncore
    real_loop = asyncore.loop
    for case in range(n):
        vt.reset(0.0)
        fired, called = [], []
        ntask = rng.randint(1, 6)
        nfn = rng.randint(0, 6)
        traise = set(i for i in range(ntask) if rng.random() < 0.25)
        fraise = set(i for i in range(nfn) if rng.random() < 0.3)
        times = [rng.choice([0, 1, 1, 2, 3]) for _ in range(ntask)]

        def mk(i):
            class T(OneShotTask):
                def process_task(self):
                    fired.append(i)
                    if i == 0:
                        for j in range(nfn):
                            core.deferred(fn, j)
                    if i in traise:
                        raise RuntimeError("task raises")
            return T()

        def fn(j):
            called.append(j)
            if j in fraise:
                raise RuntimeError("fn raises")
        ts = [mk(i) for i in range(ntask)]
        for i, t in enumerate(ts):
            t.install_task(when=float(times[i]))
        passes = [0]

        def fake_loop(timeout=None, count=None, **kw):
            passes[0] += 1
            if passes[0] > 200:
                core.running = False
                return
            if not vt.tm.tasks and not core.deferredFns:
                core.running = False
            elif vt.tm.tasks and not core.deferredFns and vt.tm.tasks[0][0] > vt.now:
                vt.now = vt.tm.tasks[0][0]
        asyncore.loop = fake_loop
        core.asyncore.loop = fake_loop
        if HANGS[0] >= 3:
            break
        try:
            with watchdog(10):
                core.run(sigterm=None, sigusr1=None)
        except Hang:
            HANGS[0] += 1
            chk.violation("Terminates", {"where": "core.run"}, {"times": times}, {"kind": "corerun", "times": times})
            continue
        finally:
            asyncore.loop = real_loop
            core.asyncore.loop = real_loop
        exp_fired = [i for t, i in sorted((times[i], i) for i in range(ntask))]
        exp_called = list(range(nfn)) if (ntask and 0 not in traise) else []
        # task 0 defers, then (if it raises) raises: the functions are submitted before the raise
        exp_called = list(range(nfn))
        chk.case(("corerun", ntask, nfn, tuple(sorted(traise)), tuple(sorted(fraise)), tuple(times)),
                 nontrivial=bool(traise or fraise))
        rp = {"kind": "corerun", "times": times, "traise": sorted(traise), "fraise": sorted(fraise), "nfn": nfn}
        if fired != exp_fired:
            chk.violation("FireOrder", {"where": "core.run"}, {"fired": fired, "expected": exp_fired, **rp}, rp)
        chk.monitor("FailureIsolation(core.run)", 1 if (traise or fraise) else 0)
        if called != exp_called:
            chk.violation("DeferredExactlyOnceInOrder", {"where": "core.run", "raising_fn_in_batch": bool(fraise)},
                          {"called": called, "expected": exp_called, **rp}, rp)


# ---------------------------------------------------------------------------------------------------------
def main(tier, seed):
    chk = Check("C14", tier, seed)
    rng = random.Random(seed)
    thorough = tier == "thorough"
    chk.rule = ("model: all operation sequences of Kernel.tla up to the level bound; implementation: one evaluation = one "
                "operation executed on the real TaskManager/core.run_once with the projected state compared with / "
                "validated against the spec; distinct = distinct (graph node | history position | grid point) keys; "
                "non-trivial = everything except pure re-visits")
    chk.assumptions = ["virtual clock (task._time and TaskManager.get_time patched); sockets/threads of core.run not exercised (asyncore.loop stubbed)",
                       "TLC exhaustive up to the stated level bound only; longer histories by trace validation of random runs"]
    # D: design satisfies the properties
    a, r, t = CONFIGS["a"], CONFIGS["r"], CONFIGS["t"]
    run_mc(chk, "a", a, traises_sets="{{}, {2}}", fraises_sets="{{}, {2}, {1, 2}}", maxlevel=7 if thorough else 6)
    run_mc(chk, "r", r, traises_sets="{{}, {1}}", times="{1, 2}", deltas="{1}", steps="{0, 1, 2, 3}", maxlevel=8 if thorough else 6)
    b = dict(K=[1, 2, 3, 4], rec=[], interval={}, offset={}, task_defers={}, F=[1], fn_defers={})
    run_mc(chk, "b", b, traises_sets="{{}, {3}}", times="{0, 1, 2, 3}", deltas="{0, 2}", steps="{0, 1, 2}",
           maxlevel=7 if thorough else 5)
    run_mc(chk, "t", t, traises_sets="{{}}", fraises_sets="SUBSET {1, 2, 3, 4, 5, 6}", times="{1}", deltas="{0}",
           steps="{0, 1}", maxlevel=7 if thorough else 5)
    run_mc(chk, "e", CONFIGS["e"], traises_sets="{{}, {1}}", times="{1, 2}", deltas="{1}", steps="{0, 1, 2}", maxlevel=7 if thorough else 6)
    run_mc(chk, "boot", dict(CONFIGS["boot"], K=[1, 2, 3], rec=[3], interval={3: 2}, offset={3: 0}), traises_sets="{{}}", times="{1, 2}",
           deltas="{1}", steps="{0, 1, 2}", maxlevel=7 if thorough else 6)
    # the clock also moves between passes (Tick): installations are relative to the clock as it is then
    tk = dict(K=[1, 2], rec=[2], interval={2: 2}, offset={2: 1}, task_defers={}, F=[1], fn_defers={})
    run_mc(chk, "tick", tk, traises_sets="{{}}", times="{1, 3}", deltas="{1}", steps="{0, 1}", ticks="{1}", offgrid="{0, 1}", maxlevel=7 if thorough else 6)
    # sanity / vacuity: the named deviation must be caught by the invariant
    run_mc(chk, "a_dev", a, expect_error=("DeferredExactlyOnceInOrder", "NothingDueLeftUnlessRaise"), fraises_sets="{{2}}", maxlevel=5, drop=True)
    # R: spec -> code
    # (level 5 of this configuration has millions of edges: its edge cover does not fit a trace-validation run; thorough widens the
    # raising sets instead of the depth)
    walks = replay_graph(chk, "a4", "a", a, traises_sets="{{}, {2}, {2, 3}}" if thorough else "{{}, {2}}",
                         fraises_sets="{{}, {2}, {1}, {1, 2}}" if thorough else "{{2}, {1}}", maxlevel=4)
    walks += replay_graph(chk, "r4", "r", r, traises_sets="{{}}", times="{1}", deltas="{1}", steps="{0, 1, 2, 3}", maxlevel=6 if thorough else 5)
    walks += replay_graph(chk, "e4", "e", CONFIGS["e"], traises_sets="{{}}", times="{1, 2}", deltas="{1}", steps="{0, 1, 2}", maxlevel=5 if thorough else 4)
    # T: code -> spec
    traces = []
    wid = 1000000
    for cname, tr, fr, ops in walks:
        wid += 1
        traces.append((cname, {"tid": wid, "traises": tr, "fraises": fr, "evs": record_history(CONFIGS[cname], tr, fr, ops),
                               "ops": [list(o) for o in ops]}))
    nrand = 400 if thorough else 60
    for i in range(nrand):
        cname = rng.choice(["a", "r", "t"])
        c = CONFIGS[cname]
        tr = sorted(k for k in c["K"] if rng.random() < 0.2)
        fr = sorted(f for f in c["F"] if rng.random() < 0.3)
        n = rng.choice([10, 30, 200]) if thorough else rng.choice([10, 30, 120])
        ops = random_ops(rng, c, n)
        evs = record_history(c, tr, fr, ops)
        traces.append((cname, {"tid": i + 1, "traises": tr, "fraises": fr, "evs": evs, "ops": [list(o) for o in ops]}))
        chk.case(("T", i), nontrivial=True, n=len(evs))
        if i < 2:
            chk.sample({"config": cname, "traises": tr, "fraises": fr, "first_ops": [list(o) for o in ops[:12]],
                        "last_state": evs[-1]["st"] if evs else None})
    for i in range(300 if thorough else 60):
        c = CONFIGS["h"]
        ops = heap_ops(rng, c, rng.choice([40, 80, 200]))
        evs = record_history(c, [], [], ops, loop="run" if i % 2 else "run_once")       # (nothing raises: both loops agree)
        traces.append(("h", {"tid": 2000000 + i, "traises": [], "fraises": [], "evs": evs, "ops": [list(o) for o in ops]}))
        chk.case(("H", i), nontrivial=True, n=len(evs))
    for i in range(400 if thorough else 120):
        c = CONFIGS["e"]
        tr = [2] if i % 5 == 4 else []
        ops = random_ops(rng, c, rng.choice([10, 30, 60]), times=(0, 1, 1, 2, 2, 3), deltas=(0, 1, 1, 2), steps=(0, 1, 1, 2))
        evs = record_history(c, tr, [], ops, loop="run" if (i % 2 and not tr) else "run_once")
        traces.append(("e", {"tid": 3000000 + i, "traises": tr, "fraises": [], "evs": evs, "ops": [list(o) for o in ops]}))
        chk.case(("E", i), nontrivial=True, n=len(evs))
    base = nrand
    for sub, ops in batch_subset_traces(t, 6 if thorough else 5):
        base += 1
        evs = record_history(t, [], sub, ops)
        traces.append(("t", {"tid": base, "traises": [], "fraises": sub, "evs": evs, "ops": [list(o) for o in ops]}))
        chk.case(("batch", tuple(sub), len(ops)), nontrivial=bool(sub), n=len(evs))
        chk.monitor("FailureIsolation", 1 if sub else 0)
    for i in range(200 if thorough else 60):
        c = CONFIGS["boot"]
        ops = []
        remembered = []
        for _ in range(rng.randint(2, 9)):
            once = sorted(k for k in set(remembered) if remembered.count(k) == 1)
            if once and rng.random() < 0.25:
                k = rng.choice(once)
                remembered.remove(k)
                ops.append(("suspend", k, 0))          # taken back before the manager exists
                continue
            k = rng.choice(c["K"])
            remembered.append(k)
            ops.append(("rec", k, 0) if k in c["rec"] else ("at", k, rng.choice([0, 1, 1, 2, 2, 3])))
        ops.append(("start", 0, 0))
        ops += random_ops(rng, c, rng.choice([6, 12, 25]), times=(0, 1, 2, 3), deltas=(0, 1, 2), steps=(0, 1, 1, 2, 3))
        evs = record_history(c, [], [], ops)
        traces.append(("boot", {"tid": 4000000 + i, "traises": [], "fraises": [], "evs": evs, "ops": [list(o) for o in ops]}))
        chk.case(("BOOT", i), nontrivial=True, n=len(evs))
    for cname in ("a", "r", "t", "h", "e", "boot"):
        validate_traces(chk, cname, CONFIGS[cname], [x for n_, x in traces if n_ == cname], cname)
    recurring_float_grid(chk, rng, 0)
    core_run_loop(chk, rng, 300 if thorough else 60)
    return chk.finish()


def replay(path):
    body = json.load(open(path))
    rp = body["replay"]
    chk = Check("C14", "quick", body.get("seed", 0))
    if rp["kind"] == "history":
        c = CONFIGS[rp["config"]]
        evs = record_history(c, rp["traises"], rp["fraises"], [tuple(o) for o in rp["ops"]])
        validate_traces(chk, rp["config"], c,
                        [{"tid": 1, "traises": rp["traises"], "fraises": rp["fraises"], "evs": evs, "ops": rp["ops"]}], "replay")
        for e in evs[-3:]:
            print(json.dumps(e))
    elif rp["kind"] == "corerun":
        print("re-run with the recorded parameters:", rp)
        core_run_loop(chk, random.Random(body.get("seed", 0)), 60)
    else:
        recurring_float_grid(chk, random.Random(0), 0)
    return chk.finish()
