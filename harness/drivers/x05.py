"""X05 -- the stream side: byte streams cut into packets again (tcp.StreamToPacket), the BSLL framing function
(bsllservice._Packetize), connection bookkeeping of the TCP directors.
(spec/StreamFrame.tla, spec/Stream.tla, spec/StreamConn.tla and their MC_* / Trace_* modules)

D  TLC exhaustive: MC_StreamFrame (every buffer of up to 6/7 octets over {0,1,3,4,5,0x83} through the three framings:
   FrameProgress, FrameSplits, FrameExact, FrameIsFrame, ExtractExhausts); MC_Stream (one stream: every sequence of up to 3
   packets with 0..3 body octets, EVERY way of cutting it into chunks; four streams = two peers x two directions: every
   interleaving; chunks that carry both addresses; a consumer that raises at the k-th packet; empty chunks) against
   OutputIsPrefixOfPackets, NoEarlyEmission, BufferIsRemainder, NothingHeldBack, Complete, Independent,
   AddressesPropagated, OctetsConserved.  Each named deviation (ShortLengthStalls, BothKeys, LoseChunkOnRaise) must make
   TLC find a violation (vacuity).
R  TLC dumps the labelled state graphs; every root-to-leaf path (= every chunking) of the small scenarios and an edge
   cover of the others is executed on a real StreamToPacket bound between a recording client and a recording server
   (bacpypes.comm.bind); the projection (both buffer tables, the packets handed on with their addresses, whether the call
   raised) is recorded after every chunk and validated by TLC (Trace_Stream: conformance step by step + the formulas).
T  seeded random runs: tens of thousands of chunks, packets of up to a few hundred octets (half of the BSLL ones encoded
   by the real bsll.BSLPDU), up to four peers, both directions, cuts aimed at every boundary (inside a header, exactly at
   a packet end, many packets in one chunk), length-prefixed and BSLL framing, some runs with chunks that carry both
   addresses and some with a consumer that raises; recorded and validated the same way.  The library's own framing
   function _Packetize is evaluated on every small buffer and on random frames / truncated frames / garbage, as the
   stack calls it (bytes), and judged by TLC (Trace_StreamFrame); when it works on bytes it is also run inside
   bsllservice._StreamToPacket in the random runs.
C  connection bookkeeping (StreamConn.tla): a real TCPClientDirector / TCPServerDirector under a real StreamToPacket with a
   StreamToPacketSAP as its service element; the socket layer is stubbed IN THE DRIVER (actor / director subclasses whose
   create_socket installs a fake socket; tcp._time points at the virtual clock) and plays the environment: how connect_ex
   answers (in progress / connected at once), when a socket is writable, when octets or an end of stream arrive.  Steps:
   connect, disconnect, send (a client director connects on demand, a server director refuses), accept, writable,
   receive, peerclose, tick (ONE due task: connect timeout, idle timeout, reconnect), wait (a second passes).
   D: every history of 3/4 calls and events with every placement of the expiries, two peers, against
   TimersBelongToActors, DisconnectIsFinal, KeptAlive, SentInOrder, BuffersFollowTable, NotesMatchTable, ClosedForAReason,
   ReceivedGoesUp, ReceivedConserved; the deviations DisconnectKeepsPendingReconnect / ImmediateConnectKeepsTimeout must
   violate.  R: edge cover of TLC's graphs executed on the real directors, projection (table, queued / written octets,
   reconnect table, the scheduler's entries in installation order, StreamToPacket's buffers, what the service element
   was told, what went up) recorded after every step and validated by Trace_StreamConn.  T: random histories (3 peers,
   six director configurations).

Conformance uses the deviation flags OBSERVED on the tree under test (probe_flags), so that it stays meaningful on a tree
that has the reported defects as well as on a repaired one; the monitors never look at the flags.
VERIF_X05_ASSUME_KNOWN=<json> adds known-finding entries for one run (development aid; known_findings.json untouched).
"""
import os, sys, json, random, collections, time, shutil, itertools
from common import Check, VERIF, WORK, Hang, watchdog
import tlc, tlaval
import vtime

vt = vtime.install()
import bacpypes.core as core
from bacpypes.comm import Client, Server, bind, PDU
import bacpypes.tcp as tcp
from bacpypes.tcp import StreamToPacket
import bacpypes.bsllservice as bsllservice
import bacpypes.bsll as bsll

STREAM_MONITORS = ["OutputIsPrefixOfPackets", "NoEarlyEmission", "BufferIsRemainder", "NothingHeldBack", "Complete",
                   "Independent", "AddressesPropagated", "OctetsConserved"]
FRAME_MONITORS = ["FrameTotal", "FrameProgress", "FrameSplits", "FrameExact", "FrameIsFrame"]
DIRS = ("up", "down")
PEERS = ("p1", "p2", "p3", "p4")
ADDR = {"p1": ("10.0.0.1", 47808), "p2": ("10.0.0.2", 47808), "p3": ("10.0.0.3", 50001), "p4": ("10.0.0.4", 47808),
        "L": ("10.0.0.99", 47808)}
NAME = {v: k for k, v in ADDR.items()}
ADDRS = PEERS + ("L",)
TYPE = 0x83


# ---- python -> TLA+ text ----------------------------------------------------------------------------------------------------
def tla(v):
    if isinstance(v, bool):
        return "TRUE" if v else "FALSE"
    if isinstance(v, int):
        return str(v)
    if isinstance(v, str):
        return '"%s"' % v
    if isinstance(v, (list, tuple)):
        return "<<" + ", ".join(tla(x) for x in v) + ">>"
    if isinstance(v, (set, frozenset)):
        return "{" + ", ".join(sorted(tla(x) for x in v)) + "}"
    raise TypeError(v)


# ---- the framings of StreamFrame.tla rendered as packet functions (the API of StreamToPacket: fn(buffer) -> None | (packet, rest)).
# They are the application's part when StreamToPacket is used; each is judged against the specification like the
# library's own function (a difference is a machinery failure: the rendering layer would be wrong).
def fn_tl(buff):
    if len(buff) < 2 or len(buff) < 2 + buff[1]:
        return None
    n = 2 + buff[1]
    return buff[:n], buff[n:]


def fn_lp(buff):
    if len(buff) < 2:
        return None
    n = 2 + 256 * buff[0] + buff[1]
    if len(buff) < n:
        return None
    return buff[:n], buff[n:]


def fn_bsll(buff):
    i = 0
    while True:
        s = buff.find(bytes([TYPE]), i)
        if s < 0:
            return None
        d = buff[s:]
        if len(d) < 4:
            return None
        n = 256 * d[2] + d[3]
        if n < 4:
            i = s + 1
            continue
        if len(d) < n:
            return None
        return d[:n], d[n:]


PACKET_FN = {"tl": fn_tl, "lp": fn_lp, "bsll": fn_bsll}
HEADLEN = {"tl": 2, "lp": 2, "bsll": 4, "lib": 4}
SPEC_FR = {"tl": "tl", "lp": "lp", "bsll": "bsll", "lib": "bsll"}        # "lib": bsllservice._StreamToPacket with _Packetize


class Boom(Exception):
    """the exception of the recording consumer (fail = k: raised when it is handed the k-th packet of a call)"""


class Runaway(BaseException):
    """more packets handed on during one call than the chunk and the buffer have octets: the loop does not end"""


HANGS = [0]


class _Top(Client):
    def __init__(self, rig):
        Client.__init__(self)
        self.rig = rig

    def confirmation(self, pdu):
        self.rig.handed("up", pdu)


class _Bottom(Server):
    def __init__(self, rig):
        Server.__init__(self)
        self.rig = rig

    def indication(self, pdu):
        self.rig.handed("down", pdu)


class Rig:
    """a real StreamToPacket between a recording client (above) and a recording server (below)"""

    def __init__(self, fr):
        self.fr = fr
        if fr == "lib":
            self.stp = bsllservice._StreamToPacket()
        else:
            self.stp = StreamToPacket(PACKET_FN[fr])
        self.top, self.bottom = _Top(self), _Bottom(self)
        bind(self.top, self.stp, self.bottom)
        self.em, self.fail, self.limit = [], 0, 0
        self.last = self.project()[0]
        self.foreign = 0

    def handed(self, d, pdu):
        self.em.append({"data": list(bytes(pdu.pduData)), "src": NAME.get(pdu.pduSource, "?") if pdu.pduSource is not None else "",
                        "dst": NAME.get(pdu.pduDestination, "?") if pdu.pduDestination is not None else "", "d": d})
        if len(self.em) > self.limit:
            raise Runaway()
        if self.fail and len(self.em) == self.fail:
            raise Boom()

    def project(self):
        """both buffer tables by address name; entries under keys that are no known address are counted"""
        out, foreign = {}, 0
        for d, table in (("up", self.stp.upstreamBuffer), ("down", self.stp.downstreamBuffer)):
            out[d] = {a: list(bytes(table.get(ADDR[a], b""))) for a in ADDRS}
            foreign += sum(1 for k in table if k not in NAME)
        return out, foreign

    def chunk(self, d, s, t, data, fail):
        """one chunk through the real code; returns the event record"""
        self.em, self.fail = [], fail
        self.limit = len(data) + sum(len(b) for tb in self.last.values() for b in tb.values()) + 8
        pdu = PDU(bytes(data), source=ADDR[s] if s else None, destination=ADDR[t] if t else None)
        raised, exc = False, ""
        try:
            with watchdog(10):
                if d == "up":
                    self.bottom.response(pdu)          # -> StreamToPacket.confirmation
                else:
                    self.top.request(pdu)              # -> StreamToPacket.indication
        except Boom:
            raised = True
        except Runaway:
            raise Hang("more than %d packets handed on from %d octets" % (self.limit, self.limit - 8))
        except Exception as err:
            raised, exc = True, "%s: %s" % (type(err).__name__, err)
        proj, foreign = self.project()
        bufd = [{"d": dd, "a": a, "b": proj[dd][a]} for dd in DIRS for a in ADDRS if proj[dd][a] != self.last[dd][a]]
        self.last = proj
        wrongdir = [x for x in self.em if x["d"] != d]
        ev = {"d": d, "s": s, "t": t, "data": list(data), "fail": fail, "raised": raised,
              "em": [{"data": x["data"], "src": x["src"], "dst": x["dst"]} for x in self.em], "bufd": bufd,
              "exc": exc, "foreign": foreign, "wrongdir": len(wrongdir)}
        return ev


# ---- model checking configurations ---------------------------------------------------------------------------------------------
INTENDED = {"BothKeys": False, "LoseChunkOnRaise": False, "ShortLengthStalls": False}
STREAM_INVS = ["Shape", "OutputIsPrefixOfPackets", "NoEarlyEmission", "BufferIsRemainder", "NothingHeldBack", "Complete"]
STREAM_PROPS = ["P_Independent", "P_AddressesPropagated", "P_OctetsConserved"]


def cfg_stream(scen, maxpk=0, maxbody=0, frs=("tl",), minchunk=1, maxchunk=100, fails=(0,), others="c_NoAddrOnly",
               flags=INTENDED, invs=None, props=True):
    lines = ["CONSTANTS", '  Peers = {"p1", "p2"}', '  Addrs = {"p1", "p2", "L"}', "  Scen <- %s" % scen,
             "  MaxPk = %d" % maxpk, "  MaxBody = %d" % maxbody, "  Frs = %s" % tla(set(frs)), "  MinChunk = %d" % minchunk,
             "  MaxChunk = %d" % maxchunk, "  Fails = %s" % tla(set(fails)), "  Others <- %s" % others]
    lines += ["  %s = %s" % (k, tla(bool(flags[k]))) for k in ("BothKeys", "LoseChunkOnRaise", "ShortLengthStalls")]
    lines += ["SPECIFICATION Spec", "CHECK_DEADLOCK FALSE"]
    lines += ["INVARIANT " + i for i in (STREAM_INVS if invs is None else invs)]
    if props:
        lines += ["PROPERTY " + p for p in STREAM_PROPS]
    return "\n".join(lines) + "\n"


def cfg_frame(maxlen, stalls=False, framings=("tl", "lp", "bsll")):
    return ("CONSTANTS\n  Framings = %s\n  Alphabet = {0, 1, 3, 4, 5, 131}\n  MaxLen = %d\n  ShortLengthStalls = %s\n"
            "SPECIFICATION Spec\nCHECK_DEADLOCK FALSE\n" % (tla(set(framings)), maxlen, tla(stalls)) +
            "".join("INVARIANT I_%s\n" % m for m in ("FrameProgress", "FrameSplits", "FrameExact", "FrameIsFrame", "ExtractExhausts")))


VIOLATED = ("invariant", "action_property", "property", "temporal", "assert")


WORKER_CAP = [8]          # the models of the quick tier are small: more TLC workers only add start-up and contention


def workers():
    return min(WORKER_CAP[0], int(os.environ.get("VERIF_TLC_WORKERS", "16")))


def run_mc(chk, module, name, cfg, expect_error=None, dump=None, timeout=900):
    res = tlc.run_tlc(module, cfg_text=cfg, timeout=timeout, dump_dot=dump, name="%s/%s" % (module, name), workers=workers())
    if expect_error is None:
        chk.tlc(res)
        if res["error_kind"]:
            tlc.machinery_failure("design model %s/%s violates %s\n%s" % (module, name, res["error"], res["output"][-3000:]))
    else:
        if res["error_kind"] not in VIOLATED:
            tlc.machinery_failure("sanity: deviation config %s should violate %s, got %r\n%s" % (
                name, expect_error, res["error"], res["output"][-2000:]))
        chk.extra.setdefault("sanity", []).append("config %s violates %s as expected (%d states)" % (
            name, res["error"], res["distinct"]))
    return res


# ---- R: spec -> code -----------------------------------------------------------------------------------------------------------
def edge_cover(succ, init):
    """walks (lists of node ids after init) that together take every edge reachable from init at least once"""
    parent = {init: None}
    dq = collections.deque([init])
    while dq:
        u = dq.popleft()
        for v in succ.get(u, ()):
            if v not in parent:
                parent[v] = u
                dq.append(v)

    def path_to(u):
        p = []
        while parent[u] is not None:
            p.append(u)
            u = parent[u]
        return p[::-1]
    todo = {u: list(succ.get(u, ())) for u in parent}
    walks = []
    for start in sorted(todo, key=lambda u: len(path_to(u))):
        while todo[start]:
            walk = path_to(start)
            u = start
            while todo[u]:
                v = todo[u].pop()
                walk.append(v)
                u = v
            walks.append(walk)
    return walks


def all_paths(succ, init, cap):
    """every maximal path from init (the graphs are acyclic when MinChunk >= 1); None when there are more than cap"""
    out = []
    stack = [(init, [])]
    while stack:
        u, path = stack.pop()
        nxt = succ.get(u, ())
        if not nxt:
            out.append(path)
            if len(out) > cap:
                return None
            continue
        for v in nxt:
            stack.append((v, path + [v]))
    return out


def scen_of(state):
    """scenario of a TLC state, padded to the peers of the trace specification"""
    pk = state["pkts"]
    return {"fr": state["fr"], "pkts": {d: {p: [list(x) for x in pk[d].get(p, ())] for p in PEERS} for d in DIRS}}


def act_of(a):
    return (a["d"], a["s"], a["t"], [int(x) for x in a["data"]], int(a["fail"]))


def replay_graph(chk, name, cfg, paths_upto=0, cyclic=False):
    """TLC dumps the state graph of a configuration; returns walks [(scenario, [chunk, ...])]: every root-to-leaf path of
    the scenarios whose streams have at most paths_upto octets in all (= every chunking and interleaving), an edge cover
    of the others"""
    wd = tlc.workdir("dot")
    dot = os.path.join(wd, "g")
    try:
        run_mc(chk, "MC_Stream", name, cfg, dump=dot)
        nodes, edges, init0 = tlaval.parse_dot(dot + ".dot")
    finally:
        shutil.rmtree(wd, ignore_errors=True)
    succ = collections.defaultdict(list)
    for u, v in edges:
        if u != v:
            succ[u].append(v)
    inits = sorted(n for n, st in nodes.items() if st["act"]["d"] == "init")
    out, steps, full = [], 0, 0
    for init in inits:
        st = nodes[init]
        sc = scen_of(st)
        total = sum(len(x) for d in DIRS for p in PEERS for x in sc["pkts"][d][p])
        walks = None
        if total <= paths_upto and not cyclic:
            walks = all_paths(succ, init, 60000)
            full += walks is not None
        if walks is None:
            walks = edge_cover(succ, init)
        for w in walks:
            ops = [act_of(nodes[v]["act"]) for v in w]
            if ops:
                steps += len(ops)
                out.append((sc, ops))
    chk.extra.setdefault("replay", []).append({"config": name, "graph_nodes": len(nodes), "graph_edges": len(edges),
                                               "scenarios": len(inits), "scenarios_with_every_path": full,
                                               "walks": len(out), "steps": steps})
    return out


# ---- execution on the real code ---------------------------------------------------------------------------------------------------
def exec_walk(tid, sc, ops, note=None):
    """one execution: a fresh StreamToPacket, the chunks in order; stops at a hang"""
    rig = Rig(sc["fr"])
    evs = []
    for op in ops:
        try:
            evs.append(rig.chunk(*op))
        except Hang as h:
            HANGS[0] += 1
            evs.append({"hang": str(h), "d": op[0], "s": op[1], "t": op[2], "data": list(op[3]), "fail": op[4]})
            break
    spec_scen = {"fr": SPEC_FR[sc["fr"]], "pkts": sc["pkts"]}
    return {"tid": tid, "scen": spec_scen, "impl_fr": sc["fr"], "evs": evs, "note": note or "",
            "replay": {"kind": "chunks", "scen": sc, "ops": [list(o) for o in ops]}}


# ---- T: seeded random scenarios ----------------------------------------------------------------------------------------------------
def random_body(rng, fr, big):
    n = rng.choice([0, 0, 1, 2, 3, 4, rng.randint(0, 20), rng.randint(0, 60)] + ([rng.randint(100, 400), 251, 252, 255, 256, 257] if big else []))
    if fr == "tl":
        n = min(n, 255)
    kind = rng.random()
    if kind < 0.2:
        return bytes([rng.choice([TYPE, 0, 0xFF, 4])] * n)
    return bytes(rng.choice([TYPE, 0, 4, rng.randrange(256), rng.randrange(256)]) for _ in range(n))


def make_packet(rng, fr, body):
    if fr == "tl":
        return bytes([rng.randrange(256), len(body)]) + body
    if fr == "lp":
        return bytes([len(body) >> 8, len(body) & 255]) + body
    fnc = rng.randrange(0x13)
    if rng.random() < 0.5:
        # the library's own encoder writes the header (bsll.BSLCI.encode via BSLPDU)
        x = bsll.BSLPDU(body)
        x.bslciFunction = fnc
        x.bslciLength = len(body) + 4
        y = PDU()
        x.encode(y)
        return bytes(y.pduData)
    return bytes([TYPE, fnc, (len(body) + 4) >> 8, (len(body) + 4) & 255]) + body


def random_scenario(rng, framings, budget):
    fr = rng.choice(framings)
    npeers = rng.choice([1, 2, 2, 3, 4])
    peers = list(PEERS[:npeers])
    dirs = ["up"] if fr == "lib" else list(DIRS)
    pkts = {d: {p: [] for p in PEERS} for d in DIRS}
    streams = [(d, p) for d in dirs for p in peers if rng.random() < 0.8] or [(dirs[0], peers[0])]
    left = budget
    big = rng.random() < 0.5
    for d, p in streams:
        k = rng.choice([1, 2, 3, 5, rng.randint(1, 25)])
        for _ in range(k):
            pk = make_packet(rng, fr, random_body(rng, fr, big))
            if len(pk) > left:
                break
            left -= len(pk)
            pkts[d][p].append(list(pk))
    return {"fr": fr, "pkts": pkts}, [s for s in streams if pkts[s[0]][s[1]]]


def random_ops(rng, sc, streams, mode):
    """cuts the streams into chunks and interleaves them; mode: plain | both (some chunks carry the local address as
    their other address) | raise (the consumer raises now and then)"""
    hl = HEADLEN[sc["fr"]]
    flat, bounds, pos = {}, {}, {}
    for s in streams:
        pk = sc["pkts"][s[0]][s[1]]
        flat[s] = [o for x in pk for o in x]
        b, marks = 0, set()
        for x in pk:
            marks.update((b + 1, b + hl - 1, b + hl, b + hl + 1, b + len(x) - 1, b + len(x)))
            b += len(x)
        bounds[s] = sorted(m for m in marks if m > 0)
        pos[s] = 0
    ops = []
    style = rng.choice(["tiny", "aimed", "aimed", "mixed", "mixed", "huge"])
    live = [s for s in streams if flat[s]]
    while live:
        s = rng.choice(live)
        left = len(flat[s]) - pos[s]
        r = rng.random()
        if style == "tiny":
            n = rng.choice([1, 1, 2, 3])
        elif style == "huge":
            n = rng.choice([left, rng.randint(1, 1500)])
        elif style == "aimed" or r < 0.5:
            nxt = [m for m in bounds[s] if m > pos[s]]
            n = (rng.choice(nxt[:8]) - pos[s]) if nxt else left
        else:
            n = rng.choice([1, 2, rng.randint(1, 40), rng.randint(1, 400), left])
        n = max(1, min(n, left))
        if rng.random() < 0.01:
            n = 0                                                       # an empty chunk
        data = flat[s][pos[s]:pos[s] + n]
        pos[s] += n
        other = "L" if (mode == "both" and rng.random() < 0.3) else ""
        fail = rng.choice([1, 1, 2, 3]) if (mode == "raise" and rng.random() < 0.15) else 0
        d, p = s
        ops.append((d, p if d == "up" else other, other if d == "up" else p, data, fail))
        if pos[s] >= len(flat[s]):
            live.remove(s)
            if mode == "raise":
                ops.append((d, p if d == "up" else "", "" if d == "up" else p, [], 0))     # an empty chunk flushes what a raise left
    return ops


# ---- what the tree under test does on the named axes (only the conformance side of the validation uses it) ------------------------
def probe_flags():
    flags = dict(INTENDED)
    try:
        rig = Rig("tl")
        ev = rig.chunk("up", "p1", "L", [7, 0, 8, 0], 0)
        flags["BothKeys"] = len(ev["em"]) > 2 or any(x["a"] == "L" for x in ev["bufd"])
        rig = Rig("tl")
        ev = rig.chunk("up", "p1", "", [7, 0, 8, 0, 9], 1)
        flags["LoseChunkOnRaise"] = ev["raised"] and not ev["bufd"]
    except Hang:
        pass
    return flags


def call_frame(fn, buff):
    """one evaluation of a framing function: (ok, packet, rest, exception name)"""
    try:
        with watchdog(10):
            r = fn(buff)
    except Exception as err:
        return False, [], [], type(err).__name__
    if r is None:
        return False, [], [], ""
    try:
        pkt, rest = r
        as_octets = lambda x: [ord(c) for c in x] if isinstance(x, str) else list(bytes(x))
        return True, as_octets(pkt), as_octets(rest), ""
    except Exception as err:
        return False, [], [], "result is no (packet, rest) pair: %r" % (r,)


def lib_packetize_usable():
    ok, pkt, rest, exc = call_frame(bsllservice._Packetize, bytes([TYPE, 1, 0, 5, 9, TYPE]))
    return exc == "" and ok and pkt == [TYPE, 1, 0, 5, 9]


def probe_stalls(as_text):
    b = bytes([TYPE, 0, 0, 2, 7])
    ok, pkt, rest, exc = call_frame(bsllservice._Packetize, b.decode("latin-1") if as_text else b)
    return exc == "" and ok and len(pkt) < 4


# ---- trace validation (Stream) ---------------------------------------------------------------------------------------------------
EV_KEYS = ("d", "s", "t", "data", "fail", "em", "raised", "bufd")


def validate(chk, traces, label, flags):
    verdicts = {}
    batches, batch, size = [], [], 0
    for t in traces:
        batch.append(t)
        size += len(t["evs"]) + 1 + sum(len(e["data"]) for e in t["evs"]) // 40
        if size > 30000:
            batches.append(batch)
            batch, size = [], 0
    if batch:
        batches.append(batch)
    body = "---- MODULE TRgen ----\nEXTENDS Trace_Stream\nc_None == {}\n====\n"
    cfg = ("CONSTANTS\n  Peers = %s\n  Addrs = %s\n  Scen <- c_None\n  MinChunk = 0\n  MaxChunk = 0\n  Fails <- c_None\n"
           "  Others <- c_None\n" % (tla(set(PEERS)), tla(set(ADDRS))) +
           "".join("  %s = %s\n" % (k, tla(bool(flags[k]))) for k in ("BothKeys", "LoseChunkOnRaise")) +
           "  ShortLengthStalls = FALSE\nSPECIFICATION TSpec\nCHECK_DEADLOCK FALSE\n")
    for bi, batch in enumerate(batches):
        wd = tlc.workdir("tr")
        tf = os.path.join(wd, "traces.ndjson")
        with open(tf, "w") as f:
            for t in batch:
                evs = [{k: e[k] for k in EV_KEYS} for e in t["evs"]]
                f.write(json.dumps({"tid": t["tid"], "scen": t["scen"], "evs": evs}) + "\n")
        try:
            res = tlc.run_tlc("TRgen", cfg_text=cfg, files={"TRgen.tla": body},
                              workers=workers(), timeout=1800,
                              env={"TRACE_FILE": tf}, name="Trace_Stream/%s/%d" % (label, bi))
        finally:
            shutil.rmtree(wd, ignore_errors=True)
        if res["error_kind"] or not res["finished"]:
            tlc.machinery_failure("trace validation run failed: %s\n%s" % (res["error"], res["output"][-3000:]))
        got = {v["tid"]: v for v in tlc.printed_values(res["output"])}
        if len(got) != len(batch):
            tlc.machinery_failure("trace validation returned %d verdicts for %d traces\n%s" % (len(got), len(batch), res["output"][-2000:]))
        verdicts.update(got)
        chk.extra["trace_validation_states"] = chk.extra.get("trace_validation_states", 0) + res["distinct"]
    return verdicts


def chunk_class(t, i, buffered):
    """what kind of chunk event i of trace t is (for the distinct-case count)"""
    e = t["evs"][i]
    n = len(e["data"])
    return (t["impl_fr"], e["d"], "both" if (e["s"] and e["t"]) else "one", min(e["fail"], 3), bool(e.get("raised")),
            "empty" if n == 0 else "1" if n == 1 else "hdr" if n < 4 else "small" if n < 20 else "mid" if n < 200 else "big",
            "buf0" if buffered == 0 else "buf<hdr" if buffered < HEADLEN[t["impl_fr"]] else "buf>=hdr",
            min(len(e.get("em", ())), 4),
            "rest0" if not any(x["b"] for x in e.get("bufd", ())) else "rest")


def note_cases(chk, t):
    bufl = collections.defaultdict(int)
    for i, e in enumerate(t["evs"]):
        if "hang" in e:
            break
        key = (e["d"], e["s"] if e["d"] == "up" else e["t"])
        chk.case(chunk_class(t, i, bufl[key]), nontrivial=True)
        for x in e["bufd"]:
            bufl[(x["d"], x["a"])] = len(x["b"])


def count_monitors(chk, t):
    for e in t["evs"]:
        if "hang" in e:
            break
        for m in ("OutputIsPrefixOfPackets", "NoEarlyEmission", "BufferIsRemainder", "Independent", "OctetsConserved"):
            chk.monitor(m)
        chk.monitor("NothingHeldBack", 0 if e["raised"] else 1)
        chk.monitor("AddressesPropagated", len(e["em"]))
    # Complete: streams delivered to the end
    sent = collections.Counter()
    for e in t["evs"]:
        if "hang" not in e:
            sent[(e["d"], e["s"] if e["d"] == "up" else e["t"])] += len(e["data"])
    chk.monitor("Complete", sum(1 for (d, p), n in sent.items() if p in PEERS and n and n == sum(len(x) for x in t["scen"]["pkts"][d][p])))


def classify(t, l):
    """signature of a monitor failure at step l of trace t: which kind of input the stream had seen up to there"""
    e = t["evs"][l - 1]
    upto = t["evs"][:l]
    key = (e["d"], e["s"] if e["d"] == "up" else e["t"])
    mine = [x for x in upto if (x["d"], x["s"] if x["d"] == "up" else x["t"]) == key]
    if any(x.get("exc") for x in upto):
        exc = [x["exc"] for x in upto if x.get("exc")][0]
        case = "library_raised_" + exc.split(":")[0]
    elif any(x["s"] and x["t"] for x in upto if x["d"] == e["d"]):
        case = "chunk_with_source_and_destination"
    elif any(x["raised"] for x in mine):
        case = "consumer_raised"
    else:
        case = "plain"
    return {"case": case, "framing": t["impl_fr"]}


def corrupted_copies(traces):
    """binding self-test: copies of recorded traces with one logged field falsified, and a monitor that must notice"""
    import copy
    out = []

    def first(pred):
        for t in traces:
            for i, e in enumerate(t["evs"]):
                if "hang" not in e and not e["raised"] and not (e["s"] and e["t"]) and pred(e):
                    return t, i
        return None, None
    t, i = first(lambda e: len(e["em"]) >= 2)
    if t is not None:                                            # two packets swapped
        c = copy.deepcopy(t)
        c["evs"] = c["evs"][:i + 1]
        c["evs"][i]["em"][0], c["evs"][i]["em"][1] = c["evs"][i]["em"][1], c["evs"][i]["em"][0]
        if c["evs"][i]["em"][0] != c["evs"][i]["em"][1]:
            out.append((c, "OutputIsPrefixOfPackets"))
    t, i = first(lambda e: len(e["em"]) >= 1)
    if t is not None:                                            # a packet handed on twice (equal neighbours keep the prefix formula true)
        c = copy.deepcopy(t)
        c["evs"] = c["evs"][:i + 1]
        c["evs"][i]["em"].append(c["evs"][i]["em"][-1])
        out.append((c, "OctetsConserved"))
    t, i = first(lambda e: len(e["em"]) >= 1)
    if t is not None:                                            # a packet lost
        c = copy.deepcopy(t)
        c["evs"] = c["evs"][:i + 1]
        c["evs"][i]["em"].pop()
        out.append((c, "OctetsConserved"))
    t, i = first(lambda e: any(x["b"] for x in e["bufd"]))
    if t is not None:                                            # an octet missing from a buffer
        c = copy.deepcopy(t)
        c["evs"] = c["evs"][:i + 1]
        [x for x in c["evs"][i]["bufd"] if x["b"]][0]["b"].pop()
        out.append((c, "BufferIsRemainder"))
    t, i = first(lambda e: len(e["em"]) >= 1)
    if t is not None:                                            # a packet with the wrong address
        c = copy.deepcopy(t)
        c["evs"] = c["evs"][:i + 1]
        x = c["evs"][i]["em"][0]
        k = "src" if c["evs"][i]["d"] == "up" else "dst"
        x[k] = "p2" if x[k] != "p2" else "p1"
        out.append((c, "AddressesPropagated"))
    t, i = first(lambda e: True)
    if t is not None:                                            # another stream's buffer touched
        c = copy.deepcopy(t)
        c["evs"] = c["evs"][:i + 1]
        e = c["evs"][i]
        other = "p2" if (e["s"] if e["d"] == "up" else e["t"]) != "p2" else "p1"
        e["bufd"] = [x for x in e["bufd"] if x["a"] != other or x["d"] != e["d"]] + [{"d": e["d"], "a": other, "b": [1]}]
        out.append((c, "Independent"))
    for k, (c, m) in enumerate(out):
        c["tid"] = 9000001 + k
    return out


def judge(chk, traces, label, seen, flags, selftest=False):
    """hangs, TLC verdicts -> violations / deviations / accepted traces"""
    for t in traces:
        if t["evs"] and "hang" in t["evs"][-1]:
            ev = t["evs"].pop()
            gk = ("Terminates", t["impl_fr"])
            if gk not in seen:
                seen.add(gk)
                chk.violation("Terminates", {"case": "chunk_never_returns", "framing": t["impl_fr"]},
                              {"what": ev["hang"], "step": len(t["evs"]) + 1, "chunk": {k: ev[k] for k in ("d", "s", "t", "data", "fail")}},
                              dict(t["replay"], step=len(t["evs"]) + 1))
    if not traces:
        return
    verdicts = validate(chk, traces, label, flags)
    if selftest:
        # binding self-test on traces that were accepted as they are: one field falsified, the matching formula must notice
        clean = [t for t in traces if t["note"] == "plain" and not verdicts[t["tid"]]["viol"] and not verdicts[t["tid"]]["rej"]]
        probes = corrupted_copies(clean)
        pv = validate(chk, [c for c, m in probes], label + "_selftest", flags) if probes else {}
        for c, m in probes:
            got = sorted(set(x[0] for x in pv[c["tid"]]["viol"]))
            if m not in got:
                tlc.machinery_failure("binding self-test: a trace with a falsified field (%s expected) was judged %r" % (m, got))
            chk.extra.setdefault("binding_selftest", []).append("falsified trace flagged by %s as expected (also: %s)" % (
                m, ", ".join(x for x in got if x != m) or "-"))
        if not probes:
            chk.extra.setdefault("binding_selftest", []).append("skipped (%s): no recorded trace was accepted unchanged" % label)
    classes = chk.extra.setdefault("violation_classes", {})
    for t in traces:
        v = verdicts[t["tid"]]
        count_monitors(chk, t)
        harness_flags = [i + 1 for i, e in enumerate(t["evs"]) if e.get("foreign") or e.get("wrongdir")]
        if v["viol"]:
            for m, l in sorted(v["viol"], key=lambda x: (x[1], x[0])):
                sig = classify(t, l)
                gk = (m, sig["case"])
                ck = "%s/%s" % gk
                classes[ck] = classes.get(ck, 0) + 1
                if gk in seen:
                    continue
                seen.add(gk)
                ev = t["evs"][l - 1]
                lo = max(0, l - 4)
                short = lambda e: {"d": e["d"], "s": e["s"], "t": e["t"], "data": e["data"][:24], "octets": len(e["data"]), "fail": e["fail"],
                                   "raised": e["raised"], "exc": e.get("exc", ""),
                                   "handed_on": [x["data"][:12] for x in e["em"][:6]], "n_handed_on": len(e["em"]),
                                   "buffers_changed": [{"d": x["d"], "a": x["a"], "b": x["b"][:24], "len": len(x["b"])} for x in e["bufd"]]}
                key = (ev["d"], ev["s"] if ev["d"] == "up" else ev["t"])
                pk = t["scen"]["pkts"][key[0]].get(key[1], [])
                detail = {"step": l, "framing": t["impl_fr"], "stream": list(key), "packets_sent_on_that_stream": [x[:12] for x in pk[:8]],
                          "n_packets": len(pk), "steps": [short(e) for e in t["evs"][lo:l]],
                          "first_step_rejected_by_design": v["rej"], "failing_here_or_earlier": sorted(set(x[0] for x in v["viol"]))}
                chk.violation(m, sig, detail, dict(t["replay"], step=l))
        elif v["rej"] or harness_flags:
            l = v["rej"] or harness_flags[0]
            ev = t["evs"][l - 1]
            chk.deviation({"tid": t["tid"], "step": l, "framing": t["impl_fr"], "event": {k: (ev[k][:40] if k == "data" else ev[k]) for k in
                                                                                       ("d", "s", "t", "data", "fail", "raised", "exc", "foreign", "wrongdir")},
                           "handed_on": [x["data"][:12] for x in ev["em"][:6]], "replay": t["replay"]})
        else:
            chk.traces_validated += 1


# ---- the framing functions, function by function ----------------------------------------------------------------------------------
def frame_inputs(rng, nrandom, maxlen):
    alpha = [0, 1, 3, 4, 5, TYPE]
    bufs = [bytes(c) for n in range(maxlen + 1) for c in itertools.product(alpha, repeat=n)]
    for _ in range(nrandom):
        fr = "bsll"
        parts = []
        for _ in range(rng.choice([1, 1, 2, 3])):
            parts.append(make_packet(rng, fr, random_body(rng, fr, rng.random() < 0.3)))
        b = b"".join(parts)
        r = rng.random()
        if r < 0.35:
            b = b[:rng.randint(0, len(b))]                                          # truncated
        elif r < 0.55:
            b = bytes(rng.choice([0, 1, 0xFF, rng.randrange(256)]) for _ in range(rng.randint(1, 6))).replace(bytes([TYPE]), b"\x00") + b
        elif r < 0.65:
            b = bytes([TYPE, rng.randrange(256), 0, rng.randrange(4)]) + b          # a header whose length is below 4
        elif r < 0.7:
            b = b + bytes(rng.randrange(256) for _ in range(rng.randint(1, 5)))
        bufs.append(b)
    return bufs


def validate_frames(chk, recs, stalls, label):
    wd = tlc.workdir("fr")
    tf = os.path.join(wd, "recs.ndjson")
    with open(tf, "w") as f:
        for r in recs:
            f.write(json.dumps({k: r[k] for k in ("id", "f", "b", "ok", "pkt", "rest", "exc")}) + "\n")
    cfg = "CONSTANTS\n  ShortLengthStalls = %s\nSPECIFICATION TSpec\nCHECK_DEADLOCK FALSE\n" % tla(bool(stalls))
    try:
        res = tlc.run_tlc("Trace_StreamFrame", cfg_text=cfg, workers=workers(),
                          timeout=1200, env={"TRACE_FILE": tf}, name="Trace_StreamFrame/" + label)
    finally:
        shutil.rmtree(wd, ignore_errors=True)
    if res["error_kind"] or not res["finished"] or res["distinct"] != len(recs):
        tlc.machinery_failure("framing validation run failed (%s, %d states for %d records)\n%s" % (
            res["error"], res["distinct"], len(recs), res["output"][-3000:]))
    chk.extra["trace_validation_states"] = chk.extra.get("trace_validation_states", 0) + res["distinct"]
    return {v["id"]: v for v in tlc.printed_values(res["output"])}


def frame_case(b):
    """class of a buffer handed to a BSLL framing function: (octets in front of the first type octet?, what follows)"""
    s = b.find(bytes([TYPE]))
    if s < 0:
        return False, "no_type_octet"
    d = b[s:]
    if len(d) < 4:
        return s > 0, "partial_header"
    n = 256 * d[2] + d[3]
    if n < 4:
        return s > 0, "length_field_below_header_length"
    return s > 0, ("partial_frame" if len(d) < n else "frame" if len(d) == n else "frame_and_more")


def check_frames(chk, rng, thorough, seen):
    """every framing function on every small buffer and on random frames, judged by TLC"""
    bufs = frame_inputs(rng, 6000 if thorough else 1500, 5 if thorough else 4)
    # (1) the driver's renderings of the three framings: must BE the specified functions
    recs = []
    for fr, fn in sorted(PACKET_FN.items()):
        for b in bufs:
            ok, pkt, rest, exc = call_frame(fn, b)
            recs.append({"id": len(recs) + 1, "f": fr, "b": list(b), "ok": ok, "pkt": pkt, "rest": rest, "exc": exc})
    bad = validate_frames(chk, recs, False, "rendering")
    if bad:
        tlc.machinery_failure("the driver's rendering of a framing differs from StreamFrame.tla: %r" % (list(bad.values())[:3],))
    chk.extra["framing_renderings_checked"] = len(recs)
    # (2) the library's function, called as the stack calls it (bytes); when that raises, additionally with text
    # (latin-1), the only kind of argument its body can work on, to see the rest of its logic
    usable = lib_packetize_usable()
    chk.extra["lib_packetize_works_on_bytes"] = usable
    modes = [("bytes", False)] + ([] if usable else [("latin-1 text", True)])
    for mode, as_text in modes:
        stalls = probe_stalls(as_text)
        chk.extra.setdefault("code_flags_observed", {})["ShortLengthStalls(%s)" % mode] = stalls
        recs = []
        for b in bufs:
            if HANGS[0] >= 3:
                break
            try:
                ok, pkt, rest, exc = call_frame(bsllservice._Packetize, b.decode("latin-1") if as_text else b)
            except Hang:
                HANGS[0] += 1
                chk.violation("Terminates", {"fn": "_Packetize", "input": mode, "case": frame_case(b)[1]}, {"buffer": list(b)},
                              {"kind": "frame", "b": list(b), "text": as_text})
                continue
            recs.append({"id": len(recs) + 1, "f": "bsll", "b": list(b), "ok": ok, "pkt": pkt, "rest": rest, "exc": exc, "mode": mode})
            chk.case(("frame", mode, frame_case(b), ok, exc, min(len(b), 12)), nontrivial=True)
        verdicts = validate_frames(chk, recs, stalls, "lib_" + mode.split()[0])
        differs = 0
        for r in recs:
            chk.monitor("FrameTotal")
            for m in FRAME_MONITORS[1:]:
                chk.monitor(m, 0 if r["exc"] else 1)
            v = verdicts.get(r["id"])
            if v is None:
                chk.traces_validated += 1
                continue
            b = bytes(r["b"])
            if not v["viol"]:
                differs += 1
                if differs <= 3:
                    chk.deviation({"fn": "_Packetize", "input": mode, "buffer": r["b"][:40], "returned": [r["ok"], r["pkt"][:40], r["rest"][:40]]})
                continue
            for m in sorted(v["viol"]):
                case = ("raises_" + r["exc"]) if r["exc"] else frame_case(b)[1]
                sig = {"fn": "_Packetize", "input": mode, "case": case, "garbage_in_front": frame_case(b)[0]}
                gk = (m, mode, case)
                ck = "%s/%s/%s" % gk
                cl = chk.extra.setdefault("violation_classes", {})
                cl[ck] = cl.get(ck, 0) + 1
                if gk in seen:
                    continue
                seen.add(gk)
                chk.violation(m, sig, {"call": "bsllservice._Packetize(%s)" % ("%r" % (b.decode("latin-1") if as_text else b))[:120],
                                       "buffer": r["b"][:60], "returned": "raised " + r["exc"] if r["exc"] else
                                       {"ok": r["ok"], "packet": r["pkt"][:40], "rest": r["rest"][:40]},
                                       "expected": "what StreamFrame!Frame(\"bsll\", buffer) yields; formula %s" % m},
                              {"kind": "frame", "b": r["b"], "text": as_text})
    return usable


# ====================================================================================================================================
# C: connection bookkeeping of the TCP directors, socket layer stubbed (StreamConn.tla)
# ====================================================================================================================================
import errno, asyncore
from bacpypes.comm import ApplicationServiceElement

tcp._time = lambda: vt.now               # tcp.py keeps its own reference to the wall clock: give it the virtual one
CONN_MONITORS = ["TimersBelongToActors", "DisconnectIsFinal", "KeptAlive", "SentInOrder", "BuffersFollowTable", "NotesMatchTable",
                 "ClosedForAReason", "ReceivedGoesUp", "ReceivedConserved"]
CPEERS = ("p1", "p2", "p3")
CONN_INTENDED = {"DisconnectKeepsPendingReconnect": False, "ImmediateConnectKeepsTimeout": False}
CURRENT = [None]                             # the rig whose director is creating sockets


class FakeSocket:
    """what the directors and actors need of a socket; the harness decides what the network does"""
    _n = [1000000]

    def __init__(self, how="inprogress", peer=None):
        self.how, self.peer = how, peer
        self.sent, self.inbox, self.eof, self.closed = bytearray(), collections.deque(), False, False
        FakeSocket._n[0] += 1
        self._fd = FakeSocket._n[0]

    def setblocking(self, flag):
        pass

    def fileno(self):
        return self._fd

    def getpeername(self):
        return self.peer

    def connect_ex(self, peer):
        self.peer = peer
        return {"now": 0, "inprogress": errno.EINPROGRESS}[self.how]

    def getsockopt(self, *args):
        return 0

    def setsockopt(self, *args):
        pass

    def send(self, data):
        self.sent += data
        return len(data)

    def recv(self, n):
        if self.inbox:
            return self.inbox.popleft()
        if self.eof:
            return b""
        raise BlockingIOError(errno.EWOULDBLOCK, "nothing to read")

    def close(self):
        self.closed = True

    # a listening socket
    def bind(self, addr):
        pass

    def listen(self, n):
        pass

    def accept(self):
        return self.inbox.popleft()


class StubClientActor(tcp.TCPClientActor):
    def create_socket(self, family=None, type=None):
        self.socket = FakeSocket(CURRENT[0].next_how)


class StubServerDirector(tcp.TCPServerDirector):
    def create_socket(self, family=None, type=None):
        self.socket = FakeSocket()


class _ConnTop(Client):
    def __init__(self, rig):
        Client.__init__(self)
        self.rig = rig

    def confirmation(self, pdu):
        self.rig.up.append({"data": list(bytes(pdu.pduData)), "src": NAME.get(pdu.pduSource, "?")})


class _Recorder(ApplicationServiceElement):
    def __init__(self, rig):
        ApplicationServiceElement.__init__(self)
        self.rig = rig

    def indication(self, add_actor=None, del_actor=None, actor_error=None, error=None):
        if add_actor is not None:
            self.rig.note.append(["add", NAME.get(add_actor.peer, "?")])
        if del_actor is not None:
            self.rig.note.append(["del", NAME.get(del_actor.peer, "?")])


def drain_deferred():
    """the deferred functions only (core.run_once would also run the due tasks: those are steps of their own here)"""
    n = 0
    while core.deferredFns:
        fns = core.deferredFns
        core.deferredFns = []
        for fn, args, kwargs in fns:
            fn(*args, **kwargs)
        n += 1
        if n > 1000:
            raise Hang("deferred functions keep coming")


def identify_task(t):
    """(kind, peer) of a scheduler entry made by tcp.py: FunctionTask(actor.connect_timeout | actor.idle_timeout |
    director.connect, peer)"""
    f = type(t).process_task
    cells = dict(zip(f.__code__.co_freevars, (c.cell_contents for c in (f.__closure__ or ()))))
    fn, args = cells.get("fn"), cells.get("args", ())
    name = getattr(fn, "__name__", "?")
    if name == "connect_timeout":
        return "ct", NAME.get(fn.__self__.peer, "?")
    if name == "idle_timeout":
        return "it", NAME.get(fn.__self__.peer, "?")
    if isinstance(getattr(fn, "__self__", None), tcp.TCPClientDirector) and args:
        return "rc", NAME.get(args[0], "?")                   # (director.connect, or whatever a tree makes of it)
    return name, "?"


class ConnRig:
    """a real director (socket layer stubbed) under a real StreamToPacket, StreamToPacketSAP as its service element"""

    def __init__(self, peers, role, connt, idle):
        vt.reset(0.0)
        self.peers, self.role = list(peers), role
        self.next_how = "inprogress"
        self.up, self.note = [], []
        CURRENT[0] = self
        if role == "client":
            self.director = tcp.TCPClientDirector(connect_timeout=connt or None, idle_timeout=idle or None, actorClass=StubClientActor)
        else:
            self.director = StubServerDirector(("0.0.0.0", 47808), idle_timeout=idle or 0)
        self.stp = StreamToPacket(fn_tl)
        self.top = _ConnTop(self)
        bind(self.top, self.stp, self.director)
        self.sap = tcp.StreamToPacketSAP(self.stp)
        bind(self.sap, self.director)
        self.rec = _Recorder(self)
        bind(self.rec, self.sap)

    def table(self):
        return self.director.clients if self.role == "client" else self.director.servers

    def actor(self, p):
        return self.table().get(ADDR[p])

    def project(self):
        cl = {}
        for p in self.peers:
            a = self.actor(p)
            if a is None:
                cl[p] = {"on": False, "conn": False, "q": [], "wire": []}
            else:
                cl[p] = {"on": True, "conn": bool(a.connected), "q": list(bytes(a.request)),
                         "wire": list(bytes(a.socket.sent)) if a.socket is not None else []}
        tasks = []
        for when, n, t in sorted(vt.tm.tasks, key=lambda e: e[1]):
            k, p = identify_task(t)
            tasks.append({"k": k, "p": p, "due": int(round(when))})
        rc = {p: int(self.director.reconnect.get(ADDR[p], 0)) if self.role == "client" else 0 for p in self.peers}
        foreign = sum(1 for k in self.table() if k not in NAME or NAME[k] not in self.peers)
        return {"now": int(round(vt.now)), "cl": cl, "part": {p: list(bytes(self.stp.upstreamBuffer.get(ADDR[p], b""))) for p in self.peers},
                "hasbuf": [p for p in self.peers if ADDR[p] in self.stp.upstreamBuffer], "rc": rc, "tasks": tasks}, foreign

    def step(self, op, p="", r=0, how="", data=()):
        self.up, self.note = [], []
        self.next_how = how or "inprogress"
        CURRENT[0] = self
        refused, exc = False, ""
        try:
            with watchdog(10):
                if op == "connect":
                    self.director.connect(ADDR[p], reconnect=r)
                elif op == "disconnect":
                    self.director.disconnect(ADDR[p])
                elif op == "send":
                    self.top.request(PDU(bytes(data), destination=ADDR[p]))
                elif op == "accept":
                    self.director.socket.inbox.append((FakeSocket(peer=ADDR[p]), ADDR[p]))
                    self.director.handle_read_event()
                elif op == "writable":
                    self.actor(p).handle_write_event()
                elif op == "receive":
                    a = self.actor(p)
                    a.socket.inbox.append(bytes(data))
                    a.handle_read_event()
                elif op == "peerclose":
                    a = self.actor(p)
                    a.socket.eof = True
                    a.handle_read_event()
                elif op == "tick":
                    entry = vt.due()[0]
                    p = identify_task(entry[2])[1]
                    if identify_task(entry[2])[0] != "rc":
                        how = ""
                    vt.run_one(entry)
                elif op == "wait":
                    vt.now = vt.now + 1
                else:
                    raise ValueError(op)
                drain_deferred()
        except Hang:
            raise
        except Exception as err:
            refused, exc = True, "%s: %s" % (type(err).__name__, err)
        st, foreign = self.project()
        return {"op": op, "p": p, "r": r, "how": how, "data": list(data), "note": self.note, "up": self.up, "refused": refused,
                "exc": exc, "st": st, "foreign": foreign, "errors": len(vt.errors)}

    def close(self):
        for a in list(self.table().values()):
            try:
                asyncore.socket_map.pop(getattr(a, "_fileno", None), None)
            except Exception:
                pass
        vt.reset(0.0)


def cfg_conn(configs="c_Client", delays=(0, 2), hows="c_Hows", maxtime=6, maxops=4, flags=CONN_INTENDED, invs=None, props=None,
             peers=("p1", "p2")):
    lines = ["CONSTANTS", "  Peers = %s" % tla(set(peers)), "  Configs <- %s" % configs,
             "  Delays = %s" % tla(set(delays)), "  Hows <- %s" % hows, "  Packets <- c_Packets", "  Chunks <- c_Chunks",
             "  MaxTime = %d" % maxtime, "  MaxOps = %d" % maxops]
    lines += ["  %s = %s" % (k, tla(bool(flags[k]))) for k in sorted(CONN_INTENDED)]
    lines += ["  ShortLengthStalls = FALSE", "SPECIFICATION Spec", "CHECK_DEADLOCK FALSE"]
    lines += ["INVARIANT " + i for i in (CONN_MONITORS[:5] if invs is None else invs)]
    lines += ["PROPERTY P_" + p for p in (CONN_MONITORS[5:] + ["NothingOverdue"] if props is None else props)]
    return "\n".join(lines) + "\n"


def conn_probe_flags():
    flags = dict(CONN_INTENDED)
    try:
        rig = ConnRig(("p1", "p2"), "client", 2, 0)
        rig.step("connect", "p1", 0, "now")
        ev = rig.step("wait")
        flags["ImmediateConnectKeepsTimeout"] = any(t["k"] == "ct" for t in ev["st"]["tasks"])
        rig.close()
        rig = ConnRig(("p1", "p2"), "client", 0, 0)
        rig.step("connect", "p1", 2, "inprogress")
        rig.step("writable", "p1")
        rig.step("peerclose", "p1")
        ev = rig.step("disconnect", "p1")
        flags["DisconnectKeepsPendingReconnect"] = ev["st"]["rc"]["p1"] != 0
        rig.close()
    except Hang:
        pass
    return flags


def conn_exec(tid, cfgkey, ops):
    """one history on a fresh director; cfgkey = (role, connect timeout, idle timeout), ops = [(op, p, r, how, data)].
    A walk of the model is left where it no longer applies to the real state (the peer it names has no actor, a `wait`
    with something overdue, a `tick` with nothing due)."""
    role, connt, idle = cfgkey
    rig = ConnRig(CPEERS, role, connt, idle)
    evs, done = [], []
    try:
        st, _ = rig.project()
        for op in ops:
            due = any(t["due"] <= st["now"] for t in st["tasks"])
            if (op[0] == "wait" and due) or (op[0] == "tick" and not due) or (
                    op[0] in ("writable", "receive", "peerclose") and not st["cl"][op[1]]["on"]):
                break
            done.append(op)
            try:
                evs.append(rig.step(*op))
            except Hang as h:
                HANGS[0] += 1
                evs.append({"hang": str(h), "op": op[0], "p": op[1]})
                break
            st = evs[-1]["st"]
    finally:
        rig.close()
    return {"tid": tid, "cfg": cfgkey, "evs": evs, "left_at": len(done) if len(done) < len(ops) else None,
            "replay": {"kind": "conn", "cfg": list(cfgkey), "ops": [list(o) for o in done]}}


def conn_replay_graph(chk, name, cfgkey, configs, **kw):
    wd = tlc.workdir("dot")
    dot = os.path.join(wd, "g")
    try:
        run_mc(chk, "MC_StreamConn", name, cfg_conn(configs=configs, invs=[], props=[], **kw), dump=dot)
        nodes, edges, init0 = tlaval.parse_dot(dot + ".dot")
    finally:
        shutil.rmtree(wd, ignore_errors=True)
    succ = collections.defaultdict(list)
    for u, v in edges:
        if u != v:
            succ[u].append(v)
    init = [n for n, st in nodes.items() if st["act"]["op"] == "init"][0]
    out, steps = [], 0
    for w in edge_cover(succ, init):
        ops = []
        for v in w:
            a = nodes[v]["act"]
            ops.append((a["op"], a["p"], int(a["r"]), a["how"], [int(x) for x in a["data"]]))
        steps += len(ops)
        out.append(ops)
    chk.extra.setdefault("replay", []).append({"config": name, "graph_nodes": len(nodes), "graph_edges": len(edges), "walks": len(out), "steps": steps})
    return out


def conn_random_history(rng, cfgkey, nops):
    """a random history; the generator looks at the projected table (which peers have an actor, connected or not,
    whether something is due) to pick calls that make sense, nothing else"""
    role, connt, idle = cfgkey
    peers = CPEERS
    rig = ConnRig(peers, role, connt, idle)
    evs, ops = [], []
    try:
        st, _ = rig.project()
        for _ in range(nops):
            if HANGS[0] >= 3:
                break
            due = any(t["due"] <= st["now"] for t in st["tasks"])
            p = rng.choice(peers)
            c = st["cl"][p]
            how = rng.choice(["inprogress", "inprogress", "now"])
            choices = []
            if due:
                choices += [("tick", "", 0, how, [])] * 6
            else:
                choices += [("wait", "", 0, "", [])] * 4
            pk = [rng.randrange(256), 0] if rng.random() < 0.7 else [rng.randrange(256), 2, rng.randrange(256), rng.randrange(256)]
            if role == "client":
                choices += [("connect", p, rng.choice([0, 0, 2, 3, 5]), how, [])] * (1 if c["on"] else 3)
                choices += [("disconnect", p, 0, "", [])] * 2
                choices += [("send", p, 0, how, pk)] * 2
            else:
                if not c["on"]:
                    choices += [("accept", p, 0, "", [])] * 3
                choices += [("send", p, 0, "", pk)] * (2 if c["on"] else 1)
            if c["on"]:
                choices += [("writable", p, 0, "", [])] * 2
            if c["on"] and c["conn"]:
                chunk = rng.choice([[5], [1, 9], [5, 0, 6, 1], [3, 0], [4, 1, 8, 2, 0], [0]])
                choices += [("receive", p, 0, "", chunk)] * 3 + [("peerclose", p, 0, "", [])] * 1
            op = rng.choice(choices)
            ops.append(op)
            try:
                ev = rig.step(*op)
            except Hang as h:
                HANGS[0] += 1
                evs.append({"hang": str(h), "op": op[0], "p": op[1]})
                break
            evs.append(ev)
            st = ev["st"]
    finally:
        rig.close()
    return evs, ops


CONN_EV_KEYS = ("op", "p", "r", "how", "data", "note", "up", "refused", "st")


def conn_validate(chk, traces, flags, label):
    cfg = ("CONSTANTS\n  Peers = %s\n  Configs <- c_None\n  Delays <- c_None\n  Hows <- c_None\n  Packets <- c_None\n"
           "  Chunks <- c_None\n  MaxTime = 1000000\n  MaxOps = 0\n" % tla(set(CPEERS)) +
           "".join("  %s = %s\n" % (k, tla(bool(flags[k]))) for k in sorted(CONN_INTENDED)) +
           "  ShortLengthStalls = FALSE\nSPECIFICATION TSpec\nCHECK_DEADLOCK FALSE\n")
    body = "---- MODULE TCgen ----\nEXTENDS Trace_StreamConn\nc_None == {}\n====\n"
    wd = tlc.workdir("trc")
    tf = os.path.join(wd, "traces.ndjson")
    with open(tf, "w") as f:
        for t in traces:
            f.write(json.dumps({"tid": t["tid"], "cfg": {"role": t["cfg"][0], "connT": t["cfg"][1], "idle": t["cfg"][2]},
                                "evs": [{k: e[k] for k in CONN_EV_KEYS} for e in t["evs"]]}) + "\n")
    try:
        res = tlc.run_tlc("TCgen", cfg_text=cfg, files={"TCgen.tla": body}, workers=workers(),
                          timeout=1800, env={"TRACE_FILE": tf}, name="Trace_StreamConn/%s" % label)
    finally:
        shutil.rmtree(wd, ignore_errors=True)
    if res["error_kind"] or not res["finished"]:
        tlc.machinery_failure("trace validation run failed: %s\n%s" % (res["error"], res["output"][-3000:]))
    got = {v["tid"]: v for v in tlc.printed_values(res["output"])}
    if len(got) != len(traces):
        tlc.machinery_failure("trace validation returned %d verdicts for %d traces\n%s" % (len(got), len(traces), res["output"][-2000:]))
    chk.extra["trace_validation_states"] = chk.extra.get("trace_validation_states", 0) + res["distinct"]
    return got


def conn_classify(t, m, l):
    """signature of a monitor failure at step l: what had happened to that peer"""
    ev = t["evs"][l - 1]
    upto = t["evs"][:l]
    p = ev["p"]
    role = t["cfg"][0]
    case = "other"
    if m == "DisconnectIsFinal" and ev["op"] == "tick" and ["add", p] in ev["note"]:
        # the reconnect that made this actor: was it already pending when the peer was disconnected?
        j = max((i for i, e in enumerate(upto) if e["op"] == "disconnect" and e["p"] == p), default=None)
        if j is not None and j > 0 and any(x["k"] == "rc" and x["p"] == p for x in upto[j - 1]["st"]["tasks"]):
            case = "pending_reconnect_outlives_disconnect"
    if m == "KeptAlive" and ev["op"] == "disconnect" and not (upto[-2]["st"]["cl"][p]["on"] if l > 1 else False):
        case = "pending_reconnect_outlives_disconnect"
    if m in ("TimersBelongToActors", "ClosedForAReason"):
        # the actor concerned was connected at once by connect_ex and still has its connect timeout
        for q in CPEERS:
            made = [i for i, e in enumerate(upto) if e["st"]["cl"][q]["on"] and (i == 0 or not upto[i - 1]["st"]["cl"][q]["on"])]
            if made and upto[made[-1]]["how"] == "now" and any(x["k"] == "ct" and x["p"] == q for x in upto[made[-1]]["st"]["tasks"]) and (
                    m == "TimersBelongToActors" or q == p):
                case = "connect_timeout_of_an_immediately_connected_actor"
    return {"case": case, "role": role, "op": ev["op"]} if case == "other" else {"case": case, "role": role}


def conn_corrupted(traces):
    import copy
    out = []

    def first(pred):
        for t in traces:
            for i, e in enumerate(t["evs"]):
                if "hang" not in e and pred(e):
                    return t, i
        return None, None
    t, i = first(lambda e: e["note"] and e["note"][0][0] == "add")
    if t is not None:                                            # a notification lost
        c = copy.deepcopy(t)
        c["evs"] = c["evs"][:i + 1]
        c["evs"][i]["note"] = []
        out.append((c, "NotesMatchTable"))
    t, i = first(lambda e: any(x["k"] == "it" for x in e["st"]["tasks"]))
    if t is not None:                                            # an idle timer one second late
        c = copy.deepcopy(t)
        c["evs"] = c["evs"][:i + 1]
        [x for x in c["evs"][i]["st"]["tasks"] if x["k"] == "it"][0]["due"] += 1
        out.append((c, "TimersBelongToActors"))
    t, i = first(lambda e: any(v["wire"] for v in e["st"]["cl"].values()))
    if t is not None:                                            # an octet missing on the wire
        c = copy.deepcopy(t)
        c["evs"] = c["evs"][:i + 1]
        [v for v in c["evs"][i]["st"]["cl"].values() if v["wire"]][0]["wire"].pop()
        out.append((c, "SentInOrder"))
    t, i = first(lambda e: e["up"])
    if t is not None:                                            # a packet handed up under the wrong source
        c = copy.deepcopy(t)
        c["evs"] = c["evs"][:i + 1]
        c["evs"][i]["up"][0]["src"] = "p2" if c["evs"][i]["up"][0]["src"] != "p2" else "p1"
        out.append((c, "ReceivedGoesUp"))
    t, i = None, None
    for tt in traces:
        for j, e in enumerate(tt["evs"]):
            if ("hang" not in e and e["op"] == "peerclose" and sum(1 for x in e["st"]["tasks"] if x["k"] == "rc" and x["p"] == e["p"]) == 1
                    and not any(x["op"] == "disconnect" and x["p"] == e["p"] for x in tt["evs"][:j]) and t is None):
                t, i = tt, j
    if t is not None:                                            # a reconnect scheduled too late
        c = copy.deepcopy(t)
        c["evs"] = c["evs"][:i + 1]
        [x for x in c["evs"][i]["st"]["tasks"] if x["k"] == "rc" and x["p"] == c["evs"][i]["p"]][-1]["due"] += 1
        out.append((c, "KeptAlive"))
    for k, (c, m) in enumerate(out):
        c["tid"] = 9100001 + k
    return out


def conn_judge(chk, traces, flags, label, seen, selftest=False):
    for t in traces:
        if t["evs"] and "hang" in t["evs"][-1]:
            ev = t["evs"].pop()
            if ("Terminates", "conn") not in seen:
                seen.add(("Terminates", "conn"))
                chk.violation("Terminates", {"case": "director_call_never_returns", "op": ev["op"]}, {"what": ev["hang"], "step": len(t["evs"]) + 1},
                              dict(t["replay"], step=len(t["evs"]) + 1))
    traces = [t for t in traces if t["evs"]]
    if not traces:
        return
    verdicts = conn_validate(chk, traces, flags, label)
    if selftest:
        clean = [t for t in traces if not verdicts[t["tid"]]["viol"] and not verdicts[t["tid"]]["rej"]]
        probes = conn_corrupted(clean)
        pv = conn_validate(chk, [c for c, m in probes], flags, label + "_selftest") if probes else {}
        for c, m in probes:
            got = sorted(set(x[0] for x in pv[c["tid"]]["viol"]))
            if m not in got:
                tlc.machinery_failure("binding self-test (connections): a trace with a falsified field (%s expected) was judged %r" % (m, got))
            chk.extra.setdefault("binding_selftest", []).append("falsified connection trace flagged by %s as expected (also: %s)" % (
                m, ", ".join(x for x in got if x != m) or "-"))
        if not probes:
            chk.extra.setdefault("binding_selftest", []).append("skipped (connections %s): no recorded trace was accepted unchanged" % label)
    classes = chk.extra.setdefault("violation_classes", {})
    for t in traces:
        v = verdicts[t["tid"]]
        for e in t["evs"]:
            chk.case(("conn", t["cfg"][0], e["op"], e["how"], bool(e["note"]), len(e["up"]), e["refused"], min(len(e["st"]["tasks"]), 4),
                      tuple(sorted((c["on"], c["conn"]) for c in e["st"]["cl"].values()))), nontrivial=True)
            for m in ("TimersBelongToActors", "SentInOrder", "BuffersFollowTable", "NotesMatchTable"):
                chk.monitor(m)
            chk.monitor("DisconnectIsFinal", 1 if e["op"] == "disconnect" or (e["op"] == "tick" and e["note"]) else 0)
            chk.monitor("KeptAlive", sum(1 for p, r in e["st"]["rc"].items() if r and not e["st"]["cl"][p]["on"]))
            chk.monitor("ClosedForAReason", sum(1 for n in e["note"] if n[0] == "del"))
            chk.monitor("ReceivedGoesUp", len(e["up"]))
            chk.monitor("ReceivedConserved", 1 if e["op"] == "receive" else 0)
        harness_flags = [i + 1 for i, e in enumerate(t["evs"]) if e.get("foreign") or (e.get("exc") and e["op"] != "send")]
        if v["viol"]:
            for m, l in sorted(v["viol"], key=lambda x: (x[1], x[0])):
                sig = conn_classify(t, m, l)
                gk = (m, sig["case"], sig["role"], sig.get("op"))
                ck = "%s/%s/%s" % gk[:3]
                classes[ck] = classes.get(ck, 0) + 1
                if gk in seen:
                    continue
                seen.add(gk)
                lo = max(0, l - 6)
                short = lambda e: {"op": e["op"], "p": e["p"], "r": e["r"], "how": e["how"], "data": e["data"], "told": e["note"], "handed_up": e["up"],
                                   "raised": e.get("exc", ""), "now": e["st"]["now"], "table": {p: ("connected" if c["conn"] else "connecting") for p, c in
                                                                                                 e["st"]["cl"].items() if c["on"]},
                                   "reconnect": {p: r for p, r in e["st"]["rc"].items() if r}, "tasks": [[x["k"], x["p"], x["due"]] for x in e["st"]["tasks"]]}
                chk.violation(m, sig, {"step": l, "role": t["cfg"][0], "connect_timeout": t["cfg"][1], "idle_timeout": t["cfg"][2],
                                       "steps": [short(e) for e in t["evs"][lo:l]], "first_step_rejected_by_design": v["rej"],
                                       "failing_here_or_earlier": sorted(set(x[0] for x in v["viol"]))}, dict(t["replay"], step=l))
        elif v["rej"] or harness_flags:
            l = v["rej"] or harness_flags[0]
            ev = t["evs"][l - 1]
            chk.deviation({"tid": t["tid"], "step": l, "role": t["cfg"][0], "event": {k: ev[k] for k in ("op", "p", "r", "how", "data", "note", "refused", "exc")},
                           "state_after": ev["st"], "state_before": t["evs"][l - 2]["st"] if l > 1 else "initial", "replay": t["replay"]})
        else:
            chk.traces_validated += 1


def check_connections(chk, rng, thorough, seen):
    """D, R, T for StreamConn.tla"""
    # D
    if thorough:
        run_mc(chk, "MC_StreamConn", "client", cfg_conn(maxops=4), timeout=1500)
        run_mc(chk, "MC_StreamConn", "server", cfg_conn(configs="c_Server", delays=(0,), maxtime=5, maxops=5))
    else:
        run_mc(chk, "MC_StreamConn", "client", cfg_conn(maxops=3, maxtime=5))
        run_mc(chk, "MC_StreamConn", "server", cfg_conn(configs="c_Server", delays=(0,), maxtime=4, maxops=4))
    one = dict(peers=("p1",), maxops=4, maxtime=6)
    for dev, expect, kw in (
            ("DisconnectKeepsPendingReconnect", "DisconnectIsFinal", dict(configs="c_ClientNoIdle", invs=["DisconnectIsFinal"], props=[], **one)),
            ("ImmediateConnectKeepsTimeout", "TimersBelongToActors", dict(delays=(0,), **one)),
            ("ImmediateConnectKeepsTimeout", "ClosedForAReason", dict(delays=(0,), invs=[], props=["ClosedForAReason"], **one))):
        run_mc(chk, "MC_StreamConn", "dev_%s_%s" % (dev, expect), cfg_conn(flags=dict(CONN_INTENDED, **{dev: True}), **kw), expect_error=expect)
    flags = conn_probe_flags()
    chk.extra.setdefault("code_flags_observed", {}).update(flags)
    # R
    ck, sk = ("client", 2, 3), ("server", 0, 2)
    if thorough:
        walks = conn_replay_graph(chk, "RC_client", ck, "c_Client", delays=(0, 2), maxtime=5, maxops=2)
        walks += conn_replay_graph(chk, "RC_client_deep", ck, "c_Client", peers=("p1",), delays=(0, 2), maxtime=4, maxops=3)
    else:
        walks = conn_replay_graph(chk, "RC_client", ck, "c_Client", peers=("p1",), delays=(0, 2), maxtime=5, maxops=2)
    rtr = [conn_exec(2000000 + i, ck, ops) for i, ops in enumerate(walks)]
    if thorough:
        walks = conn_replay_graph(chk, "RC_server", sk, "c_Server", delays=(0,), maxtime=4, maxops=3)
    else:
        walks = conn_replay_graph(chk, "RC_server", sk, "c_Server", peers=("p1",), delays=(0,), maxtime=3, maxops=3)
    rtr += [conn_exec(3000000 + i, sk, ops) for i, ops in enumerate(walks)]
    chk.extra["conn_replay_steps_executed_on_impl"] = sum(len(t["evs"]) for t in rtr)
    chk.extra["conn_replay_walks_left_early"] = sum(1 for t in rtr if t["left_at"] is not None)
    conn_judge(chk, rtr, flags, "R", seen)
    # T
    ntr, nops = (600, 120) if thorough else (90, 80)
    ttr = []
    for i in range(ntr):
        cfgkey = [("client", 3, 5), ("client", 0, 0), ("client", 4, 0), ("client", 0, 3), ("server", 0, 4), ("server", 0, 0)][i % 6]
        trng = random.Random(rng.randrange(2 ** 30))
        evs, ops = conn_random_history(trng, cfgkey, nops)
        ttr.append({"tid": 4000001 + i, "cfg": cfgkey, "evs": evs, "replay": {"kind": "conn", "cfg": list(cfgkey), "ops": [list(o) for o in ops]}})
    chk.extra["conn_random_steps_executed_on_impl"] = sum(len(t["evs"]) for t in ttr)
    conn_judge(chk, ttr, flags, "T", seen, selftest=True)
    t = ttr[0]
    chk.sample({"connections": {"role": t["cfg"][0], "connect_timeout": t["cfg"][1], "idle_timeout": t["cfg"][2]},
                "first_steps": [{"op": e["op"], "p": e["p"], "r": e["r"], "how": e["how"], "told": e["note"], "now": e["st"]["now"],
                                 "tasks": [[x["k"], x["p"], x["due"]] for x in e["st"]["tasks"]]} for e in t["evs"][:6] if "hang" not in e]})


def hostile_probe(chk, seen):
    """a header with a length field below the header length, through the library's own _StreamToPacket: must return"""
    rig = Rig("lib")
    data = [TYPE, 0, 0, 0, TYPE, 1, 0, 4]
    try:
        ev = rig.chunk("up", "p1", "", data, 0)
        chk.case(("hostile", "returned", len(ev["em"])), nontrivial=True)
        chk.extra["hostile_probe"] = {"chunk": data, "handed_on": [x["data"] for x in ev["em"]], "raised": ev["exc"]}
    except Hang as h:
        HANGS[0] += 1
        chk.violation("Terminates", {"fn": "_Packetize", "input": "bytes", "case": "length_field_below_header_length", "via": "_StreamToPacket"},
                      {"what": str(h), "chunk": data, "call": "bsllservice._StreamToPacket().confirmation(PDU(chunk, source=peer))"},
                      {"kind": "chunks", "scen": {"fr": "lib", "pkts": {d: {p: [] for p in PEERS} for d in DIRS}},
                       "ops": [["up", "p1", "", data, 0]]})


def extra_findings(chk):
    """development aid: VERIF_X05_ASSUME_KNOWN=<json file with {"findings": [...]}> adds entries to the known findings of
    this run only (known_findings.json stays as it is), to see what else a tree does once the reported defects are set aside"""
    p = os.environ.get("VERIF_X05_ASSUME_KNOWN")
    if p:
        chk.findings = list(chk.findings) + json.load(open(p)).get("findings", [])
        chk.extra["assumed_known_findings_file"] = p


# -----------------------------------------------------------------------------------------------------------------------------------
def main(tier, seed):
    chk = Check("X05", tier, seed)
    extra_findings(chk)
    thorough = tier == "thorough"
    WORKER_CAP[0] = 8 if thorough else 4
    rng = random.Random(seed)
    chk.rule = ("model: every chunking / interleaving of the scenarios of MC_Stream.tla, every buffer of MC_StreamFrame.tla; "
                "implementation: one evaluation = one chunk handed to a real StreamToPacket (or one call of a framing function); "
                "distinct = (framing, direction, one/both addresses, consumer raises at k, raised, chunk size class, what the "
                "buffer held before [nothing / part of a header / more], packets handed on [capped at 4], remainder empty or "
                "not) combinations, resp. (buffer class, result, length) for the framing function, resp. (role, step, how the "
                "connection attempt went, notifications, packets handed up, refusal, scheduler entries [capped], table shape) for "
                "the directors")
    chk.assumptions = [
        "the packet functions given to StreamToPacket for the framings tl / lp / bsll are the driver's renderings of "
        "StreamFrame.tla (checked against it on every run); the library's own _Packetize is judged separately and, when it "
        "works on bytes, run inside bsllservice._StreamToPacket (upstream only: that class passes downstream PDUs through)",
        "streams are concatenations of well-formed packets; peers are addressed as the TCP directors do (upstream: source = "
        "peer, downstream: destination = peer; addresses are (host, port) tuples); chunks that carry the local address as "
        "their second address, and a consumer that raises, are separate scenario classes",
        "the consumer's view (packets handed on, with addresses) is recorded by the client / server bound above / below; the "
        "buffers are projected from StreamToPacket.upstreamBuffer / .downstreamBuffer (a missing key = empty)",
        "the conformance side of the trace validation uses the deviation flags observed on the tree by probe calls "
        "(recorded as code_flags_observed); the monitors do not depend on the flags",
        "TLC exhaustive for the stated small scenarios only; longer streams and bigger packets by trace validation of random runs",
        "connections: no real sockets -- the socket layer is a stub in the driver (connect_ex answers EINPROGRESS or 0, SO_ERROR is "
        "0, send takes everything, recv returns what the harness queued or end-of-stream); refused / failing connections, partial "
        "writes, flush() and the pickle actors are not modelled; time is whole seconds on the virtual clock; the scheduler's "
        "entries are identified through the closure of task.FunctionTask (connect_timeout / idle_timeout of an actor, a method "
        "of the director with the peer as argument)"]
    phases = chk.extra.setdefault("phase_wall_s", {})

    def phase(name, t0=[time.time()]):
        phases[name] = round(time.time() - t0[0], 1)
        t0[0] = time.time()

    # D: the design satisfies the property
    run_mc(chk, "MC_StreamFrame", "frames", cfg_frame(7 if thorough else 6))
    run_mc(chk, "MC_StreamFrame", "dev_ShortLengthStalls", cfg_frame(4, stalls=True, framings=("bsll",)), expect_error="FrameProgress")
    if thorough:
        run_mc(chk, "MC_Stream", "one", cfg_stream("c_One", 3, 3, ("tl", "lp", "bsll")))
        run_mc(chk, "MC_Stream", "mix", cfg_stream("c_Mix", frs=("tl", "bsll")))
        run_mc(chk, "MC_Stream", "fault", cfg_stream("c_One", 3, 2, ("tl", "bsll"), minchunk=0, fails=(0, 1, 2, 3)))
        run_mc(chk, "MC_Stream", "addr", cfg_stream("c_Pair", frs=("tl", "bsll"), others="c_WithLocal"))
    else:
        run_mc(chk, "MC_Stream", "one", cfg_stream("c_One", 3, 3, ("tl",)))
        run_mc(chk, "MC_Stream", "mix", cfg_stream("c_Mix"))
        run_mc(chk, "MC_Stream", "fault", cfg_stream("c_One", 3, 1, ("tl",), minchunk=0, fails=(0, 1, 2)))
        run_mc(chk, "MC_Stream", "addr", cfg_stream("c_Pair", others="c_WithLocal"))
    for dev, expect, kw in (
            ("BothKeys", "OutputIsPrefixOfPackets", dict(scen="c_Pair", others="c_WithLocal", invs=["OutputIsPrefixOfPackets"], props=False)),
            ("BothKeys", "BufferIsRemainder", dict(scen="c_Pair", others="c_WithLocal")),
            ("LoseChunkOnRaise", "BufferIsRemainder", dict(scen="c_One", maxpk=2, maxbody=1, minchunk=0, fails=(0, 1))),
            ("LoseChunkOnRaise", "OutputIsPrefixOfPackets", dict(scen="c_One", maxpk=2, maxbody=1, minchunk=0, fails=(0, 1),
                                                                 invs=["OutputIsPrefixOfPackets"], props=False))):
        run_mc(chk, "MC_Stream", "dev_%s_%s" % (dev, expect), cfg_stream(flags=dict(INTENDED, **{dev: True}), **kw), expect_error=expect)
    phase("D_model_checking")

    # the framing functions
    seen = set()
    usable = check_frames(chk, rng, thorough, seen)
    if usable:
        hostile_probe(chk, seen)
    phase("F_framing_functions")

    # R: TLC's graphs executed on the real StreamToPacket
    none = dict(invs=[], props=False)
    if thorough:
        walks = replay_graph(chk, "R_one", cfg_stream("c_One", 3, 3, ("tl", "bsll"), **none), paths_upto=11)
        walks += replay_graph(chk, "R_one_down", cfg_stream("c_OneDown", 2, 2, ("tl", "lp"), **none), paths_upto=8)
        walks += replay_graph(chk, "R_mix", cfg_stream("c_MixS", frs=("tl", "bsll"), **none), paths_upto=8)
        walks += replay_graph(chk, "R_fault", cfg_stream("c_One", 3, 1, ("tl",), minchunk=0, fails=(0, 1, 2), **none), cyclic=True)
        walks += replay_graph(chk, "R_addr", cfg_stream("c_PairS", frs=("tl", "bsll"), others="c_WithLocal", **none), paths_upto=8)
    else:
        walks = replay_graph(chk, "R_one", cfg_stream("c_One", 3, 2, ("tl",), **none), paths_upto=9)
        walks += replay_graph(chk, "R_one_down", cfg_stream("c_OneDown", 2, 1, ("tl",), **none), paths_upto=8)
        walks += replay_graph(chk, "R_mix", cfg_stream("c_MixS", **none), paths_upto=7)
        walks += replay_graph(chk, "R_fault", cfg_stream("c_One", 2, 1, ("tl",), minchunk=0, fails=(0, 1, 2), **none), cyclic=True)
        walks += replay_graph(chk, "R_addr", cfg_stream("c_PairS", others="c_WithLocal", **none), paths_upto=5)
    phase("R_graphs")
    flags = probe_flags()
    chk.extra.setdefault("code_flags_observed", {}).update(flags)
    rtraces = []
    for sc, ops in walks:
        if HANGS[0] >= 3:
            break
        rtraces.append(exec_walk(1000000 + len(rtraces), sc, ops))
    for t in rtraces:
        note_cases(chk, t)
    chk.extra["replay_steps_executed_on_impl"] = sum(len(t["evs"]) for t in rtraces)
    phase("R_execution")
    judge(chk, rtraces, "R", seen, flags)
    phase("R_trace_validation")

    # T: seeded random scenarios
    ntr = 1500 if thorough else 280
    framings = ["lp", "lp", "bsll", "bsll", "tl"] + (["lib", "lib"] if usable else [])
    ttraces = []
    for i in range(ntr):
        if HANGS[0] >= 3:
            break
        trng = random.Random(rng.randrange(2 ** 30))
        sc, streams = random_scenario(trng, framings, trng.choice([300, 1500, 4000]))
        mode = trng.choice(["plain"] * 8 + ["both", "raise"])
        if sc["fr"] == "lib" and mode == "both":
            mode = "plain"
        ops = random_ops(trng, sc, streams, mode)
        ttraces.append(exec_walk(i + 1, sc, ops, note=mode))
    for t in ttraces:
        note_cases(chk, t)
    chk.extra["random_chunks_executed_on_impl"] = sum(len(t["evs"]) for t in ttraces)
    chk.extra["random_octets_through_impl"] = sum(len(e["data"]) for t in ttraces for e in t["evs"])
    chk.extra["random_runs_by_mode"] = dict(collections.Counter("%s/%s" % (t["impl_fr"], t["note"]) for t in ttraces))
    for t in ttraces[:3]:
        chk.sample({"framing": t["impl_fr"], "mode": t["note"],
                    "packets": {"%s/%s" % (d, p): [len(x) for x in t["scen"]["pkts"][d][p]][:10] for d in DIRS for p in PEERS
                                if t["scen"]["pkts"][d][p]},
                    "first_chunks": [{"d": e["d"], "s": e["s"], "t": e["t"], "octets": len(e["data"]), "fail": e["fail"],
                                      "handed_on": [len(x["data"]) for x in e["em"]], "raised": e["raised"],
                                      "buffers_after": {"%s/%s" % (x["d"], x["a"]): len(x["b"]) for x in e["bufd"]}}
                                     for e in t["evs"][:5] if "hang" not in e]})
    phase("T_execution")
    judge(chk, ttraces, "T", seen, flags, selftest=True)
    phase("T_trace_validation")

    # C: connection bookkeeping of the directors
    check_connections(chk, rng, thorough, seen)
    phase("C_connections")
    return chk.finish()


def replay(path):
    body = json.load(open(path))
    rp = body["replay"]
    chk = Check("X05", "quick", body.get("seed", 0))
    extra_findings(chk)
    if rp["kind"] == "frame":
        b = bytes(rp["b"])
        print("_Packetize ->", call_frame(bsllservice._Packetize, b.decode("latin-1") if rp["text"] else b))
        recs = []
        ok, pkt, rest, exc = call_frame(bsllservice._Packetize, b.decode("latin-1") if rp["text"] else b)
        recs.append({"id": 1, "f": "bsll", "b": list(b), "ok": ok, "pkt": pkt, "rest": rest, "exc": exc})
        v = validate_frames(chk, recs, probe_stalls(rp["text"]), "replay").get(1)
        chk.case(("frame",))
        chk.traces_validated += 0 if v else 1
        for m in sorted(v["viol"]) if v else []:
            chk.violation(m, {"fn": "_Packetize", "input": "latin-1 text" if rp["text"] else "bytes",
                              "case": ("raises_" + exc) if exc else frame_case(b)[1], "garbage_in_front": frame_case(b)[0]}, {"buffer": list(b), "returned": [ok, pkt, rest, exc]}, rp)
        return chk.finish()
    if rp["kind"] == "conn":
        cfgkey = tuple(rp["cfg"])
        ops = [tuple(o) for o in rp["ops"]]
        if rp.get("step"):
            ops = ops[:rp["step"]]
        t = conn_exec(1, cfgkey, ops)
        for e in t["evs"][-6:]:
            print(json.dumps({k: e[k] for k in ("op", "p", "r", "how", "data", "note", "up", "refused", "exc", "st") if k in e})[:1500])
        conn_judge(chk, [t], conn_probe_flags(), "replay", set())
        return chk.finish()
    ops = [tuple(o) for o in rp["ops"]]
    if rp.get("step"):
        ops = ops[:rp["step"]]
    t = exec_walk(1, rp["scen"], ops)
    for e in t["evs"][-4:]:
        print(json.dumps({k: e[k] for k in ("d", "s", "t", "data", "fail", "raised", "exc", "em", "bufd") if k in e})[:1500])
    note_cases(chk, t)
    judge(chk, [t], "replay", set(), probe_flags())
    return chk.finish()
