"""C08 -- Network-layer headers and messages encode and decode faithfully.   (spec/NPCI.tla)

D  TLC evaluates the clause 6.2 / 6.4 codec of NPCI.tla on the case grids of MC_NPCI.tla (all 256 control octets x
   address shapes, DADR x SADR x hop x message kind, all 256 message types x vendor ids, the 12 messages with
   lists 0..20 / tables 0..5 x port-info 0/1/255, forbidden + truncated headers, every prefix of small messages,
   all short octet strings) and checks Dec(Enc(r)) = r, header length, refusal of forbidden / truncated headers,
   totality and exactness (Enc(Dec(o)) = o) of the decoder.
R  spec -> code: the same run writes (case, expected octets, expected reading) as ndjson; every case is built with
   the real NPDU / message classes (message.encode(npdu), npdu.encode(pdu)), the octets compared with Enc, the
   expected octets decoded with NPDU.decode + npdu_types[...]().decode and every field compared with Dec.
T  code -> spec: seeded random headers / messages are encoded and decoded by the real code, valid frames are
   mutated (substitution, bit flip, truncation, insertion, deletion, length-field edits) and random octet strings
   are decoded; every call is recorded as ndjson and a TLC run (Trace_NPCI.tla) validates each record against
   Enc / Dec and names the monitor that fails.
Monitors: OctetsEqualSpec, FieldsEqualSpec, OnlyDecodingError, ForbiddenRefused (+ Terminates for hangs).
The Python below only renders abstract records into API calls and projects decoded objects back into records.
"""
import os, sys, json, random, shutil, threading, time
from common import Check, VERIF, WORK, Hang, watchdog
import tlc

from bacpypes.pdu import PDU, Address, RemoteStation, RemoteBroadcast, GlobalBroadcast
from bacpypes.errors import DecodingError
import bacpypes.npdu as N

NONE = -1
ERR_DEC = {"err": "DecodingError"}
UNSPEC = {"err": "Unspecified"}
NOHDR = {"err": "NoHeader"}
NOADDR = {"k": "none", "net": NONE, "mac": []}
KNOWN_MT = (0, 1, 2, 3, 4, 5, 6, 7, 8, 9, 18, 19)
MT_NAME = {0: "WhoIsRouterToNetwork", 1: "IAmRouterToNetwork", 2: "ICouldBeRouterToNetwork", 3: "RejectMessageToNetwork",
           4: "RouterBusyToNetwork", 5: "RouterAvailableToNetwork", 6: "InitializeRoutingTable",
           7: "InitializeRoutingTableAck", 8: "EstablishConnectionToNetwork", 9: "DisconnectConnectionToNetwork",
           18: "WhatIsNetworkNumber", 19: "NetworkNumberIs"}


# ---- renderer: abstract record -> real objects (trusted base, kept dumb) -----------------------------------
def mk_addr(a):
    k = a["k"]
    if k == "none":
        return None
    if k == "global":
        return GlobalBroadcast()
    if k == "bcast":
        return RemoteBroadcast(a["net"])
    return RemoteStation(a["net"], bytes(a["mac"]))


def set_header(x, r):
    x.pduExpectingReply = 1 if r["der"] else 0
    x.pduNetworkPriority = r["prio"]
    x.npduDADR = mk_addr(r["dadr"])
    x.npduSADR = mk_addr(r["sadr"])
    x.npduHopCount = None if r["hop"] == NONE else r["hop"]
    x.npduVendorID = None if r["vendor"] == NONE else r["vendor"]


def mk_message(b):
    """typed body record -> instance of the registered message class"""
    mt = b["mt"]
    cls = N.npdu_types[mt]
    if mt == 0:
        return cls(None if b["net"] == NONE else b["net"])
    if mt in (1, 4, 5):
        return cls(list(b["nets"]))
    if mt == 2:
        return cls(b["net"], b["perf"])
    if mt == 3:
        return cls(b["reason"], b["net"])
    if mt in (6, 7):
        return cls([N.RoutingTableEntry(e["net"], e["port"], bytes(e["info"])) for e in b["table"]])
    if mt == 8:
        return cls(b["net"], b["time"])
    if mt == 9:
        return cls(b["net"])
    if mt == 18:
        return cls()
    if mt == 19:
        return cls(b["net"], b["flag"])
    raise ValueError(mt)


def encode_case(r):
    """r: header record with `data` (plain NPDU) or with `body` (typed: message class; raw: plain NPDU)"""
    with watchdog(10):
        if "body" in r and "raw" not in r["body"]:
            msg = mk_message(r["body"])
            set_header(msg, r)
            npdu = N.NPDU()
            msg.encode(npdu)
        else:
            data = r["data"] if "data" in r else r["body"]["raw"]
            npdu = N.NPDU(bytes(data))
            set_header(npdu, r)
            npdu.npduNetMessage = None if r["mtype"] == NONE else r["mtype"]
        pdu = PDU()
        npdu.encode(pdu)
        return list(pdu.pduData)


# ---- projection: decoded objects -> abstract record ---------------------------------------------------------
def num(x):
    if x is None:
        return NONE
    if isinstance(x, bool):
        return int(x)
    if isinstance(x, int):
        return x if -2 ** 31 < x < 2 ** 31 else -3
    return -2


def octs(x):
    try:
        return [int(v) & 0xFF for v in bytes(x)]
    except Exception:
        return [-2]


def proj_addr(a):
    if a is None:
        return dict(NOADDR)
    t = a.addrType
    if t == Address.globalBroadcastAddr:
        return {"k": "global", "net": 65535, "mac": []}
    if t == Address.remoteBroadcastAddr:
        return {"k": "bcast", "net": num(a.addrNet), "mac": []}
    if t == Address.remoteStationAddr:
        k = "station" if a.addrLen == len(a.addrAddr) else "station-addrLen-mismatch"
        return {"k": k, "net": num(a.addrNet), "mac": octs(a.addrAddr)}
    return {"k": "type-%r" % (t,), "net": num(a.addrNet), "mac": octs(a.addrAddr or b"")}


def proj_header(x, data, ctl_in):
    ctl = x.npduControl
    # npduControl is the control octet as received; its reserved bits are reported in `rsv`
    rsv = (ctl & 0x50) if (isinstance(ctl, int) and ctl == ctl_in) else -2
    return {"rsv": rsv, "der": bool(x.pduExpectingReply), "prio": num(x.pduNetworkPriority),
            "dadr": proj_addr(x.npduDADR), "sadr": proj_addr(x.npduSADR), "hop": num(x.npduHopCount),
            "mtype": num(x.npduNetMessage), "vendor": num(x.npduVendorID), "data": data}


def proj_body(m):
    mt = m.messageType
    if mt == 0:
        return {"mt": mt, "net": num(m.wirtnNetwork)}
    if mt == 1:
        return {"mt": mt, "nets": [num(n) for n in m.iartnNetworkList]}
    if mt == 2:
        return {"mt": mt, "net": num(m.icbrtnNetwork), "perf": num(m.icbrtnPerformanceIndex)}
    if mt == 3:
        return {"mt": mt, "reason": num(m.rmtnRejectionReason), "net": num(m.rmtnDNET)}
    if mt == 4:
        return {"mt": mt, "nets": [num(n) for n in m.rbtnNetworkList]}
    if mt == 5:
        return {"mt": mt, "nets": [num(n) for n in m.ratnNetworkList]}
    if mt in (6, 7):
        t = m.irtTable if mt == 6 else m.irtaTable
        return {"mt": mt, "table": [{"net": num(e.rtDNET), "port": num(e.rtPortID), "info": octs(e.rtPortInfo)} for e in t]}
    if mt == 8:
        return {"mt": mt, "net": num(m.ectnDNET), "time": num(m.ectnTerminationTime)}
    if mt == 9:
        return {"mt": mt, "net": num(m.dctnDNET)}
    if mt == 18:
        return {"mt": mt}
    if mt == 19:
        return {"mt": mt, "net": num(m.nniNet), "flag": num(m.nniFlag)}
    return {"mt": num(mt), "unknown_class": type(m).__name__}


def other(e):
    return {"err": "Other", "type": type(e).__name__, "msg": str(e)[:120]}


def decode_octets(o):
    """the receive path of the network layer: NPDU.decode(PDU), then the class registered for the message type.
    Returns (header record | err, body record | err)."""
    with watchdog(10):
        try:
            pdu = PDU(bytes(o))
            npdu = N.NPDU()
            npdu.decode(pdu)
        except DecodingError:
            return dict(ERR_DEC), dict(NOHDR)
        except Exception as e:
            return other(e), dict(NOHDR)
        try:
            data = octs(npdu.pduData)
            ctl_in = o[1] if len(o) > 1 else None
            h = proj_header(npdu, data, ctl_in)
            mt = npdu.npduNetMessage
            if mt is None or mt not in N.npdu_types:
                return h, {"mt": num(mt), "raw": data}
        except Exception as e:
            return other(e), dict(NOHDR)
        try:
            m = N.npdu_types[mt]()
            m.decode(npdu)
            b = proj_body(m)
            h = proj_header(m, data, ctl_in)        # the header as the message object carries it
        except DecodingError:
            b = dict(ERR_DEC)
        except Exception as e:
            b = other(e)
        return h, b


# ---- verdicts -----------------------------------------------------------------------------------------------
def judge(got, exp):
    """same decision table as Judge in Trace_NPCI.tla"""
    if got.get("err") == "Other":
        return "OnlyDecodingError"
    if exp == UNSPEC:
        return None
    if exp == ERR_DEC:
        return None if got == ERR_DEC else "ForbiddenRefused"
    return None if got == exp else "FieldsEqualSpec"


def first_diff(got, exp):
    if not isinstance(got, dict) or not isinstance(exp, dict):
        return "?"
    if "err" in got or "err" in exp:
        return "refused" if "err" in got else "accepted"
    for k in sorted(set(got) | set(exp)):
        if got.get(k) != exp.get(k):
            return k
    return "?"


def shape(h):
    """coarse class of a header record (for signatures)"""
    if not isinstance(h, dict) or "err" in h:
        return "n/a"
    return "D:%s/S:%s/%s" % (h["dadr"]["k"], h["sadr"]["k"], "apdu" if h["mtype"] == NONE else
                             ("vendor" if h["mtype"] >= 128 else "msg"))


class Run:
    def __init__(self, chk):
        self.chk = chk
        self.seen = {}
        self.hangs = 0

    def report(self, monitor, sig, detail, replay):
        key = json.dumps([monitor, sig], sort_keys=True)
        self.seen[key] = self.seen.get(key, 0) + 1
        if self.seen[key] == 1:
            self.chk.violation(monitor, sig, detail, replay)

    def hang(self, what, replay):
        self.hangs += 1
        self.chk.violation("Terminates", {"dir": what}, {"what": "no return within 10 s"}, replay)

    # -- one decode evaluation on the real code, compared with the spec's reading --
    def check_decode(self, tag, o, exp_h, exp_b, origin):
        chk = self.chk
        if self.hangs >= 3:
            return
        try:
            got_h, got_b = decode_octets(o)
        except Hang:
            return self.hang("decode", {"kind": "dec", "o": o})
        refused = exp_h == ERR_DEC or (exp_h != UNSPEC and "err" not in exp_h and exp_b == ERR_DEC)
        chk.case(("dec", tag, tuple(o[:24]), len(o)), nontrivial=True)
        chk.monitor("OnlyDecodingError")
        chk.monitor("ForbiddenRefused" if refused else "FieldsEqualSpec", 0 if (exp_h == UNSPEC) else 1)
        if exp_h == UNSPEC or (isinstance(exp_b, dict) and exp_b == UNSPEC):
            # not decided by the standard: note what the implementation does (no verdict beyond OnlyDecodingError)
            g = got_h if exp_h == UNSPEC else got_b
            what = "refused" if g == ERR_DEC else ("raised " + g.get("type", "?") if "err" in g else "accepted")
            u = chk.extra.setdefault("unspecified_inputs", {})
            k = "%s: %s" % ("DNET=FFFF with DLEN>0" if exp_h == UNSPEC else "octets after a complete %s body" % MT_NAME.get(exp_h.get("mtype")), what)
            u[k] = u.get(k, 0) + 1
        jh = judge(got_h, exp_h)
        part, mon, got, exp = "header", jh, got_h, exp_h
        if jh is None and "err" not in exp_h and "err" not in got_h:
            jb = judge(got_b, exp_b)
            part, mon, got, exp = "body", jb, got_b, exp_b
        if mon:
            mt = exp_h.get("mtype") if "err" not in exp_h else None
            sig = {"dir": "decode", "part": part, "case": tag, "field": first_diff(got, exp),
                   "shape": shape(exp_h), "mt": MT_NAME.get(mt, mt) if part == "body" else None}
            self.report(mon, sig, {"octets": bytes(o[:80]).hex(), "len": len(o), "expected": clip(exp), "got": clip(got),
                                   "origin": origin}, {"kind": "dec", "o": o})

    # -- one encode evaluation --
    def check_encode(self, tag, r, exp_o, origin):
        chk = self.chk
        if self.hangs >= 3:
            return None
        chk.monitor("OctetsEqualSpec")
        try:
            got = encode_case(r)
        except Hang:
            return self.hang("encode", {"kind": "enc", "r": r})
        except Exception as e:
            got = other(e)
        chk.case(("enc", tag, json.dumps(clip(r), sort_keys=True)), nontrivial=True)
        if exp_o is not None and got != exp_o:
            self.report("OctetsEqualSpec", enc_sig(tag, r, got, exp_o),
                        {"record": clip(r), "expected": bytes(exp_o[:80]).hex(), "expected_len": len(exp_o),
                         "got": bytes(got[:80]).hex() if isinstance(got, list) else got, "origin": origin},
                        {"kind": "enc", "r": r})
        return got


def enc_sig(tag, r, got, exp):
    mt = r.get("mtype")
    sig = {"dir": "encode", "case": tag, "shape": shape(r if "data" in r else dict(r, data=[])),
           "mt": MT_NAME.get(mt, mt) if "body" in r and "raw" not in r["body"] else None}
    if isinstance(got, dict):
        sig["field"] = "raised:" + got.get("type", "?")
    else:
        n = next((i for i, (a, b) in enumerate(zip(got, exp)) if a != b), min(len(got), len(exp)))
        sig["field"] = "octet>=2" if n >= 2 else "octet%d" % n
    return sig


def clip(x, n=40):
    if isinstance(x, dict):
        return {k: clip(v, n) for k, v in x.items()}
    if isinstance(x, (list, tuple)):
        if len(x) > n:
            return [clip(v, n) for v in x[:n]] + ["... %d items" % len(x)]
        return [clip(v, n) for v in x]
    return x


# ---- D + R: the TLC grids ------------------------------------------------------------------------------------
INVS = ["ControlSweep", "CasesWellFormed", "RoundTripHeader", "RoundTripNPDU", "HeaderLength", "ForbiddenRefused",
        "DecTotalAndExact", "VersionRefused"]
ALPHABET = [0x00, 0x01, 0x02, 0x03, 0x04, 0x08, 0x0C, 0x13, 0x20, 0x24, 0x28, 0x2B, 0x40, 0x7F, 0x80, 0x88, 0xA0, 0xA8,
            0xAC, 0xFE, 0xFF]


def tla_set(xs):
    return "{" + ", ".join(json.dumps(x) if isinstance(x, str) else str(x) for x in xs) + "}"


def grid_cfg(grids, tier, strlen=None, alphabet=None):
    th = tier == "thorough"
    c = {"Grids": tla_set(grids),
         "MacLens": tla_set([1, 2, 6, 7, 255]),
         "Hops": tla_set([0, 1, 254, 255]),
         "Vendors": tla_set([0, 1, 255, 256, 65535]),
         "ListLens": tla_set(range(0, 21)),
         "TableLens": tla_set(range(0, 6)),
         "BadMacLens": tla_set([1, 2, 6, 7, 255] if th else [1, 6, 255]),
         "Alphabet": tla_set(alphabet if alphabet is not None else ALPHABET),
         "StrLen": str(strlen if strlen is not None else (3 if th else 2))}
    return "SPECIFICATION Spec\nCONSTANTS\n" + "".join("  %s = %s\n" % kv for kv in c.items()) + \
           "".join("INVARIANT %s\n" % i for i in INVS) + "CHECK_DEADLOCK FALSE\n"


def run_grid(chk, name, grids, tier, emit=True, timeout=1500, **kw):
    wd = tlc.workdir("c08")
    out = os.path.join(wd, "vectors.ndjson")
    try:
        res = tlc.run_tlc("MC_NPCI", cfg_text=grid_cfg(grids, tier, **kw), env={"OUT_FILE": out} if emit else None,
                          timeout=timeout, name="MC_NPCI/" + name)
        if res["error_kind"]:
            # the specification contradicts itself on one of its own cases: a defect of the model, not of the code
            tlc.machinery_failure("NPCI.tla violates %s on grid %s\n%s" % (res["error"], name, res["output"][-2500:]))
        vecs = []
        if emit:
            if not os.path.exists(out):
                tlc.machinery_failure("TLC wrote no vectors for %s\n%s" % (name, res["output"][-2000:]))
            with open(out) as f:
                vecs = [json.loads(l) for l in f if l.strip()]
            if len(vecs) != res["distinct"]:
                tlc.machinery_failure("grid %s: %d vectors for %d cases" % (name, len(vecs), res["distinct"]))
        return res, vecs
    finally:
        shutil.rmtree(wd, ignore_errors=True)


def replay_vectors(run, vecs):
    """spec -> code: every TLC case on the real classes"""
    chk = run.chk
    per = {}
    for v in vecs:
        tag = v["tag"]
        per[tag] = per.get(tag, 0) + 1
        if v.get("enc"):
            run.check_encode(tag, v["r"], v["o"], "grid")
        run.check_decode(tag, v["o"], v["h"], v["b"], "grid")
        if per[tag] in (3,) and len(chk.samples) < 5 and tag in ("ctl", "msg", "trunc", "src-bcast", "cut"):
            chk.sample({"grid_case": tag, "octets": bytes(v["o"][:48]).hex(), "expected_header": clip(v["h"], 12),
                        "expected_body": clip(v["b"], 12)})
    for t, n in per.items():
        chk.extra.setdefault("grid_cases", {})
        chk.extra["grid_cases"][t] = chk.extra["grid_cases"].get(t, 0) + n


# ---- version sweep on the real code (thorough): every string of 1..3 octets not starting with 1 -----------------
def _ver_one(s):
    try:
        N.NPDU().decode(PDU(bytes(s)))
        return "accepted"
    except DecodingError:
        return None
    except Exception as e:
        return type(e).__name__


def _ver_chunk(vs):
    """all strings <<v>>, <<v, a>>, <<v, a, b>> for the first octets in vs; returns (count, first few not refused)"""
    bad, n = [], 0
    R = range(256)
    for v in vs:
        for s in [(v,)] + [(v, a) for a in R] + [(v, a, b) for a in R for b in R]:
            n += 1
            r = _ver_one(s)
            if r and len(bad) < 20:
                bad.append((list(s), r))
    return n, bad


def version_sweep_start(versions, procs):
    """TLC establishes Dec(o) = DecodingError for every one of these strings (invariant VersionRefused on grid
    "ver"); the real decoder must refuse each of them with its decoding error.  Worker processes are forked here,
    before any thread exists; version_sweep_finish collects."""
    import multiprocessing as mp
    chunks = [versions[i::procs * 4] for i in range(procs * 4)]
    chunks = [c for c in chunks if c]
    pool = mp.get_context("fork").Pool(procs)
    return pool, pool.map_async(_ver_chunk, chunks)


def version_sweep_finish(run, handle):
    chk = run.chk
    pool, pending = handle
    try:
        results = pending.get(timeout=3600)
    finally:
        pool.terminate()
    total = 0
    for n, bad in results:
        total += n
        for o, why in bad[:3]:
            mon = "ForbiddenRefused" if why == "accepted" else "OnlyDecodingError"
            run.report(mon, {"dir": "decode", "part": "header", "case": "version-sweep", "field": why, "shape": "n/a", "mt": None},
                       {"octets": bytes(o).hex(), "expected": ERR_DEC, "got": why}, {"kind": "dec", "o": o})
    chk.case(("ver-sweep", total), nontrivial=True, n=total)
    chk.monitor("ForbiddenRefused", total)
    chk.monitor("OnlyDecodingError", total)
    chk.extra["version_sweep_strings_on_impl"] = total


# ---- T: code -> spec -----------------------------------------------------------------------------------------
BOUND_NETS = [0, 1, 2, 255, 256, 257, 32767, 32768, 65534]
MAC_LENS = [1, 1, 2, 3, 6, 6, 7, 8, 16, 18, 127, 128, 254, 255]


def r_net(rng, top=65534):
    return rng.choice(BOUND_NETS) if rng.random() < 0.4 else rng.randint(0, top)


def r_octets(rng, n):
    return [rng.randrange(256) for _ in range(n)]


def r_station(rng):
    n = rng.choice(MAC_LENS) if rng.random() < 0.8 else rng.randint(1, 255)
    return {"k": "station", "net": r_net(rng), "mac": r_octets(rng, n)}


def r_body(rng, mt):
    net16 = lambda: rng.choice(BOUND_NETS + [65535]) if rng.random() < 0.4 else rng.randint(0, 65535)
    oct8 = lambda: rng.choice([0, 1, 127, 128, 255]) if rng.random() < 0.4 else rng.randrange(256)
    if mt == 0:
        return {"mt": 0, "net": NONE if rng.random() < 0.3 else net16()}
    if mt in (1, 4, 5):
        return {"mt": mt, "nets": [net16() for _ in range(rng.choice([0, 1, 2, 3, 19, 20, 21, rng.randint(0, 40)]))]}
    if mt == 2:
        return {"mt": 2, "net": net16(), "perf": oct8()}
    if mt == 3:
        return {"mt": 3, "reason": oct8(), "net": net16()}
    if mt in (6, 7):
        return {"mt": mt, "table": [{"net": net16(), "port": oct8(),
                                     "info": r_octets(rng, rng.choice([0, 0, 1, 2, 254, 255, rng.randint(0, 255)]))}
                                    for _ in range(rng.choice([0, 1, 2, 3, 4, 5, 5, rng.randint(0, 9)]))]}
    if mt == 8:
        return {"mt": 8, "net": net16(), "time": oct8()}
    if mt == 9:
        return {"mt": 9, "net": net16()}
    if mt == 18:
        return {"mt": 18}
    return {"mt": 19, "net": net16(), "flag": rng.choice([0, 1, 1, 0, 2, 255])}


def r_record(rng):
    """a well-formed NPDU record: [rsv, der, prio, dadr, sadr, hop, mtype, vendor, body]"""
    x = rng.random()
    if x < 0.3:
        dadr = dict(NOADDR)
    elif x < 0.45:
        dadr = {"k": "global", "net": 65535, "mac": []}
    elif x < 0.6:
        dadr = {"k": "bcast", "net": r_net(rng), "mac": []}
    else:
        dadr = r_station(rng)
    sadr = dict(NOADDR) if rng.random() < 0.45 else r_station(rng)
    hop = NONE if dadr["k"] == "none" else (rng.choice([0, 1, 254, 255]) if rng.random() < 0.6 else rng.randrange(256))
    y = rng.random()
    vendor = NONE
    if y < 0.25:
        mtype = NONE
        body = {"mt": NONE, "raw": r_octets(rng, rng.choice([0, 1, 2, 5, 30, rng.randint(0, 60)]))}
    elif y < 0.75:
        mtype = rng.choice(KNOWN_MT)
        body = r_body(rng, mtype)
    else:
        mtype = rng.choice([m for m in range(256) if m not in KNOWN_MT]) if rng.random() < 0.5 else rng.choice(
            [10, 17, 20, 127, 128, 129, 254, 255])
        if mtype >= 128:
            vendor = rng.choice([0, 1, 255, 256, 65535]) if rng.random() < 0.5 else rng.randint(0, 65535)
        body = {"mt": mtype, "raw": r_octets(rng, rng.choice([0, 1, 2, 3, 10]))}
    return {"rsv": 0, "der": rng.random() < 0.5, "prio": rng.randrange(4), "dadr": dadr, "sadr": sadr, "hop": hop,
            "mtype": mtype, "vendor": vendor, "body": body}


def header_len(r):
    n = 2
    if r["dadr"]["k"] != "none":
        n += 4 + len(r["dadr"]["mac"])
    if r["sadr"]["k"] != "none":
        n += 3 + len(r["sadr"]["mac"])
    if r["mtype"] != NONE:
        n += 3 if r["mtype"] >= 128 else 1
    return n


def mutate(rng, o, hl):
    """one syntactic mutation of a valid frame; hl = header length (mutations concentrate on the header)"""
    o = list(o)
    kind = rng.choice(["trunc", "trunc-hdr", "sub", "sub-hdr", "flip-ctl", "version", "len-field", "del", "ins", "ext"])
    n = len(o)
    if kind == "trunc":
        return kind, o[:rng.randrange(n)]
    if kind == "trunc-hdr":
        return kind, o[:rng.randrange(min(hl, n))]
    if kind == "sub":
        i = rng.randrange(n)
        o[i] = rng.choice([0, 1, 0xFF, o[i] ^ (1 << rng.randrange(8)), rng.randrange(256)])
        return kind, o
    if kind == "sub-hdr":
        i = rng.randrange(min(hl, n))
        o[i] = rng.choice([0, 1, 0xFF, o[i] ^ (1 << rng.randrange(8)), rng.randrange(256)])
        return kind, o
    if kind == "flip-ctl":
        o[1] ^= 1 << rng.randrange(8)
        return kind, o
    if kind == "version":
        o[0] = rng.choice([0, 2, 3, 0x81, 0xFF, rng.randrange(256)])
        return kind, o
    if kind == "len-field":
        # DLEN sits at offset 4 when bit 5 is set; SLEN right behind the destination block (or at 4)
        cand = []
        if o[1] & 0x20 and n > 4:
            cand.append(4)
            if o[1] & 0x08 and n > 4 + 1 + o[4] + 2:
                cand.append(4 + 1 + o[4] + 2)
        elif o[1] & 0x08 and n > 4:
            cand.append(4)
        if not cand:
            o[1] ^= 0x08
            return kind, o
        i = rng.choice(cand)
        o[i] = rng.choice([0, 1, o[i] + 1 & 0xFF, o[i] - 1 & 0xFF, 0xFF])
        return kind, o
    if kind == "del":
        del o[rng.randrange(n)]
        return kind, o
    if kind == "ins":
        o.insert(rng.randrange(n + 1), rng.randrange(256))
        return kind, o
    return kind, o + r_octets(rng, rng.randint(1, 3))


def random_string(rng):
    n = rng.choice([0, 1, 2, 3, 3, 4, 5, 6, 8, 12])
    s = [rng.choice(ALPHABET) if rng.random() < 0.6 else rng.randrange(256) for _ in range(n)]
    if s and rng.random() < 0.8:
        s[0] = 1
    return s


def record_calls(run, rng, nframes):
    """run the real code on generated inputs; returns the list of call records for Trace_NPCI"""
    recs, meta = [], {}

    def add(kind, origin, **kw):
        rid = len(recs) + 1
        recs.append(dict(id=rid, kind=kind, **kw))
        meta[rid] = origin
        return rid

    def dec(origin, o):
        if run.hangs >= 3:
            return
        try:
            h, b = decode_octets(o)
        except Hang:
            return run.hang("decode", {"kind": "dec", "o": o})
        run.chk.case(("T-dec", tuple(o[:24]), len(o)), nontrivial=True)
        add("dec", origin, o=o, h=h, b=b)

    for _ in range(nframes):
        r = r_record(rng)
        got = run.check_encode("random", r, None, "random")
        if got is None:
            continue
        if isinstance(got, dict):
            run.report("OctetsEqualSpec", enc_sig("random", r, got, []),
                       {"record": clip(r), "got": got, "what": "the encoder raised on a well-formed record"},
                       {"kind": "enc", "r": r})
            continue
        add("enc", "random", r=r, o=got)
        dec("random-valid", got)
        hl = header_len(r)
        for _ in range(3):
            kind, m = mutate(rng, got, hl)
            dec("mut-" + kind, m)
        dec("random-string", random_string(rng))
    return recs, meta


def validate_calls(run, recs, meta, label):
    chk = run.chk
    if not recs:
        return
    wd = tlc.workdir("c08tr")
    tf = os.path.join(wd, "calls.ndjson")
    with open(tf, "w") as f:
        for r in recs:
            f.write(json.dumps(r) + "\n")
    cfg = "SPECIFICATION Spec\nINVARIANT Report\nCHECK_DEADLOCK FALSE\n"
    try:
        res = tlc.run_tlc("Trace_NPCI", cfg_text=cfg, env={"TRACE_FILE": tf}, timeout=1800, workers=4,
                          name="Trace_NPCI/" + label)
    finally:
        shutil.rmtree(wd, ignore_errors=True)
    if res["error_kind"] or not res["finished"]:
        tlc.machinery_failure("call validation run failed: %s\n%s" % (res["error"], res["output"][-3000:]))
    if res["distinct"] != len(recs):
        tlc.machinery_failure("call validation evaluated %d of %d records" % (res["distinct"], len(recs)))
    chk.extra["call_validation_states"] = chk.extra.get("call_validation_states", 0) + res["distinct"]
    verdicts = {v["id"]: v for v in tlc.printed_values(res["output"])}
    byid = {r["id"]: r for r in recs}
    kinds = {}
    for r in recs:
        kinds[meta[r["id"]]] = kinds.get(meta[r["id"]], 0) + 1
        if r["kind"] == "enc":
            continue        # OctetsEqualSpec antecedent already counted by check_encode
        chk.monitor("OnlyDecodingError")
        chk.monitor("ForbiddenRefused" if (r["h"] == ERR_DEC or r["b"] == ERR_DEC) else "FieldsEqualSpec")
    chk.extra.setdefault("recorded_calls", {})
    for k, n in kinds.items():
        chk.extra["recorded_calls"][k] = chk.extra["recorded_calls"].get(k, 0) + n
    for rid, v in sorted(verdicts.items()):
        r = byid[rid]
        exp = untuple(v["exp"])
        if r["kind"] == "enc":
            run.report("OctetsEqualSpec", enc_sig(meta[rid], r["r"], r["o"], exp),
                       {"record": clip(r["r"]), "expected": bytes(exp[:80]).hex(), "expected_len": len(exp),
                        "got": bytes(r["o"][:80]).hex(), "origin": meta[rid]}, {"kind": "enc", "r": r["r"]})
        else:
            got = r["h"] if v["part"] == "header" else r["b"]
            mt = r["h"].get("mtype") if isinstance(r["h"], dict) else None
            sig = {"dir": "decode", "part": v["part"], "case": meta[rid], "field": first_diff(got, exp),
                   "shape": shape(exp) if v["part"] == "header" else shape(r["h"]),
                   "mt": MT_NAME.get(mt, mt) if v["part"] == "body" else None}
            run.report(v["why"], sig, {"octets": bytes(r["o"][:80]).hex(), "len": len(r["o"]), "expected": clip(exp),
                                       "got": clip(got), "origin": meta[rid]}, {"kind": "dec", "o": r["o"]})
    chk.traces_validated += len(recs) - len(verdicts)
    return verdicts


def untuple(x):
    if isinstance(x, tuple):
        return [untuple(v) for v in x]
    if isinstance(x, dict):
        return {k: untuple(v) for k, v in x.items()}
    return x


# ---- main -----------------------------------------------------------------------------------------------------
def main(tier, seed):
    chk = Check("C08", tier, seed)
    rng = random.Random(seed)
    th = tier == "thorough"
    run = Run(chk)
    chk.rule = ("model: one TLC state per grid case of MC_NPCI.tla (or per recorded call of Trace_NPCI.tla); implementation: "
                "one evaluation = one NPDU encoded (message.encode(npdu); npdu.encode(pdu)) or one octet string decoded "
                "(NPDU.decode + registered message class) by the real code and compared with Enc / Dec of NPCI.tla; distinct = "
                "distinct (direction, case class, record | octets); every case is non-trivial (conditional fields, boundary "
                "lengths, refusals)")
    chk.assumptions = [
        "NPCI.tla is my transcription of ASHRAE 135 clauses 6.2 and 6.4 (no copy of the standard in the sandbox)",
        "reserved control bits 6 and 4 are tolerated on reception and reported (rsv); the standard only binds the sender",
        "DNET=X'FFFF' with DLEN>0 and octets trailing a complete fixed-size message body are 'Unspecified' in the spec: "
        "only 'no exception other than DecodingError' is demanded there",
        "MAC / port-info / payload contents are position-coded in the grids and random in the recorded calls",
        "security messages X'0A'..X'11' and reserved / proprietary types are opaque (header only)"]
    chk.extra["level_note"] = ("functional codec property: Enc/Dec are evaluated by TLC over boundary grids and over all "
                               "octet strings <= 3 (thorough), not proved for all inputs")

    ver_res = {}
    ver_thread = sweep = None
    if th:
        procs = max(2, min(8, int(os.environ.get("VERIF_TLC_WORKERS", "16")) // 2))
        sweep = version_sweep_start([v for v in range(256) if v != 1], procs)
        # 16.7 M strings <<v, a, b>>, v # 1: TLC checks Dec = DecodingError on each (runs beside the Python work)
        def _ver():
            ver_res["res"] = tlc.run_tlc("MC_NPCI", cfg_text=grid_cfg(["ver"], tier), timeout=2400, name="MC_NPCI/ver")
        ver_thread = threading.Thread(target=_ver)
        ver_thread.start()

    # D + R: grids
    res, vecs = run_grid(chk, "grids", ["ctl", "hdr", "mt", "msg", "bad", "cut"], tier)
    chk.tlc(res)
    replay_vectors(run, vecs)
    del vecs
    # every octet string of length <= 2 (all 65 793)
    res, vecs = run_grid(chk, "strings<=2", ["str"], tier, strlen=2, alphabet=list(range(256)))
    chk.tlc(res)
    replay_vectors(run, vecs)
    if th:
        # length 3: all 65 536 strings with version 1 here, the 16.7 M others in the "ver" grid; plus the class
        # alphabet to length 3 (which mixes versions, control octets and third octets once more)
        res, vecs = run_grid(chk, "strings=3,version1", ["v1"], tier)
        chk.tlc(res)
        replay_vectors(run, vecs)
        res, vecs = run_grid(chk, "strings<=3,alphabet", ["str"], tier, strlen=3)
        chk.tlc(res)
        replay_vectors(run, vecs)
    del vecs

    # T: recorded calls of the real code, validated by TLC
    recs, meta = record_calls(run, rng, 25000 if th else 2000)
    verdicts = validate_calls(run, recs, meta, "random")
    for r in recs:
        if r["kind"] == "dec" and meta[r["id"]].startswith("mut-") and len(chk.samples) < 6 and r["id"] not in verdicts:
            chk.sample({"recorded_call": meta[r["id"]], "octets": bytes(r["o"][:48]).hex(), "impl_header": clip(r["h"], 12),
                        "impl_body": clip(r["b"], 12), "tlc": "accepted"})
            if len(chk.samples) >= 6:
                break

    if th:
        version_sweep_finish(run, sweep)
        ver_thread.join()
        if "res" not in ver_res:
            tlc.machinery_failure("version grid did not return")
        if ver_res["res"]["error_kind"]:
            tlc.machinery_failure("NPCI.tla violates %s on grid ver\n%s" % (ver_res["res"]["error"], ver_res["res"]["output"][-2000:]))
        chk.tlc(ver_res["res"])
    chk.extra["distinct_violation_signatures"] = {k: n for k, n in run.seen.items()}
    return chk.finish()


def replay(path):
    body = json.load(open(path))
    rp = body["replay"]
    chk = Check("C08", "quick", body.get("seed", 0))
    run = Run(chk)
    if rp["kind"] == "enc":
        got = run.check_encode("replay", rp["r"], None, "replay")
        print("record :", json.dumps(clip(rp["r"])))
        print("encoded:", bytes(got).hex() if isinstance(got, list) else got)
        recs = [{"id": 1, "kind": "enc", "r": rp["r"], "o": got}] if isinstance(got, list) else []
        if not recs:
            run.report("OctetsEqualSpec", enc_sig("replay", rp["r"], got, []), {"got": got}, rp)
    else:
        h, b = decode_octets(rp["o"])
        print("octets :", bytes(rp["o"]).hex())
        print("header :", json.dumps(clip(h)))
        print("body   :", json.dumps(clip(b)))
        chk.case(("replay",))
        recs = [{"id": 1, "kind": "dec", "o": rp["o"], "h": h, "b": b}]
    v = validate_calls(run, recs, {1: "replay"}, "replay") if recs else {}
    for x in (v or {}).values():
        print("spec   :", x["why"], x["part"], json.dumps(clip(untuple(x["exp"]))))
    return chk.finish()
