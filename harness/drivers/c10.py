"""C10 -- a device answers every well-framed request and stays healthy under garbage.   (spec/Device.tla)

D  TLC on MC_Device: the receive path as a reactive machine over abstract input classes (link x network x application
   header x what the parameters lead to), every class alone and interleaved with valid requests in the same deferred
   batch; all C10 monitors hold.  With the named deviations of today's bacpypes switched on one at a time the monitors
   they break fail (F6: NeverSilentOnIntactHeader + NoLeftover, F7: NeverSilentOnIntactHeader, F9 alone: nothing,
   F9 with the repaired F8: OthersStillProcessed) -- the monitors are not vacuous.
T  the real stack (LocalDeviceObject + Application with the standard service mixins + ASAP + SMAP + NSAP + NSE +
   BIPSimple + AnnexJCodec on a capturing bottom) is fed, exactly as udp.UDPDirector.handle_read does
   (core.deferred(bottom.response, PDU(datagram)) then the library's own run_once), with: valid B/IP frames of every
   registered confirmed service and the unconfirmed ones (built with the library's encoders), ALL single-octet
   substitutions (sampled values per position in quick), ALL truncations, single-octet insertions, random octets after
   a valid BVLL header / after valid BVLL+NPCI headers / whole-datagram noise, and random interleavings of such garbage
   with valid requests in one batch.  Per record: replies, residual transactions / SSM timers / deferred calls right
   after the batch and after virtual time passed every protocol timeout, then a valid ReadProperty.  TLC
   (Trace_Device.tla) classifies every datagram with BVLL.Dec / NPCI.Dec / APCI.Dec, reads what the device sent the
   same way and evaluates the monitors of Device.tla: OneReplySameId, ReplyKindAllowed, NeverSilentOnIntactHeader,
   NoLeftover, OthersStillProcessed, StillHealthy.
"""
import os, sys, json, random, shutil, struct, collections, re, traceback, time, itertools
import multiprocessing
from concurrent.futures import ThreadPoolExecutor
import common
from common import Check, VERIF, WORK, Hang, watchdog
import tlc
import vtime

vt = vtime.install()
import bacpypes.core as core
from bacpypes.comm import bind, Server
from bacpypes.pdu import Address, PDU, LocalBroadcast, GlobalBroadcast, RemoteStation
from bacpypes.app import ApplicationIOController, DeviceInfoCache
from bacpypes.appservice import StateMachineAccessPoint, ApplicationServiceAccessPoint, SSM
from bacpypes.netservice import NetworkServiceAccessPoint, NetworkServiceElement
from bacpypes.bvllservice import BIPSimple, AnnexJCodec
from bacpypes.local.device import LocalDeviceObject
from bacpypes.service.device import WhoIsIAmServices, WhoHasIHaveServices, DeviceCommunicationControlServices
from bacpypes.service.object import ReadWritePropertyServices, ReadWritePropertyMultipleServices
from bacpypes.service.cov import ChangeOfValueServices
from bacpypes.service.file import FileServices, LocalStreamAccessFileObject, LocalRecordAccessFileObject
from bacpypes.object import (AnalogValueObject, AnalogOutputObject, BinaryValueObject, BinaryOutputObject,
                             MultiStateValueObject)
from bacpypes.primitivedata import Real, Unsigned, CharacterString, Null, Date, Time, ObjectIdentifier, Boolean, Enumerated
from bacpypes.constructeddata import Any, SequenceOf
from bacpypes.basetypes import PropertyReference, PropertyValue, DateTime, TimeStamp
from bacpypes.apdu import ReadAccessSpecification, WriteAccessSpecification
import bacpypes.apdu as apdu_mod
from bacpypes.apdu import APDU, ConfirmedRequestPDU, confirmed_request_types, unconfirmed_request_types
from bacpypes.bvllservice import BIPForeign
from bacpypes.npdu import NPDU, WhoIsRouterToNetwork, IAmRouterToNetwork, NetworkNumberIs
from bacpypes.bvll import BVLPDU, OriginalUnicastNPDU, OriginalBroadcastNPDU, ForwardedNPDU

# ---- the device under test -----------------------------------------------------------------------------------
DEV_ADDR = "10.0.0.5:47808"
BBMD = "10.0.0.200:47808"           # where the foreign-device variant of the device registers
CLIENTS = {1: "10.0.0.9:47808", 2: "10.0.0.77:47808", 3: BBMD}
CLIENT_ADDR = {k: Address(v) for k, v in CLIENTS.items()}
CFG = {"tapp": 3000, "tseg": 2000, "tapdu": 3000, "retries": 3}      # ms; what the device is configured with below
T0 = 1000.0
CANARY = ("analogValue", 9)         # read by companions and by the follow-up; not writable through the protocol
CANARY_T, CANARY_I = 2, 9
FU_INV, DCC_INV = 200, 199
HANG_BUDGET = 10


class Bottom(Server):
    """what sits under the AnnexJCodec instead of the UDP multiplexer: records every datagram the device sends"""

    def __init__(self):
        Server.__init__(self)
        self.sent = []

    def indication(self, pdu):
        self.sent.append((bytes(pdu.pduData), pdu.pduDestination))


class StreamFile(LocalStreamAccessFileObject):
    def __init__(self, **kw):
        LocalStreamAccessFileObject.__init__(self, **kw)
        self._data = bytes(range(64))

    def __len__(self):
        return len(self._data)

    def read_stream(self, start, count):
        return (start + count) >= len(self._data), self._data[start:start + count]

    def write_stream(self, start, data):
        if start < 0:
            start = len(self._data)
        self._data = self._data[:start] + bytes(data) + self._data[start + len(data):]
        return start


class RecordFile(LocalRecordAccessFileObject):
    def __init__(self, **kw):
        LocalRecordAccessFileObject.__init__(self, **kw)
        self._recs = [b"rec-%d" % i for i in range(6)]

    def __len__(self):
        return len(self._recs)

    def read_record(self, start, count):
        return (start + count) >= len(self._recs), self._recs[start:start + count]

    def write_record(self, start, count, data):
        if start < 0:
            start = len(self._recs)
        self._recs[start:start + count] = list(data)
        return start


class DeviceApplication(ApplicationIOController, WhoIsIAmServices, WhoHasIHaveServices, ReadWritePropertyServices,
                        ReadWritePropertyMultipleServices, ChangeOfValueServices, DeviceCommunicationControlServices,
                        FileServices):
    pass


class CachingDeviceApplication(DeviceApplication):
    """the same device with what applications usually add: every I-Am it hears goes into its device information cache
    (DeviceInfoCache.iam_device_info), which the state machines consult for later requests of that peer"""

    def do_IAmRequest(self, apdu):
        DeviceApplication.do_IAmRequest(self, apdu)         # the library's own checks come first (it raises on a bad I-Am)
        self.deviceInfoCache.iam_device_info(apdu)


def build_device(caching=False, foreign=False):
    """the stack the samples build (BIPSimpleApplication), on a harness-owned bottom instead of a socket"""
    addr = Address(DEV_ADDR)
    ldo = LocalDeviceObject(objectName="dut", objectIdentifier=("device", 1234), maxApduLengthAccepted=1024,
                            segmentationSupported="segmentedBoth", vendorIdentifier=999, maxSegmentsAccepted=16,
                            apduTimeout=CFG["tapdu"], apduSegmentTimeout=CFG["tseg"], numberOfApduRetries=CFG["retries"])
    app = (CachingDeviceApplication if caching else DeviceApplication)(ldo, addr, DeviceInfoCache())
    app.asap = ApplicationServiceAccessPoint()
    app.smap = StateMachineAccessPoint(ldo)
    app.smap.deviceInfoCache = app.deviceInfoCache
    app.smap.applicationTimeout = CFG["tapp"]
    app.nsap = NetworkServiceAccessPoint()
    app.nse = NetworkServiceElement()
    bind(app.nse, app.nsap)
    bind(app, app.asap, app.smap, app.nsap)
    app.bip, app.annexj, app.bottom = (BIPForeign(Address(BBMD), 3000) if foreign else BIPSimple()), AnnexJCodec(), Bottom()
    bind(app.bip, app.annexj, app.bottom)
    app.nsap.bind(app.bip, address=addr)
    sf = [0, 0, 0, 0]
    objs = [
        AnalogValueObject(objectIdentifier=("analogValue", 1), objectName="av1", presentValue=12.5, statusFlags=sf, covIncrement=1.0),
        AnalogValueObject(objectIdentifier=CANARY, objectName="canary", presentValue=72.25, statusFlags=sf, covIncrement=1.0),
        AnalogOutputObject(objectIdentifier=("analogOutput", 1), objectName="ao1", presentValue=3.0, statusFlags=sf, covIncrement=0.5),
        BinaryValueObject(objectIdentifier=("binaryValue", 1), objectName="bv1", presentValue="active", statusFlags=sf),
        BinaryOutputObject(objectIdentifier=("binaryOutput", 1), objectName="bo1", presentValue="inactive", statusFlags=sf),
        MultiStateValueObject(objectIdentifier=("multiStateValue", 1), objectName="msv1", presentValue=2, numberOfStates=3,
                              statusFlags=sf, stateText=["a", "b", "c"]),
        StreamFile(objectIdentifier=("file", 1), objectName="stream1"),
        RecordFile(objectIdentifier=("file", 2), objectName="record2"),
    ]
    for o in objs:
        app.add_object(o)
    app.canary = objs[1]
    vt.step_all(limit=1000)             # the device announces itself (I-Am) when it starts: not part of any record
    if foreign:                         # ... and registers: the BBMD acknowledges (Result, code 0)
        app.bottom.response(PDU(bytes.fromhex("810000060000"), source=Address(BBMD), destination=addr))
        vt.step_all(limit=1000)
    del app.bottom.sent[:]
    return app


# ---- valid frames, built with the library's own encoders -------------------------------------------------------
def wire(req, inv=None, sa=False, maxresp=5, maxsegs=0, link="ucast", dadr=None, sadr=None, prio=0, seg=None):
    """request object -> APDU -> NPDU -> BVLL -> octets of one B/IP datagram"""
    if isinstance(req, ConfirmedRequestPDU):
        req.apduInvokeID = inv
        req.apduSA = 1 if sa else 0
        req.apduMaxResp, req.apduMaxSegs = maxresp, maxsegs
    x = APDU()
    req.encode(x)
    if seg is not None:                 # present it as segment `seq` of a segmented request
        x.apduSeg, x.apduMor, x.apduSeq, x.apduWin = 1, 1 if seg["mor"] else 0, seg["seq"], seg.get("win", 2)
        if "data" in seg:
            x.pduData = bytearray(seg["data"])
    npdu = NPDU()
    x.encode(npdu)
    npdu.pduExpectingReply = 1 if isinstance(req, ConfirmedRequestPDU) else 0
    npdu.pduNetworkPriority = prio
    if dadr is not None:
        npdu.npduDADR, npdu.npduHopCount = dadr, 255
    if sadr is not None:
        npdu.npduSADR = sadr
    p = PDU()
    npdu.encode(p)
    return frame(bytes(p.pduData), link)


def frame(npdu_octets, link="ucast"):
    if link == "ucast":
        m = OriginalUnicastNPDU(npdu_octets)
    elif link == "bcast":
        m = OriginalBroadcastNPDU(npdu_octets)
    else:
        m = ForwardedNPDU(Address("10.0.9.9:47808"), npdu_octets)
    b = BVLPDU()
    m.encode(b)
    q = PDU()
    b.encode(q)
    return bytes(q.pduData)


def netmsg(msg):
    npdu = NPDU()
    msg.encode(npdu)
    p = PDU()
    npdu.encode(p)
    return frame(bytes(p.pduData), "bcast")


def any_of(v):
    a = Any()
    a.cast_in(v)
    return a


def valid_frames():
    """name -> (octets, is link broadcast); every registered confirmed service + the unconfirmed ones + headers variants"""
    A = apdu_mod
    ts = TimeStamp(sequenceNumber=5)
    pv = [PropertyValue(propertyIdentifier="presentValue", value=any_of(Real(1.5))),
          PropertyValue(propertyIdentifier="statusFlags", value=any_of(Unsigned(0)))]
    C = collections.OrderedDict()
    C["readProperty"] = A.ReadPropertyRequest(objectIdentifier=("analogValue", 1), propertyIdentifier="presentValue")
    C["readProperty-index"] = A.ReadPropertyRequest(objectIdentifier=("device", 1234), propertyIdentifier="objectList", propertyArrayIndex=2)
    C["writeProperty"] = A.WritePropertyRequest(objectIdentifier=("analogOutput", 1), propertyIdentifier="presentValue",
                                                propertyValue=any_of(Real(4.5)), priority=8)
    C["writeProperty-index"] = A.WritePropertyRequest(objectIdentifier=("multiStateValue", 1), propertyIdentifier="stateText",
                                                      propertyArrayIndex=2, propertyValue=any_of(CharacterString("x")))
    C["readPropertyMultiple"] = A.ReadPropertyMultipleRequest(listOfReadAccessSpecs=[
        ReadAccessSpecification(objectIdentifier=("analogValue", 1), listOfPropertyReferences=[
            PropertyReference(propertyIdentifier="presentValue"), PropertyReference(propertyIdentifier="objectName")]),
        ReadAccessSpecification(objectIdentifier=("multiStateValue", 1), listOfPropertyReferences=[
            PropertyReference(propertyIdentifier="stateText", propertyArrayIndex=1)])])
    C["readPropertyMultiple-all"] = A.ReadPropertyMultipleRequest(listOfReadAccessSpecs=[
        ReadAccessSpecification(objectIdentifier=("binaryValue", 1), listOfPropertyReferences=[PropertyReference(propertyIdentifier="all")])])
    C["writePropertyMultiple"] = A.WritePropertyMultipleRequest(listOfWriteAccessSpecs=[
        WriteAccessSpecification(objectIdentifier=("analogOutput", 1), listOfProperties=[
            PropertyValue(propertyIdentifier="presentValue", value=any_of(Real(2.5)), priority=9)])])
    C["subscribeCOV"] = A.SubscribeCOVRequest(subscriberProcessIdentifier=7, monitoredObjectIdentifier=("analogValue", 1),
                                              issueConfirmedNotifications=False, lifetime=60)
    C["subscribeCOV-confirmed"] = A.SubscribeCOVRequest(subscriberProcessIdentifier=8, monitoredObjectIdentifier=("binaryValue", 1),
                                                        issueConfirmedNotifications=True, lifetime=30)
    C["subscribeCOV-cancel"] = A.SubscribeCOVRequest(subscriberProcessIdentifier=7, monitoredObjectIdentifier=("analogValue", 1))
    C["subscribeCOVProperty"] = A.SubscribeCOVPropertyRequest(
        subscriberProcessIdentifier=9, monitoredObjectIdentifier=("analogValue", 1), issueConfirmedNotifications=False, lifetime=20,
        monitoredPropertyIdentifier=PropertyReference(propertyIdentifier="presentValue"), covIncrement=0.5)
    C["deviceCommunicationControl"] = A.DeviceCommunicationControlRequest(timeDuration=1, enableDisable="enable", password="pw")
    C["deviceCommunicationControl-disable"] = A.DeviceCommunicationControlRequest(enableDisable="disable")
    C["reinitializeDevice"] = A.ReinitializeDeviceRequest(reinitializedStateOfDevice="warmstart", password="pw")
    C["atomicReadFile"] = A.AtomicReadFileRequest(fileIdentifier=("file", 1), accessMethod=A.AtomicReadFileRequestAccessMethodChoice(
        streamAccess=A.AtomicReadFileRequestAccessMethodChoiceStreamAccess(fileStartPosition=4, requestedOctetCount=8)))
    C["atomicReadFile-record"] = A.AtomicReadFileRequest(fileIdentifier=("file", 2), accessMethod=A.AtomicReadFileRequestAccessMethodChoice(
        recordAccess=A.AtomicReadFileRequestAccessMethodChoiceRecordAccess(fileStartRecord=1, requestedRecordCount=2)))
    C["atomicWriteFile"] = A.AtomicWriteFileRequest(fileIdentifier=("file", 1), accessMethod=A.AtomicWriteFileRequestAccessMethodChoice(
        streamAccess=A.AtomicWriteFileRequestAccessMethodChoiceStreamAccess(fileStartPosition=2, fileData=b"\x01\x02\x03")))
    C["confirmedPrivateTransfer"] = A.ConfirmedPrivateTransferRequest(vendorID=999, serviceNumber=3, serviceParameters=any_of(Unsigned(5)))
    C["confirmedTextMessage"] = A.ConfirmedTextMessageRequest(textMessageSourceDevice=("device", 77), messagePriority="normal", message="hi")
    C["confirmedCOVNotification"] = A.ConfirmedCOVNotificationRequest(
        subscriberProcessIdentifier=1, initiatingDeviceIdentifier=("device", 77), monitoredObjectIdentifier=("analogValue", 3),
        timeRemaining=10, listOfValues=pv)
    C["acknowledgeAlarm"] = A.AcknowledgeAlarmRequest(acknowledgingProcessIdentifier=1, eventObjectIdentifier=("analogValue", 1),
                                                      eventStateAcknowledged="offnormal", timeStamp=ts, acknowledgmentSource="op",
                                                      timeOfAcknowledgment=ts)
    C["getAlarmSummary"] = A.GetAlarmSummaryRequest()
    C["getEventInformation"] = A.GetEventInformationRequest(lastReceivedObjectIdentifier=("analogValue", 1))
    C["addListElement"] = A.AddListElementRequest(objectIdentifier=("analogValue", 1), propertyIdentifier="eventTimeStamps",
                                                  listOfElements=any_of(Unsigned(1)))
    C["removeListElement"] = A.RemoveListElementRequest(objectIdentifier=("analogValue", 1), propertyIdentifier="eventTimeStamps",
                                                        listOfElements=any_of(Unsigned(1)))
    C["createObject"] = A.CreateObjectRequest(objectSpecifier=A.CreateObjectRequestObjectSpecifier(objectType="analogValue"))
    C["deleteObject"] = A.DeleteObjectRequest(objectIdentifier=("analogValue", 1))
    C["readRange"] = A.ReadRangeRequest(objectIdentifier=("analogValue", 1), propertyIdentifier="presentValue",
                                        range=A.Range(byPosition=A.RangeByPosition(referenceIndex=1, count=2)))
    C["lifeSafetyOperation"] = A.LifeSafetyOperationRequest(requestingProcessIdentifier=1, requestingSource="op", request="silence")
    C["vtOpen"] = A.VTOpenRequest(vtClass="defaultTerminal", localVTSessionIdentifier=1)
    C["vtClose"] = A.VTCloseRequest(listOfRemoteVTSessionIdentifiers=[1])
    C["vtData"] = A.VTDataRequest(vtSessionIdentifier=1, vtNewData=b"ab", vtDataFlag=0)
    # answers that do not fit the client: abort (no segmentation / too many segments) or a segmented ComplexACK
    big = lambda: A.ReadPropertyMultipleRequest(listOfReadAccessSpecs=[
        ReadAccessSpecification(objectIdentifier=("device", 1234), listOfPropertyReferences=[PropertyReference(propertyIdentifier="all")])])
    C["readPropertyMultiple-big-unsegmentable"] = (big(), dict(sa=False, maxresp=0))
    C["readPropertyMultiple-big-too-many-segments"] = (big(), dict(sa=True, maxresp=0, maxsegs=1))
    C["readPropertyMultiple-big-segmented"] = (big(), dict(sa=True, maxresp=0, maxsegs=0))
    out = collections.OrderedDict()
    inv = 10
    for name, req in C.items():
        inv += 1
        kw = dict(sa=(inv % 3 == 0))
        if isinstance(req, tuple):
            req, kw = req
        try:
            out[name] = (wire(req, inv=inv, **kw), False)
        except Exception as e:          # a request this version of the library cannot encode is not a case of C10
            out["!" + name] = (repr(e), False)
    # an unrecognised confirmed service choice: the ReadProperty frame with service choice 0x55
    f = bytearray(out["readProperty"][0])
    f[9] = 0x55
    f[8] = 60
    out["unrecognizedService"] = (bytes(f), False)
    # the same request in other envelopes
    rp = lambda: A.ReadPropertyRequest(objectIdentifier=("analogValue", 1), propertyIdentifier="presentValue")
    out["readProperty-routed"] = (wire(rp(), inv=61, sadr=RemoteStation(7, 3)), False)
    out["readProperty-global"] = (wire(rp(), inv=62, link="bcast", dadr=GlobalBroadcast()), True)
    out["readProperty-forwarded"] = (wire(rp(), inv=63, link="fwd"), True)
    out["readProperty-segment0"] = (wire(rp(), inv=64, seg={"seq": 0, "mor": True, "data": b"\x0c\x00\x80"}), False)
    U = collections.OrderedDict()
    U["whoIs"] = (A.WhoIsRequest(), "bcast", GlobalBroadcast())
    U["whoIs-range"] = (A.WhoIsRequest(deviceInstanceRangeLowLimit=1000, deviceInstanceRangeHighLimit=2000), "ucast", None)
    U["whoHas"] = (A.WhoHasRequest(object=A.WhoHasObject(objectName="av1")), "bcast", None)
    U["whoHas-id"] = (A.WhoHasRequest(limits=A.WhoHasLimits(deviceInstanceRangeLowLimit=0, deviceInstanceRangeHighLimit=4194303),
                                      object=A.WhoHasObject(objectIdentifier=("binaryValue", 1))), "ucast", None)
    U["iAm"] = (A.IAmRequest(iAmDeviceIdentifier=("device", 77), maxAPDULengthAccepted=480, segmentationSupported="noSegmentation",
                             vendorID=15), "bcast", GlobalBroadcast())
    U["iHave"] = (A.IHaveRequest(deviceIdentifier=("device", 77), objectIdentifier=("analogValue", 4), objectName="x"), "bcast", None)
    dt = DateTime(date=Date((124, 5, 17, 5)).value, time=Time((12, 30, 15, 0)).value)
    U["timeSynchronization"] = (A.TimeSynchronizationRequest(time=dt), "bcast", None)
    U["utcTimeSynchronization"] = (A.UTCTimeSynchronizationRequest(time=dt), "ucast", None)
    U["unconfirmedCOVNotification"] = (A.UnconfirmedCOVNotificationRequest(
        subscriberProcessIdentifier=1, initiatingDeviceIdentifier=("device", 77), monitoredObjectIdentifier=("analogValue", 3),
        timeRemaining=10, listOfValues=pv), "ucast", None)
    U["unconfirmedPrivateTransfer"] = (A.UnconfirmedPrivateTransferRequest(vendorID=999, serviceNumber=1), "ucast", None)
    U["unconfirmedTextMessage"] = (A.UnconfirmedTextMessageRequest(textMessageSourceDevice=("device", 77), messagePriority="urgent",
                                                                  message="hi"), "bcast", None)
    for name, (req, link, dadr) in U.items():
        try:
            out[name] = (wire(req, link=link, dadr=dadr), link != "ucast")
        except Exception as e:
            out["!" + name] = (repr(e), False)
    out["whoIsRouterToNetwork"] = (netmsg(WhoIsRouterToNetwork(5)), True)
    out["iAmRouterToNetwork"] = (netmsg(IAmRouterToNetwork([5, 6])), True)
    return out


def rp_frame(src, inv, sa=False):
    return wire(apdu_mod.ReadPropertyRequest(objectIdentifier=CANARY, propertyIdentifier="presentValue"), inv=inv, sa=sa)


def dcc_enable_frame(inv):
    return wire(apdu_mod.DeviceCommunicationControlRequest(enableDisable="enable"), inv=inv)


def whois_frame():
    return wire(apdu_mod.WhoIsRequest(), link="bcast", dadr=GlobalBroadcast())


# ---- one scenario on the real stack -----------------------------------------------------------------------------
def _station(dest):
    for k, a in CLIENT_ADDR.items():
        if dest == a:
            return k
    if dest is not None and dest.addrType == Address.localBroadcastAddr:
        return 0
    return 3


def _drain(app):
    out = [{"d": d.hex(), "to": _station(dst)} for d, dst in app.bottom.sent]
    del app.bottom.sent[:]
    return out


def _residual(app):
    smap = app.smap
    srv = []
    for tr in smap.serverTransactions:
        srv.append([_station(tr.pdu_address), tr.invokeID if isinstance(tr.invokeID, int) else -1])
    ssm = sum(1 for e in vt.tm.tasks if isinstance(e[2], SSM))
    return {"srv": srv, "ntx": len(smap.serverTransactions), "cli": len(smap.clientTransactions), "timers": ssm,
            "deferred": len(core.deferredFns), "states": [tr.state for tr in smap.serverTransactions],
            "other_tasks": len(vt.tm.tasks) - ssm}


def _errors(log):
    """exceptions that reached the bottom of the stack (what core.run would log): type, where they were raised, and
    which datagram of the batch was being processed (None: a timer)"""
    out = []
    for typ, fns, el in log:
        where = "decode" if "decode" in fns else "encode" if "encode" in fns else "other"
        out.append({"exc": typ, "in": where, "fn": fns[-1] if fns else "", "el": el})
    return out


PDU_INDEX = {}          # id(PDU handed to core.deferred) -> position in the batch


def _install_error_log():
    log = []

    def _exc(msg, *args):
        et, ev, tb = sys.exc_info()
        fns = [f.name for f in traceback.extract_tb(tb)] if tb else []
        el = None
        if tb is not None:              # the frame of run_once: `args` is the argument tuple of the deferred call
            a = tb.tb_frame.f_locals.get("args")
            if isinstance(a, tuple) and a:
                el = PDU_INDEX.get(id(a[0]))
        log.append((et.__name__ if et else "?", fns, el))
    core.run_once._exception = _exc
    return log


ERRLOG = _install_error_log()


def _ingest(app, items):
    dev = Address(DEV_ADDR)
    PDU_INDEX.clear()
    keep = []
    for k, b in enumerate(items):
        dest = LocalBroadcast() if b.get("bc") else dev
        pdu = PDU(bytes.fromhex(b["d"]), source=CLIENT_ADDR[b["src"]], destination=dest)
        keep.append(pdu)
        PDU_INDEX[id(pdu)] = k + 1
        # what udp.UDPDirector.handle_read does with a datagram read from the socket
        core.deferred(app.bottom.response, pdu)
    vt.step_all(limit=20000)
    return keep


def real4(x):
    return list(struct.pack(">f", x)) if isinstance(x, float) else []


def run_scenario(sc):
    """sc = {"id", "batch":[{"d":hex,"src":1|2,"role":"g"|"rp"|"whois","bc":bool, ("inv")}], "label":..}  ->  record"""
    rec = {"id": sc["id"], "cfg": CFG, "label": sc.get("label", {}), "hang": None}
    del ERRLOG[:]
    try:
        with watchdog(HANG_BUDGET):
            vt.reset(T0)
            app = build_device(caching=bool(sc.get("caching")), foreign=bool(sc.get("foreign")))
            val = real4(app.canary.presentValue)
            batch = []
            for b in sc["batch"]:
                e = {"d": b["d"], "src": b["src"], "role": b["role"], "bc": bool(b.get("bc"))}
                if b["role"] == "rp":
                    e.update(inv=b["inv"], ot=CANARY_T, oi=CANARY_I, val=val)
                elif b["role"] == "last":
                    e.update(inv=b["inv"])
                batch.append(e)
            rec["batch"] = batch
            _ingest(app, batch)
            rec["out0"], rec["res0"] = _drain(app), _residual(app)
            quiet = max(CFG["tapp"], 4 * CFG["tseg"], (CFG["retries"] + 1) * CFG["tapdu"], (CFG["retries"] + 1) * CFG["tseg"])
            # let every protocol timeout elapse; notifications the device queued for a subscriber that never answers
            # (confirmed COV) time out one after the other, so keep going while a state machine is still timed
            rec["elapsed"] = 0
            while True:
                rec["elapsed"] += quiet + 1000
                vt.run_until(T0 + rec["elapsed"] / 1000.0, limit=20000)
                r1 = _residual(app)
                if (r1["cli"] == 0 and r1["timers"] == 0) or rec["elapsed"] >= 20 * (quiet + 1000):
                    break
            rec["out1"], rec["res1"] = _drain(app), r1
            rec["errors"] = _errors(ERRLOG)
            # the follow-up: a device that was told to stop communicating is told to resume first, as a client would
            rec["reenabled"] = app.smap.dccEnableDisable != "enable"
            fu = []
            if rec["reenabled"]:
                fu.append({"d": dcc_enable_frame(DCC_INV).hex(), "src": 1, "role": "dcc", "inv": DCC_INV, "bc": False})
            fu.append({"d": rp_frame(1, FU_INV).hex(), "src": 1, "role": "rp", "inv": FU_INV, "ot": CANARY_T, "oi": CANARY_I,
                       "val": real4(app.canary.presentValue), "bc": False})
            rec["fu"] = fu
            _ingest(app, fu)
            rec["fuout"], rec["res2"] = _drain(app), _residual(app)
            rec["errors_fu"] = _errors(ERRLOG)[len(rec["errors"]):]
    except Hang as e:
        rec["hang"] = "no return within %d s" % HANG_BUDGET
    except vtime.Livelock as e:
        rec["hang"] = "livelock: %s" % e
    finally:
        vt.reset(T0)
    return rec


def _worker_init():
    common.bind_source()
    v = vtime.install()
    v.reset(T0)
    global ERRLOG
    ERRLOG = _install_error_log()


def run_many(pool, scs):
    if pool is None or len(scs) < 200:
        return [run_scenario(s) for s in scs]
    return pool.map(run_scenario, scs, chunksize=max(50, len(scs) // (pool._processes * 8)))


# ---- generation of garbage ---------------------------------------------------------------------------------------
EDGE = [0x00, 0x01, 0x02, 0x04, 0x08, 0x0A, 0x0B, 0x0E, 0x0F, 0x10, 0x1E, 0x1F, 0x20, 0x3E, 0x3F, 0x55, 0x7F, 0x80, 0x81, 0xFF]


def g(d, src=1, bc=False):
    return {"d": bytes(d).hex(), "src": src, "role": "g", "bc": bc}


def last(d, inv, src=1):
    """the final segment of a request whose other segments precede it in the batch: a reply is due (Trace_Device LastOK)"""
    return {"d": bytes(d).hex(), "src": src, "role": "last", "bc": False, "inv": inv}


def substitutions(name, f, bc, rng, per_pos):
    """every position; per_pos = None: all 255 other values, else a seeded sample (single-bit flips first)"""
    for p in range(len(f)):
        if per_pos is None:
            vals = [v for v in range(256) if v != f[p]]
        else:
            flips = [f[p] ^ (1 << k) for k in range(8)]
            rng.shuffle(flips)
            pool = [v for v in EDGE if v != f[p]]
            vals = list(dict.fromkeys(flips[:max(2, per_pos // 2)] + rng.sample(pool, 2) + [rng.randrange(256) for _ in range(per_pos)]))
            vals = [v for v in vals if v != f[p]][:per_pos]
        for v in vals:
            m = bytearray(f)
            m[p] = v
            yield {"batch": [g(m, bc=bc)], "label": {"k": "subst", "frame": name, "pos": p, "val": v}}


def truncations(name, f, bc):
    for n in range(len(f)):
        yield {"batch": [g(f[:n], bc=bc)], "label": {"k": "trunc", "frame": name, "len": n}}
    for n in range(4, len(f)):          # truncated with the BVLL length field kept consistent
        m = bytearray(f[:n])
        m[2], m[3] = n >> 8, n & 255
        yield {"batch": [g(m, bc=bc)], "label": {"k": "trunc-consistent", "frame": name, "len": n}}


def insertions(name, f, bc, rng, per_pos):
    for p in range(len(f) + 1):
        vals = list(dict.fromkeys([rng.choice(EDGE) for _ in range(per_pos)] + [rng.randrange(256)]))[:per_pos]
        for v in vals:
            m = bytearray(f[:p]) + bytes([v]) + bytearray(f[p:])
            yield {"batch": [g(m, bc=bc)], "label": {"k": "insert", "frame": name, "pos": p, "val": v}}
            if p >= 4:                  # ... and with the BVLL length field adjusted, so that the upper layers see it
                m2 = bytearray(m)
                m2[2], m2[3] = len(m2) >> 8, len(m2) & 255
                yield {"batch": [g(m2, bc=bc)], "label": {"k": "insert-consistent", "frame": name, "pos": p, "val": v}}


def rbytes(rng, n):
    return bytes(rng.choice(EDGE) if rng.random() < 0.35 else rng.randrange(256) for _ in range(n))


def bvll_wrap(body, fn=0x0A):
    n = len(body) + 4
    return bytes([0x81, fn, (n >> 8) & 255, n & 255]) + body


def noise(rng, layer):
    """random octets injected at the link / network / application layer; returns (octets, link broadcast)"""
    if layer == "datagram":
        r = rng.random()
        if r < 0.5:
            return rbytes(rng, rng.randint(0, 40)), False
        if r < 0.8:
            return b"\x81" + rbytes(rng, rng.randint(0, 30)), False
        body = rbytes(rng, rng.randint(0, 24))
        return bvll_wrap(body, rng.choice([rng.randrange(256), rng.randrange(16), 0x81])), False
    if layer == "link":                 # valid BVLL header (unicast / broadcast / forwarded), random NPDU
        fn = rng.choice([0x0A, 0x0A, 0x0B, 0x04])
        body = rbytes(rng, rng.randint(0, 30))
        if rng.random() < 0.5:
            body = b"\x01" + body       # ... with the right protocol version half of the time
        return bvll_wrap(body, fn), fn != 0x0A
    if layer == "network":              # valid BVLL + NPCI, random APDU
        ctl = rng.choice([0x00, 0x04, 0x04, 0x04, 0x20, 0x24, 0x08, 0x0C])
        hdr = bytes([0x01, ctl])
        if ctl & 0x20:
            hdr += b"\xff\xff\x00"
        if ctl & 0x08:
            hdr += b"\x00\x07\x01\x03"
        if ctl & 0x20:
            hdr += b"\xff"
        r = rng.random()
        if r < 0.5:                     # a confirmed-request header followed by noise
            first = rng.choice([0x00, 0x02, 0x00, 0x02, 0x08, 0x0C, 0x0A])
            ap = bytes([first, rng.choice([0x05, 0x75, 0x04, rng.randrange(256)]), rng.randrange(256)])
            if first & 0x08:
                ap += bytes([rng.choice([0, 0, 1, rng.randrange(256)]), rng.choice([1, 2, 0, rng.randrange(256)])])
            ap += bytes([rng.choice(sorted(confirmed_request_types) + [rng.randrange(256)])]) + rbytes(rng, rng.randint(0, 24))
        elif r < 0.7:
            ap = bytes([0x10, rng.choice(sorted(unconfirmed_request_types) + [rng.randrange(256)])]) + rbytes(rng, rng.randint(0, 24))
        else:
            ap = rbytes(rng, rng.randint(0, 28))
        bc = bool(ctl & 0x20)
        return bvll_wrap(hdr + ap, 0x0B if bc else 0x0A), bc
    raise ValueError(layer)


def body_noise(rng, frames):
    """a valid frame whose service parameters are replaced by / mixed with random tags"""
    name = rng.choice([n for n in frames if not n.startswith("who") and "Router" not in n])
    f, bc = frames[name]
    cut = rng.randint(10, max(10, len(f)))
    m = bytearray(f[:cut]) + rbytes(rng, rng.randint(0, 16))
    m[2], m[3] = len(m) >> 8, len(m) & 255
    return name, bytes(m), bc


def interleaving(rng, frames, pool_garbage):
    """1..4 pieces of garbage and 1..3 valid requests (ReadProperty from either client, Who-Is) in one deferred batch"""
    items = []
    for _ in range(rng.randint(1, 4)):
        d, bc = rng.choice(pool_garbage)
        items.append({"d": d.hex(), "src": rng.choice([1, 1, 2]), "role": "g", "bc": bc})
    invs = rng.sample(range(100, 180), 3)
    for k in range(rng.randint(1, 3)):
        if rng.random() < 0.25:
            items.append({"d": whois_frame().hex(), "src": rng.choice([1, 2]), "role": "whois", "bc": True})
        else:
            src = rng.choice([1, 2])
            items.append({"d": rp_frame(src, invs[k], sa=rng.random() < 0.3).hex(), "src": src, "role": "rp", "inv": invs[k], "bc": False})
    rng.shuffle(items)
    return {"batch": items, "label": {"k": "interleaving", "n": len(items)}}


def generate(tier, seed, frames):
    """the scenarios of this run, lazily and in a fixed order (deterministic in tier and seed)"""
    rng = random.Random(seed)
    thorough = tier == "thorough"
    for name, (f, bc) in frames.items():
        yield {"batch": [g(f, bc=bc)], "label": {"k": "valid", "frame": name}}
    garbage_pool = []
    for name, (f, bc) in frames.items():
        if thorough:
            per_pos = None
        else:
            per_pos = 16 if len(f) <= 26 else 8
        mine = list(substitutions(name, f, bc, rng, per_pos)) + list(truncations(name, f, bc)) + \
            list(insertions(name, f, bc, rng, 4 if thorough else 2))
        for s in rng.sample(mine, min(len(mine), 60 if thorough else 25)):
            garbage_pool.append((bytes.fromhex(s["batch"][0]["d"]), bc))
        for s in mine:
            yield s
    for layer, n in (("datagram", 1000), ("link", 1000), ("network", 3000)):
        for _ in range(n * (8 if thorough else 1)):
            d, bc = noise(rng, layer)
            if rng.random() < 0.1:
                garbage_pool.append((d, bc))
            yield {"batch": [g(d, bc=bc)], "label": {"k": "noise", "layer": layer}}
    for _ in range(15000 if thorough else 1500):
        name, d, bc = body_noise(rng, frames)
        if rng.random() < 0.1:
            garbage_pool.append((d, bc))
        yield {"batch": [g(d, bc=bc)], "label": {"k": "noise", "layer": "application", "frame": name}}
    # segmented requests: two segments of one request in one batch, complete / out of order / duplicated first segment
    rp_body = frames["readProperty"][0][10:]
    rp = lambda: apdu_mod.ReadPropertyRequest(objectIdentifier=("analogValue", 1), propertyIdentifier="presentValue")
    mk = lambda seq, mor, data, inv=90: wire(rp(), inv=inv, seg={"seq": seq, "mor": mor, "data": data}, sa=True)
    s0, s1 = mk(0, True, rp_body[:4]), mk(1, False, rp_body[4:])
    yield {"batch": [g(s0), last(s1, 90)], "label": {"k": "segments", "case": "complete, reply due"}}
    s3 = [mk(0, True, rp_body[:3]), mk(1, True, rp_body[3:6]), mk(2, False, rp_body[6:])]
    yield {"batch": [g(s3[0]), g(s3[1]), last(s3[2], 90)], "label": {"k": "segments", "case": "complete in three, reply due"}}
    for label, seq in (("complete", [s0, s1]), ("reversed", [s1, s0]), ("dup-first", [s0, s0]), ("gap", [s0, mk(2, False, rp_body[4:])]),
                       ("only-last", [s1]), ("first-then-unsegmented", [s0, wire(rp(), inv=90)]),
                       ("first-then-other-id", [s0, mk(1, False, rp_body[4:], inv=91)])):
        yield {"batch": [g(x) for x in seq], "label": {"k": "segments", "case": label}}
    # a segmented answer and what may come back for it: segment acks with every kind of sequence number / window (in the
    # window, beyond what was sent, beyond the end of the answer), negative acks, the server's own direction bit, aborts --
    # then silence.  The transfer has to end and leave nothing behind.
    big = frames["readPropertyMultiple-big-segmented"][0]
    inv = big[8]            # BVLL (4) + NPCI (2) + APDU type, max-segments/max-response octets
    raw = lambda *apdu: frame(bytes([0x01, 0x00]) + bytes(apdu))
    acks = [(seq, win, nak, srv) for seq in (0, 1, 2, 5, 200, 255) for win in (0, 1, 2, 127, 255) for nak in (0, 1) for srv in (0, 1)]
    for seq, win, nak, srv in (acks if thorough else [a for a in acks if a[3] == 0 or (a[0] in (0, 200) and a[1] == 2)]):
        a = raw(0x40 | (nak << 1) | srv, inv, seq, win)
        yield {"batch": [g(big), g(a)], "label": {"k": "segments", "case": "segack seq=%d win=%d nak=%d srv=%d" % (seq, win, nak, srv)}}
    for tail in ([raw(0x40, inv, 0, 2), raw(0x40, inv, 2, 2)], [raw(0x40, inv, 0, 2), raw(0x40, inv, 0, 2)],
                 [raw(0x40, inv, 1, 1), raw(0x42, inv, 0, 1)], [raw(0x40, inv, 0, 127), raw(0x70, inv, 0)],
                 [raw(0x40, inv ^ 1, 0, 2)], [raw(0x40, inv, 0, 2), big]):
        yield {"batch": [g(big)] + [g(x) for x in tail], "label": {"k": "segments", "case": "segack-sequence"}}
    # the device learns its network number, then is told another one (a corrected announcement): requests that a router
    # delivers from stations of the network it first believed to be on are answered like any other
    for first, flag1, second, flag2 in ((5, 0, 6, 1), (5, 0, 6, 0), (5, 1, 6, 1), (5, 0, 5, 1)):
        for asker in (5, 6, 7):
            if asker == second:
                continue            # a routed frame claiming to come from the device's own network is refused as spoofed
            routed = wire(rp(), inv=93, sadr=RemoteStation(asker, 3))
            yield {"batch": [g(netmsg(NetworkNumberIs(net=first, flag=flag1)), src=2, bc=True),
                             g(netmsg(NetworkNumberIs(net=second, flag=flag2)), src=2, bc=True), g(routed, src=2)],
                   "label": {"k": "segments", "case": "network-number-is %d/%d then %d/%d, request from net %d" % (first, flag1, second, flag2, asker)}}
    # two stations with the same MAC octets on different networks (one local, one behind a router) use the same invoke ID
    # while the first one's segmented answer is still open: transactions are keyed by network AND station
    same_mac = bytes(CLIENT_ADDR[1].addrAddr)
    for other_net in (20, 65534):
        twin = wire(rp(), inv=inv, sadr=RemoteStation(other_net, same_mac))
        ctrl = wire(rp(), inv=inv, sadr=RemoteStation(other_net, b"\x07"))
        yield {"batch": [g(big, src=1), g(twin, src=2), g(ctrl, src=2)],
               "label": {"k": "segments", "case": "same MAC and invoke ID on network %d while a segmented answer is open" % other_net}}
        yield {"batch": [g(big, src=1), g(twin, src=2), g(raw(0x40, inv, 0, 127), src=1)],
               "label": {"k": "segments", "case": "same MAC and invoke ID on network %d, then the segment ack" % other_net}}
    # a device that files every I-Am it hears (what applications do): a damaged I-Am of a station -- every single-octet
    # substitution of its parameters -- followed by valid requests of that station, answered like anybody's
    pos0 = 4 + 2 + 4 + 2            # BVLL, NPCI (global broadcast: DNET/DLEN/hops), APDU type + service choice
    muts = []
    for mx in (480, 1024, 50):      # (announcements whose max-APDU field is 01e0 / 0400 / 32: other values one octet away)
        iam = wire(apdu_mod.IAmRequest(iAmDeviceIdentifier=("device", 77), maxAPDULengthAccepted=mx, segmentationSupported="noSegmentation",
                                       vendorID=15), link="bcast", dadr=GlobalBroadcast())
        for pos in range(pos0, len(iam)):
            vals = range(256) if thorough else sorted({0, 1, 2, 3, 4, 5, 0x31, 0x7f, 0x80, 0xff, iam[pos] ^ 1, iam[pos] ^ 0x80, rng.randrange(256)})
            for v in vals:
                if v != iam[pos]:
                    b = bytearray(iam)
                    b[pos] = v
                    muts.append(bytes(b))
    for b in muts:
        yield {"caching": True, "batch": [g(b, src=1, bc=True), {"d": rp_frame(1, 181).hex(), "src": 1, "role": "rp", "inv": 181, "bc": False},
                                          {"d": rp_frame(1, 182, sa=True).hex(), "src": 1, "role": "rp", "inv": 182, "bc": False},
                                          g(big, src=1)],
               "label": {"k": "segments", "case": "damaged I-Am filed in the device information cache, then requests of that station"}}
    # the device as a foreign device (registered with a BBMD): whatever BVLL results, registrations and garbage arrive from the
    # BBMD's address or from anybody, unicast requests are answered
    for code in (0x0000, 0x0010, 0x0030, 0x0060, 0x00ff, 0xffff):
        res = bytes([0x81, 0x00, 0x00, 0x06, code >> 8, code & 0xff])
        for src in (3, 1):
            yield {"foreign": True, "batch": [g(res, src=src), {"d": rp_frame(1, 183).hex(), "src": 1, "role": "rp", "inv": 183, "bc": False},
                                              {"d": rp_frame(2, 184).hex(), "src": 2, "role": "rp", "inv": 184, "bc": False}],
                   "label": {"k": "segments", "case": "foreign device: BVLL result %04x from %s, then requests" % (code, "the BBMD" if src == 3 else "a client")}}
    for name in ("readProperty", "whoIs", "readPropertyMultiple-big-segmented"):
        yield {"foreign": True, "batch": [g(frames[name][0], src=1, bc=frames[name][1])], "label": {"k": "valid", "frame": name, "foreign": True}}
    # a device that files I-Ams: the I-Am of a station it did not know arrives between the segments of that station's request
    # (answered with an error: the object does not exist; or with an ack) -- the reply still comes, nothing is left
    iam_ok = wire(apdu_mod.IAmRequest(iAmDeviceIdentifier=("device", 77), maxAPDULengthAccepted=480, segmentationSupported="segmentedBoth",
                                      vendorID=15), link="bcast", dadr=GlobalBroadcast())
    for oid in (("analogValue", 99), ("analogValue", 1)):
        rq = lambda: apdu_mod.ReadPropertyRequest(objectIdentifier=oid, propertyIdentifier="presentValue")
        body = wire(rq(), inv=95)[10:]
        seg = lambda seq, mor, data: wire(rq(), inv=95, seg={"seq": seq, "mor": mor, "data": data}, sa=True)
        for caching in (True, False):
            yield {"caching": caching, "batch": [g(seg(0, True, body[:4]), src=1), g(iam_ok, src=1, bc=True), last(seg(1, False, body[4:]), 95)],
                   "label": {"k": "segments", "case": "I-Am of the requester between the two segments of its request (%s %d)" % oid}}
    # a subscriber that never acknowledges: confirmed notifications queue up behind each other and time out in turn
    sub = frames["subscribeCOV-confirmed"][0]
    again = bytearray(sub)
    again[8] = 0x77
    yield {"batch": [g(sub), g(again), g(sub)], "label": {"k": "segments", "case": "cov-renewals-unanswered"}}
    # garbage interleaved with valid requests in the same batch
    for d, bc in [frames["deviceCommunicationControl-disable"], frames["readProperty"]]:
        garbage_pool.append((d, bc))
    for _ in range(60000 if thorough else 5000):
        yield interleaving(rng, frames, garbage_pool)


# ---- D: the design model ------------------------------------------------------------------------------------------
MODEL_RUNS = [   # (deviations on, invariant or None = all, expected violated invariant or None)
    ((), None, None),
    (("F6",), "M_NeverSilentOnIntactHeader", "M_NeverSilentOnIntactHeader"),
    (("F6",), "M_NoLeftover", "M_NoLeftover"),
    (("F7",), "M_NeverSilentOnIntactHeader", "M_NeverSilentOnIntactHeader"),
    (("F9",), None, None),
    (("F9", "F8"), "M_OthersStillProcessed", "M_OthersStillProcessed"),
]


def model_cfg(devs, inv):
    cfg = open(os.path.join(VERIF, "spec", "MC_Device.cfg")).read()
    for f in devs:
        cfg = cfg.replace("Dev_%s = FALSE" % f, "Dev_%s = TRUE" % f)
    if inv:
        cfg = "\n".join(l for l in cfg.splitlines() if not l.startswith("INVARIANT")) + "\nINVARIANT %s\n" % inv
    return cfg


def run_models(chk, workers):
    def one(run):
        devs, inv, want = run
        return run, tlc.run_tlc("MC_Device", cfg_text=model_cfg(devs, inv), workers=workers, timeout=900,
                                name="MC_Device" + ("/Dev_" + "+".join(devs) if devs else "") + ("/" + inv if inv else ""))
    with ThreadPoolExecutor(max_workers=3) as ex:
        results = list(ex.map(one, MODEL_RUNS))
    sanity = []
    for (devs, inv, want), res in results:
        if not devs:
            chk.tlc(res)
            if res["error_kind"] or not res["finished"]:
                tlc.machinery_failure("design model Device violates %s\n%s" % (res["error"], res["output"][-3000:]))
        elif want is None:
            chk.tlc(res)
            if res["error_kind"] or not res["finished"]:
                tlc.machinery_failure("Device with Dev_%s should satisfy all monitors, got %s\n%s" % (devs, res["error"], res["output"][-2000:]))
            sanity.append("Dev_%s alone: all monitors hold (an exception escaping one deferred call costs nothing observable "
                          "once core.run_once isolates calls)" % "+".join(devs))
        else:
            if res["error"] != want and res["error_kind"] not in ("invariant", "action_property", "property", "temporal", "assert"):
                tlc.machinery_failure("Device with Dev_%s should violate %s, got %r\n%s" % (devs, want, res["error"], res["output"][-2000:]))
            sanity.append("Dev_%s violates %s as expected" % ("+".join(devs), want))
    chk.extra["model_sanity"] = sanity


# ---- T: validation of the recorded executions by TLC ------------------------------------------------------------------
TRACE_CFG = ("CONSTANTS\n  Dev_F6 = FALSE\n  Dev_F7 = FALSE\n  Dev_F8 = FALSE\n  Dev_F9 = FALSE\n  Inputs = {}\n  Companions = {}\n"
             "  Shapes = {}\nINIT TInit\nNEXT TNext\nINVARIANT Report\nCHECK_DEADLOCK FALSE\n")
_hash = re.compile(r'<<\s*"##",\s*(\d+),\s*(\d+),\s*(\d+),\s*(\d+),\s*(\d+),\s*(\d+)\s*>>')


def octs(h):
    return list(bytes.fromhex(h))


def to_tla(rec):
    """the part of a record TLC reads (octets as sequences of numbers)"""
    def el(b):
        e = {"d": octs(b["d"]), "src": b["src"], "role": b["role"]}
        for k in ("inv", "ot", "oi", "val"):
            if k in b:
                e[k] = b[k]
        return e

    def ou(o):
        return {"d": octs(o["d"]), "to": o["to"]}

    def rs(r):
        return {k: r[k] for k in ("srv", "ntx", "cli", "timers", "deferred")}
    return {"id": rec["id"], "cfg": rec["cfg"], "batch": [el(b) for b in rec["batch"]], "out0": [ou(o) for o in rec["out0"]],
            "out1": [ou(o) for o in rec["out1"]], "res0": rs(rec["res0"]), "res1": rs(rec["res1"]), "res2": rs(rec["res2"]),
            "elapsed": rec["elapsed"], "reenabled": rec["reenabled"], "fu": [el(b) for b in rec["fu"]],
            "fuout": [ou(o) for o in rec["fuout"]]}


def validate(recs, label, workers):
    """one TLC run of Trace_Device over `recs` (no hangs among them) -> (res, {id: verdict}, {id: counts})"""
    wd = tlc.workdir("c10tr")
    tf = os.path.join(wd, "recs.ndjson")
    with open(tf, "w") as f:
        for r in recs:
            f.write(json.dumps(to_tla(r)) + "\n")
    try:
        res = tlc.run_tlc("Trace_Device", cfg_text=TRACE_CFG, workers=workers, timeout=2400, env={"TRACE_FILE": tf},
                          name="Trace_Device/" + label)
    finally:
        shutil.rmtree(wd, ignore_errors=True)
    if res["error_kind"] or not res["finished"]:
        tlc.machinery_failure("trace validation run failed: %s\n%s" % (res["error"], res["output"][-3000:]))
    counts = {int(m.group(1)): tuple(int(m.group(k)) for k in range(2, 7)) for m in _hash.finditer(res["output"])}
    if res["distinct"] != len(recs) or len(counts) != len(recs):
        tlc.machinery_failure("trace validation evaluated %d / reported %d of %d records\n%s" % (
            res["distinct"], len(counts), len(recs), res["output"][-1500:]))
    verdicts = {v["id"]: v for v in tlc.printed_values(res["output"])}
    return res, verdicts, counts


def service_name(svc):
    cls = confirmed_request_types.get(svc)
    if cls is None:
        return "unrecognized" if svc is not None and svc >= 0 else "none"
    n = cls.__name__.replace("Request", "")
    return n[0].lower() + n[1:]


def signature(monitor, idx, verdict, rec):
    """the identity of a finding: which class of input (computed by TLC), which exception reached the bottom of the stack
    while that datagram was processed"""
    cls = verdict["cls"]
    if idx == 0:        # a clause about the record as a whole
        if monitor == "StillHealthy":
            errs = rec.get("errors_fu", [])
            return {"case": "follow_up_unanswered", "exc": errs[0]["exc"] if errs else "none"}
        cand = [k for k, b in enumerate(rec["batch"]) if b["role"] == "g"] or [0]
        pick = [k for k in cand if cls[k]["app"] in ("creq", "cseg")] or cand
        idx = pick[0] + 1
    c = cls[idx - 1]
    errs = [e for e in rec.get("errors", []) if e["el"] == idx]
    exc = errs[0]["exc"] if errs else "none"
    where = errs[0]["in"] if errs else "none"
    fn = errs[0]["fn"] if errs else ""
    svc = service_name(c["svc"]) if c["app"] in ("creq", "cseg") else c["app"]
    if c["link"] == "unknown":
        return {"case": "unknown_bvll_function", "exc": exc}
    if fn == "decode_max_apdu_length_accepted":         # ServerSSM.idle tripping over max-APDU-length code 6..15
        return {"case": "reserved_max_apdu_code"}
    if c["app"] == "cseg":
        return {"case": "segmented_request", "service": svc, "exc": exc}
    if c["app"] == "creq" and exc != "none":
        case = {"decode": "decoder_raises_non_reject", "encode": "reply_encoder_raises"}.get(where, "raises_outside_handler")
        return {"case": case, "service": svc, "exc": exc}
    if c["app"] == "creq":
        return {"case": "no_exception", "service": svc}
    return {"case": "%s/%s/%s" % (c["link"], c["net"], c["app"]), "exc": exc}


class Findings:
    """violations grouped by (monitor, signature): one replay file per group, the shortest failing input kept"""

    def __init__(self):
        self.groups = collections.OrderedDict()

    def add(self, monitor, sig, rec, verdict):
        key = (monitor, json.dumps(sig, sort_keys=True))
        size = sum(len(b["d"]) for b in rec["batch"])
        grp = self.groups.get(key)
        if grp is None:
            grp = self.groups[key] = {"n": 0, "size": None, "rec": None, "verdict": None, "labels": collections.Counter()}
        grp["n"] += 1
        grp["labels"][rec["label"].get("frame") or rec["label"].get("layer") or rec["label"].get("k")] += 1
        if grp["size"] is None or (len(rec["batch"]), size) < grp["size"]:
            grp["size"], grp["rec"], grp["verdict"] = (len(rec["batch"]), size), rec, verdict

    def report(self, chk):
        for (monitor, sigj), grp in self.groups.items():
            rec, v = grp["rec"], grp["verdict"]
            detail = {"failing_records": grp["n"], "from_frames": dict(grp["labels"].most_common(8)),
                      "datagrams": [b["d"] for b in rec["batch"]], "roles": [b["role"] for b in rec["batch"]],
                      "classes": [dict(c) for c in v["cls"]] if v else None,
                      "expected": EXPECT[monitor], "sent_by_device": [dict(s) for s in v["sent"]] if v else None,
                      "replies_hex": [o["d"] for o in rec.get("out0", []) + rec.get("out1", [])][:4],
                      "residual_after_batch": rec.get("res0"), "residual_after_timeouts": rec.get("res1"),
                      "follow_up_answer": [o["d"] for o in rec.get("fuout", [])],
                      "exceptions_at_bottom_of_stack": rec.get("errors", []) + rec.get("errors_fu", []), "label": rec["label"]}
            for _ in range(grp["n"]):           # so that known-finding hit counts are record counts
                if not chk.violation(monitor, json.loads(sigj), detail, {"batch": rec["batch"], "label": rec["label"]}):
                    continue
                break


EXPECT = {
    "OneReplySameId": "at most one reply (SimpleACK/ComplexACK/Error/Reject/Abort) with the invoke ID of the request",
    "ReplyKindAllowed": "the reply is a SimpleACK / ComplexACK / Error / Reject / Abort(server)",
    "NeverSilentOnIntactHeader": "BVLL, NPCI and APCI headers decode (unsegmented confirmed request for this device): a reply with its invoke ID",
    "NoLeftover": "no server/client transaction, SSM timer or deferred call once every timeout has elapsed; none for an answered request right away",
    "OthersStillProcessed": "valid requests ingested in the same deferred batch are answered (ReadProperty with the right value, Who-Is with I-Am)",
    "StillHealthy": "the following valid ReadProperty is answered with a ComplexACK carrying the present value",
    "Terminates": "the stack returns",
}


def account(chk, recs, verdicts, counts, findings, obs):
    for rec in recs:
        v = verdicts.get(rec["id"])
        nd, ns, nc, nseg, nu = counts[rec["id"]]
        lab = rec["label"]
        chk.case((lab.get("k"), lab.get("frame", lab.get("layer", "")), rec["id"]), nontrivial=lab.get("k") != "valid")
        chk.monitor("NeverSilentOnIntactHeader", nd)
        chk.monitor("ReplyKindAllowed", nd)
        chk.monitor("OneReplySameId", ns)
        chk.monitor("OthersStillProcessed", nc)
        chk.monitor("NoLeftover")
        chk.monitor("StillHealthy")
        obs["records/" + lab.get("k", "?")] += 1
        obs["header_intact_requests"] += nd
        obs["segmented_request_pieces"] += nseg
        if rec.get("errors"):
            obs["records_with_exceptions_at_bottom_of_stack"] += 1
            for e in rec["errors"]:
                obs["exc/%s/%s" % (e["exc"], e["fn"])] += 1
                if e["exc"] == "KeyError" and e["fn"] == "confirmation":
                    obs["F9_unknown_BVLL_function_KeyError_escapes_AnnexJCodec"] += 1
        if rec["reenabled"]:
            obs["device_switched_off_by_DCC"] += 1
        if v is None:
            chk.traces_validated += 1
            continue
        if v["malformed"]:
            tlc.machinery_failure("the harness produced a record outside the spec's domain: %s" % json.dumps(rec)[:1500])
        if v["unsolicited"]:
            obs["records_with_unsolicited_transaction_apdus"] += 1
            obs.setdefault("unsolicited_example", {"datagrams": [b["d"] for b in rec["batch"]], "sent": [dict(s) for s in v["sent"]]})
        if not v["why"]:
            chk.traces_validated += 1
            continue
        for monitor, idx in sorted(v["why"]):
            findings.add(monitor, signature(monitor, idx, v, rec), rec, v)


def hang_violation(chk, rec):
    chk.violation("Terminates", {"case": "hang", "frame": rec["label"].get("frame", rec["label"].get("k"))},
                  {"what": rec["hang"], "datagrams": [b["d"] for b in rec.get("batch", [])], "label": rec["label"]},
                  {"batch": rec.get("batch", []), "label": rec["label"]})


# ---------------------------------------------------------------------------------------------------------------------
def main(tier, seed):
    chk = Check("C10", tier, seed)
    thorough = tier == "thorough"
    chk.rule = ("one record = one deferred batch of datagrams ingested by the real device stack (fresh device), what it sent, what it "
                "holds after the batch and after all timeouts, and its answer to a following valid ReadProperty; distinct = distinct "
                "(mutation kind, base frame, record); non-trivial = everything but the unmodified valid frames")
    chk.assumptions = [
        "the device is the stack of BIPSimpleApplication (samples) with WhoIs/WhoHas/ReadWriteProperty/ReadWritePropertyMultiple/"
        "ChangeOfValue/DeviceCommunicationControl/File services on a capturing bottom below AnnexJCodec; no UDPMultiplexer, no sockets",
        "a reply is REQUIRED when BVLL.Dec gives Original-Unicast/-Broadcast, NPCI.Dec an application message without DADR or with the "
        "global broadcast, APCI.Dec an unsegmented confirmed request (reserved bits / reserved code points do not make a header "
        "un-intact); everything else: a reply is tolerated, never demanded",
        "which of ack / error / reject / abort comes back for a mutated body is not decided",
        "an unacknowledged segmented ComplexACK (first segment, retransmitted) counts as one reply",
        "after a DeviceCommunicationControl request earlier in the same batch nothing is demanded of later requests; a device found "
        "switched off is switched on by a valid DCC request before the follow-up",
        "timers = SSM tasks in the scheduler heap (COV subscription lifetimes and DCC re-enable tasks are not leftovers); the "
        "residual state is taken once virtual time has passed every protocol timeout (Quiet(cfg) of Device.tla) and, if a state "
        "machine is still timed then (confirmed COV notifications queued for a silent subscriber), after further such periods, "
        "at most 20",
        "exceptions reaching core.run_once are observations, not violations",
    ]
    nw = int(os.environ.get("VERIF_TLC_WORKERS", "16"))
    run_models(chk, max(2, min(4, nw // 3)))

    frames_all = valid_frames()
    frames = collections.OrderedDict((k, v) for k, v in frames_all.items() if not k.startswith("!"))
    chk.extra["valid_frames"] = {k: v[0].hex() for k, v in frames.items()}
    chk.extra["frames_not_encodable"] = {k[1:]: v[0] for k, v in frames_all.items() if k.startswith("!")}
    obs = collections.Counter()
    findings = Findings()
    state = {"hangs": 0, "n": 0}
    chunk = 25000
    ctx = multiprocessing.get_context("fork")
    pool = ctx.Pool(min(8, max(2, (os.cpu_count() or 4) // 2)), initializer=_worker_init)
    tlc_workers = max(2, min(4, nw))
    depth = 3 if nw >= 12 else 2

    def settle(good, fut):
        res, verdicts, counts = fut.result()
        chk.extra["trace_validation_states"] = chk.extra.get("trace_validation_states", 0) + res["distinct"]
        chk.extra.setdefault("trace_validation_runs", []).append({"records": len(good), "wall_s": round(res["wall_s"], 1)})
        account(chk, good, verdicts, counts, findings, obs)
        for r in good:
            lab = r["label"]
            if len(chk.samples) < 6 and ((lab["k"] == "valid" and lab["frame"] in ("readProperty", "whoIs", "subscribeCOV-confirmed"))
                                         or (lab["k"] == "segments" and lab["case"] == "complete")
                                         or (lab["k"] == "interleaving" and r["id"] % 997 == 0)):
                chk.sample({"label": lab, "batch": [(b["role"], b["d"]) for b in r["batch"]],
                            "sent": [o["d"] for o in r["out0"] + r["out1"]], "res0": r["res0"], "res1": r["res1"],
                            "follow_up": [o["d"] for o in r["fuout"]]})

    pending = collections.deque()
    gen = generate(tier, seed, frames)
    try:
        with ThreadPoolExecutor(max_workers=depth) as ex:
            while state["hangs"] <= 3:
                part = list(itertools.islice(gen, chunk))
                if not part:
                    break
                for s in part:
                    state["n"] += 1
                    s["id"] = state["n"]
                recs = run_many(pool, part)
                good = []
                for r in recs:
                    if r["hang"]:
                        state["hangs"] += 1
                        if state["hangs"] <= 3:
                            hang_violation(chk, r)
                    else:
                        good.append(r)
                pending.append((good, ex.submit(validate, good, "%d-%d" % (part[0]["id"], part[-1]["id"]), tlc_workers)))
                while len(pending) >= depth:
                    settle(*pending.popleft())
            while pending:
                settle(*pending.popleft())
    finally:
        pool.terminate()
    chk.extra["scenarios"] = state["n"]
    findings.report(chk)
    chk.extra["observations"] = dict(obs)
    chk.extra["finding_groups"] = [{"monitor": m, "sig": json.loads(s), "records": grp["n"]} for (m, s), grp in findings.groups.items()]
    return chk.finish()


def replay(path):
    body = json.load(open(path))
    rp = body["replay"]
    chk = Check("C10", "quick", body.get("seed", 0))
    rec = run_scenario({"id": 1, "batch": rp["batch"], "label": rp.get("label", {"k": "replay"})})
    print(json.dumps({k: rec.get(k) for k in ("batch", "out0", "res0", "out1", "res1", "errors", "reenabled", "fuout", "res2", "hang")}, indent=1))
    if rec["hang"]:
        hang_violation(chk, rec)
        return chk.finish()
    res, verdicts, counts = validate([rec], "replay", 2)
    chk.tlc(res)
    findings, obs = Findings(), collections.Counter()
    account(chk, [rec], verdicts, counts, findings, obs)
    findings.report(chk)
    return chk.finish()
