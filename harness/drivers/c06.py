"""C06 -- Routers deliver each packet once to exactly the addressed stations.   (spec/Router.tla)

D  TLC exhaustive on Router.tla (one action per critical section of NetworkServiceAccessPoint.indication /
   process_npdu and of the Who-Is-Router / I-Am-Router handlers of NetworkServiceElement, frames delivered one receiver
   copy at a time in every order the medium allows): every loop-free internetwork of up to four networks with 2-3-port
   routers chosen in Init (MC_Router.tla: all labelled trees or one per shape), 1-2 stations per network that do / do
   not know their network number, cold and warm caches, every (source, kind, destination) incl. a network that does
   not exist (and, on the smaller family, a second message right behind the first), then every possible reply to a
   shown source; five networks with a four-port router in thorough.  Invariants: NoDuplicate, NotToOthers, ExactlyOnce (per
   destination kind), ReplyRoutable, HopDecrement, NeverBackOnArrivalNet, Terminates.  Internetworks with a cycle
   (triangle, two parallel routers, square) with injected hop counts 0..3: Terminates, HopDecrement.  Each named
   deviation of the model must violate its invariant (vacuity).
R  TLC dumps the labelled state graph of two small internetworks (line of three networks as in the design spike, a
   three-port router with a two-port router behind it) and of the cyclic ones; an edge cover of each graph is forced,
   step by step, on REAL NetworkServiceAccessPoint stacks over vlan.Networks (harness/routerrig.py), caches seeded
   from TLC's initial state, and every execution is validated by TLC (Trace_Router.tla, strict).
T  seeded random TREE internetworks with 2..8 networks, 1..3 stations each, routers of 2..4 ports, random creation
   and bind order; every combination of source and destination kind, each from cold caches (fresh stacks) followed
   by replies from every recipient to the source address it was shown, then all of them again on stacks warmed by
   the preceding traffic; bursts of 2-3 messages submitted back to back; injected low hop counts; frames delivered in emission order or in seeded random order;
   plus small cyclic internetworks with injected low hop counts (step budget => Terminates violation, never a hang).
   ALL executions are validated strictly by TLC (Trace_Router.tla): every step must be the Router.tla action named by
   the event with exactly the logged frames (decoded by an independent NPCI reader), routing cache, parked packets
   and APDUs handed up; the C06 monitors are the invariants of Router.tla evaluated by TLC on the logged observations.
"""
import os, sys, json, random, shutil, collections, itertools, concurrent.futures as cf
from common import Check, Hang, watchdog
import tlc, tlaval
from c14 import edge_cover

ALL_KINDS = ["ls", "lb", "gb", "rs", "rb"]
INVS_TREE = ["NoDuplicate", "NotToOthers", "UnicastExactlyOnce", "RemoteBroadcastExactlyOnce", "GlobalBroadcastExactlyOnce",
             "LocalBroadcastStays", "ReplyRoutable", "HopDecrement", "NeverBackOnArrivalNet", "Terminates", "CacheIsFunction"]
INVS_CYC = ["HopDecrement", "NeverBackOnArrivalNet", "Terminates", "CacheIsFunction"]
DELIVERY = {"NoDuplicate", "NotToOthers", "ExactlyOnce.unicast", "ExactlyOnce.remote_broadcast",
            "ExactlyOnce.global_broadcast", "ExactlyOnce.local_broadcast", "ReplyRoutable"}
MONITORS = sorted(DELIVERY | {"HopDecrement", "NeverBackOnArrivalNet", "Terminates"})


# ---- rendering (trusted base: Python data <-> TLA+ text) ----------------------------------------------------------
def tla(v):
    if isinstance(v, bool):
        return "TRUE" if v else "FALSE"
    if isinstance(v, int):
        return str(v)
    if isinstance(v, str):
        return '"%s"' % v
    if isinstance(v, (list, tuple)):
        return "<<" + ", ".join(tla(x) for x in v) + ">>"
    if isinstance(v, (set, frozenset)):
        return "{" + ", ".join(tla(x) for x in sorted(v, key=str)) + "}"
    if isinstance(v, dict):
        return "[" + ", ".join("%s |-> %s" % (k, tla(x)) for k, x in v.items()) + "]"
    raise TypeError(v)


def consts(topos="mcTopos", order="lan", maxsteps=400, hops=(255,), modes=("cold", "warm"), replies=True, ghost=True, burst=False,
           kinds=ALL_KINDS, dev="none", minnets=2, maxnets=3, maxports=3, pats="few", shapes="all", mc=True):
    c = collections.OrderedDict()
    c["Topos"] = "<- " + topos
    c["Order"] = tla(order)
    c["MaxSteps"] = maxsteps
    c["SendHops"] = tla(set(hops))
    c["Modes"] = tla(set(modes))
    c["Replies"] = tla(bool(replies))
    c["Ghost"] = tla(bool(ghost))
    c["Burst"] = tla(bool(burst))
    c["Kinds"] = tla(set(kinds))
    c["Dev"] = tla(dev)
    if mc:
        c.update(MinNets=minnets, MaxNets=maxnets, MaxPorts=maxports, PatChoice=tla(pats), Shapes=tla(shapes))
    return c


def cfg_text(c, spec="Spec", invs=()):
    lines = ["SPECIFICATION " + spec, "CONSTANTS"]
    for k, v in c.items():
        lines.append("  %s %s" % (k, v) if str(v).startswith("<-") else "  %s = %s" % (k, v))
    lines += ["INVARIANT " + i for i in invs]
    lines.append("CHECK_DEADLOCK FALSE")
    return "\n".join(lines) + "\n"


def run_mc(chk, name, c, invs, expect=None, timeout=900, dump=None, module="MC_Router", files=None):
    res = tlc.run_tlc(module, cfg_text=cfg_text(c, invs=invs), timeout=timeout, name="Router/" + name, dump_dot=dump,
                      files=files, extra=("-fp", "1") if dump else ())      # fixed fingerprints: reproducible node ids in the dump
    if expect is None:
        chk.tlc(res)
        if res["error_kind"]:
            tlc.machinery_failure("design model Router/%s violates %s\n%s" % (name, res["error"], res["output"][-3000:]))
    else:
        if res["error"] not in expect and res["error_kind"] not in ("invariant", "action_property", "property", "temporal", "assert"):
            tlc.machinery_failure("sanity: Router/%s should violate %s, got %r\n%s" % (name, expect, res["error"], res["output"][-2000:]))
        chk.extra.setdefault("sanity", []).append("Router/%s violates %s as expected (vacuity check of the invariant)" % (name, res["error"]))
    return res


# ---- topologies (test inputs) ---------------------------------------------------------------------------------------
def mk_topo(routers, pats, rmac=lambda k, p: 10 + k):
    """same construction as MkTopo of MC_Router.tla: stations network by network, then the routers"""
    nodes = []
    for l, p in enumerate(pats, 1):
        for j, kn in enumerate(p, 1):
            nodes.append({"ads": [{"lan": l, "net": l if kn else 0, "mac": j}], "app": True})
    for k, r in enumerate(routers, 1):
        nodes.append({"ads": [{"lan": x, "net": x, "mac": rmac(k, p)} for p, x in enumerate(r, 1)], "app": False})
    return {"nodes": nodes}


K, U, KU = [True], [False], [True, False]
LINE3 = mk_topo([[1, 2], [2, 3]], [K, K, KU])
TEE = mk_topo([[1, 2, 3], [3, 4]], [K, U, K, U])
TRIANGLE = mk_topo([[1, 2], [2, 3], [3, 1]], [KU, K, U])
PARALLEL = mk_topo([[1, 2], [1, 2]], [KU, K])
SQUARE = mk_topo([[1, 2], [2, 3], [3, 4], [4, 1]], [K, U, K, U])
RING5 = mk_topo([[1, 2], [2, 3], [3, 4], [4, 5], [5, 1]], [K, U, KU, U, K])
THETA = mk_topo([[1, 2], [1, 2], [2, 3], [3, 1]], [K, KU, U])
LOLLIPOP = mk_topo([[1, 2], [2, 3], [3, 4], [4, 2]], [K, U, K, U])
LOLLIPOP2 = mk_topo([[1, 2], [2, 3, 4], [3, 4], [4, 5]], [KU, U, K, U, K])
PARALLEL3 = mk_topo([[1, 2], [2, 1], [1, 2]], [K, U])


def random_tree(rng, nn=None, max_ports=4, max_st=3, reuse_macs=False):
    nn = nn or rng.randint(2, 8)
    order = list(range(1, nn + 1))
    rng.shuffle(order)
    connected, rest, routers = [order[0]], order[1:], []
    while rest:
        k = min(len(rest), rng.randint(1, max_ports - 1))
        ports = [rng.choice(connected)] + [rest.pop() for _ in range(k)]
        rng.shuffle(ports)
        routers.append(ports)
        connected += [p for p in ports if p not in connected]
    pats = [[rng.random() < 0.6 for _ in range(rng.randint(1, max_st))] for _ in range(nn)]
    t = mk_topo(routers, pats, rmac=lambda k, p: 20 + 5 * k + p)
    if reuse_macs:
        # station addresses are local to a network: give every router port the smallest address still free on its LAN, so that
        # it coincides with station addresses on other networks (a frame for 3:2 passes a router whose port on net 2 is station 2)
        used = {}
        for nd in t["nodes"]:
            if nd["app"]:
                used.setdefault(nd["ads"][0]["lan"], set()).add(nd["ads"][0]["mac"])
        for nd in t["nodes"]:
            if not nd["app"]:
                for a in nd["ads"]:
                    m = 1
                    while m in used.setdefault(a["lan"], set()):
                        m += 1
                    a["mac"] = m
                    used[a["lan"]].add(m)
    rng.shuffle(t["nodes"])             # creation order = order on the LANs
    return t


def stations(topo):
    return [n for n, nd in enumerate(topo["nodes"], 1) if nd["app"]]


def st_info(topo, n):
    a = topo["nodes"][n - 1]["ads"][0]
    return a["lan"], a["mac"], a["net"] != 0


def combos(topo, src, rng, ghost=False):
    """one (kind, dnet, dmac) per destination kind that applies to this source"""
    lan, mac, knows = st_info(topo, src)
    others = [s for s in stations(topo) if s != src]
    same = [s for s in others if st_info(topo, s)[0] == lan]
    far = [s for s in others if st_info(topo, s)[0] != lan]
    nl = max(a["lan"] for nd in topo["nodes"] for a in nd["ads"])
    out = [("lb", 0, 0), ("gb", 0, 0)]
    if same:
        out.append(("ls", 0, st_info(topo, rng.choice(same))[1]))
        if knows:
            out.append(("rs", lan, st_info(topo, rng.choice(same))[1]))
    if far:
        d = rng.choice(far)
        out.append(("rs", st_info(topo, d)[0], st_info(topo, d)[1]))
    out.append(("rb", rng.choice([l for l in range(1, nl + 1) if l != lan]), 0))
    if knows:
        out.append(("rb", lan, 0))
    if ghost:
        out.append(("rb", nl + 1, 0))
    return out


def bfs_seed(topo):
    """next-hop tables for a (cyclic) internetwork: test input for the termination runs (any cache content is a legal
    start state of Router.tla); per node, on the port(s) nearest to the destination, the first router that is closer"""
    nodes = topo["nodes"]
    nl = max(a["lan"] for nd in nodes for a in nd["ads"])
    routers = [(n, nd) for n, nd in enumerate(nodes, 1) if len(nd["ads"]) > 1]
    dist = {}
    for d in range(1, nl + 1):
        dist[d] = {d: 0}
        frontier = [d]
        while frontier:
            nxt = []
            for l in frontier:
                for n, nd in routers:
                    ls = [a["lan"] for a in nd["ads"]]
                    if l in ls:
                        for l2 in ls:
                            if l2 not in dist[d]:
                                dist[d][l2] = dist[d][l] + 1
                                nxt.append(l2)
            frontier = nxt
    out = []
    for n, nd in enumerate(nodes, 1):
        entries = []
        mine = [a["lan"] for a in nd["ads"]]
        for d in range(1, nl + 1):
            if d in mine:
                continue
            best = min(dist[d].get(l, 999) for l in mine)
            for a in nd["ads"]:
                s = a["lan"]
                if dist[d].get(s, 999) != best or best >= 999:
                    continue
                for r, rd in routers:
                    if r == n or s not in [x["lan"] for x in rd["ads"]]:
                        continue
                    via = min([dist[d].get(x["lan"], 999) for x in rd["ads"] if x["lan"] != s] or [999])
                    if via + 1 == best:
                        entries.append([a["net"], d, [x["mac"] for x in rd["ads"] if x["lan"] == s][0]])
                        break
        out.append(entries)
    return out


# ---- recording ------------------------------------------------------------------------------------------------------
KEEP_ON_LIVELOCK = 120      # events of a run that exhausted its step budget handed to TLC (the verdict is Terminates anyway)


LIVELOCKS = [0]
MAX_LIVELOCKS = 10          # after that many runs without end the remaining generation is skipped (the check fails anyway)


def mk_trace(rig, evs, cache0, pend0, tree, livelock, meta):
    if livelock:
        evs = evs[:KEEP_ON_LIVELOCK]
        LIVELOCKS[0] += 1
    return dict(tree=tree, livelock=livelock, topo=rig.topo, cache0=cache0, pend0=pend0, evs=evs, meta=meta,
                script=[["Send", e["node"], e["k"], e["dnet"], e["dmac"], e["hops"], e["re"]] if e["n"] == "Send"
                        else ["Rx", e["l"], e["i"]] for e in evs])


def run_messages(topo, sends, order, rng, tree=True, cache0=None, replies="all", budget=1500, meta=None, seg=None):
    """fresh stacks; each send runs to quiescence, then recipients answer to the shown source (one at a time).
    Returns a list of traces (one, or several segments when seg is given)."""
    import routerrig
    rig = routerrig.Rig(topo, cache0=cache0)
    traces = []
    seg_cache0, seg_pend0 = rig.cache0, rig.pend0
    livelock = False
    nseg = 0

    def cut():
        nonlocal seg_cache0, seg_pend0, nseg
        if rig.evs:
            traces.append(mk_trace(rig, rig.evs, seg_cache0, seg_pend0, tree, livelock, dict(meta or {}, order=order, segment=nseg)))
        nseg += 1
        rig.evs = []
        n = len(topo["nodes"])
        seg_cache0 = [rig.proj_cache(i) for i in range(1, n + 1)]
        seg_pend0 = [rig.proj_pend(i) for i in range(1, n + 1)]
        for i in rig.up:
            rig.up[i] = []
        rig.nmsgs = 0
        rig.hops = {}
        rig._snap = rig._snapshot()

    for idx, grp in enumerate(sends):
        grp = grp if isinstance(grp, list) else [grp]          # a list = a burst: submitted back to back
        mids = []
        for (src, k, dnet, dmac, hops) in grp:
            rig.send(src, k, dnet, dmac, hops)
            mids.append(rig.nmsgs)
        if not rig.run(order, rng, budget):
            livelock = True
            break
        rcpts = [(s, j + 1) for s in sorted(rig.up) for j, e in enumerate(rig.up[s]) if e["id"] in mids]
        if replies == "one" and rcpts:
            rcpts = [rng.choice(rcpts)]
        elif replies == "none":
            rcpts = []
        for s, j in rcpts:
            rig.reply(s, j)
            if not rig.run(order, rng, budget):
                livelock = True
                break
        if livelock:
            break
        if seg and (idx + 1) % seg == 0 and not any(rig.proj_pend(i) for i in rig.nsap):
            cut()
    cut()
    return traces


def run_script(topo, cache0, script, tree, meta):
    import routerrig
    rig = routerrig.Rig(topo, cache0=cache0)
    stopped = rig.run_script(script)
    t = mk_trace(rig, rig.evs, rig.cache0, rig.pend0, tree, False, meta)
    t["stopped"] = stopped
    return t


# ---- validation -----------------------------------------------------------------------------------------------------
TRACE_CONSTS = consts(topos="TraceTopos", order="rcv", maxsteps=1000000, modes=("cold",), replies=False, ghost=False,
                      kinds=[], mc=False)


def _validate_file(args):
    path, n = args
    res = tlc.run_tlc("Trace_Router", cfg_text=cfg_text(TRACE_CONSTS, spec="TSpec"), workers=2, timeout=3000,
                      env={"TRACE_FILE": path}, name="Trace_Router", heap="3g")
    return path, n, res


def validate(chk, traces, on_verdict, per_file=400):
    for i, t in enumerate(traces):
        t["tid"] = i + 1
    wd = tlc.workdir("trrouter")
    try:
        jobs = []
        # balance the files by number of events
        files = [[]]
        nbytes = 0
        for t in traces:
            line = json.dumps({"tid": t["tid"], "tree": t["tree"], "livelock": t["livelock"], "nodes": t["topo"]["nodes"],
                               "lans": t["topo"]["lans"], "cache0": t["cache0"], "pend0": t["pend0"], "evs": t["evs"]})
            if files[-1] and (len(files[-1]) >= per_file or nbytes + len(line) > 4000000):
                files.append([])
                nbytes = 0
            files[-1].append(line)
            nbytes += len(line)
        for k, lines in enumerate(files):
            if not lines:
                continue
            p = os.path.join(wd, "traces_%d.ndjson" % k)
            with open(p, "w") as f:
                f.write("\n".join(lines) + "\n")
            jobs.append((p, len(lines)))
        nw = max(1, min(6, int(os.environ.get("VERIF_TLC_WORKERS", "16")) // 2))
        with cf.ThreadPoolExecutor(max_workers=nw) as ex:
            results = list(ex.map(_validate_file, jobs))
    finally:
        shutil.rmtree(wd, ignore_errors=True)
    bytid = {t["tid"]: t for t in traces}
    for path, n, res in results:
        if res["error_kind"] or not res["finished"]:
            tlc.machinery_failure("trace validation failed: %s\n%s" % (res["error"], res["output"][-3000:]))
        vs = tlc.printed_values(res["output"])
        if len(vs) != n:
            tlc.machinery_failure("trace validation returned %d verdicts for %d traces\n%s" % (len(vs), n, res["output"][-3000:]))
        chk.extra["trace_validation_states"] = chk.extra.get("trace_validation_states", 0) + res["distinct"]
        for v in vs:
            on_verdict(bytid[v["tid"]], v)
    chk.extra["trace_validation_runs"] = chk.extra.get("trace_validation_runs", 0) + len(jobs)


def deliveries(t):
    """per message id: {node: times handed up} (reporting only)"""
    last = {}
    for e in t["evs"]:
        last[e["node"]] = e["up"]
    out = collections.defaultdict(dict)
    for n, ups in last.items():
        for u in ups:
            out[u["id"]][n] = out[u["id"]].get(n, 0) + 1
    return {k: v for k, v in out.items()}


def sends_of(t):
    return [e for e in t["evs"] if e["n"] == "Send"]


def culprit(t, mon, pos):
    """the message a failing monitor is about (for the signature): the message of the frame being processed, or the
    first message whose deliveries differ from the addressed stations"""
    ss = sends_of(t)
    ev = t["evs"][pos - 1]
    mid = 0
    if mon in ("HopDecrement", "NeverBackOnArrivalNet", "NoDuplicate", "NotToOthers") and ev["n"] == "Rx":
        mid = ev["f"]["id"] or (ev["tx"][0]["f"]["id"] if ev["tx"] else 0)
    if not mid:
        want_kinds = {"ExactlyOnce.unicast": ("ls", "rs"), "ExactlyOnce.remote_broadcast": ("rb",),
                      "ExactlyOnce.global_broadcast": ("gb",), "ExactlyOnce.local_broadcast": ("lb",)}.get(mon)
        nsent = sum(1 for e in t["evs"][:pos] if e["n"] == "Send")
        for i in range(nsent, 0, -1):
            m = ss[i - 1]
            if mon == "ReplyRoutable" and m["re"]:
                mid = i
                break
            if want_kinds and not m["re"] and m["k"] in want_kinds:
                mid = i
                break
        mid = mid or nsent
    m = ss[mid - 1] if 0 < mid <= len(ss) else None
    return mid, m


def on_verdict_factory(chk, part):
    def onv(t, v):
        bad = False
        replay = {"topo": {"nodes": t["topo"]["nodes"]}, "cache0": t["cache0"], "script": t["script"], "tree": t["tree"],
                  "meta": t["meta"]}
        fails = sorted(v["viol"]) + [(m, len(t["evs"])) for m in sorted(v["final"]) if m == "Terminates"]
        for mon, pos in fails:
            if mon not in MONITORS:
                continue
            mid, m = culprit(t, mon, max(1, min(pos, len(t["evs"])))) if t["evs"] else (0, None)
            sig = {"topology": "tree" if t["tree"] else "cyclic", "kind": m["k"] if m else None, "reply": bool(m and m["re"]),
                   "src_knows_net": bool(m and st_info(t["topo"], m["node"])[2]), "low_hops": bool(m and m["hops"] != 255),
                   "cache": t["meta"].get("cache")}
            ev = t["evs"][min(pos, len(t["evs"])) - 1] if t["evs"] else None
            detail = {"part": part, "message": {k: m[k] for k in ("node", "k", "dnet", "dmac", "hops", "re")} if m else None,
                      "message_id": mid, "step": pos, "event": {k: ev[k] for k in ("n", "node", "ai", "l", "f", "tx", "exc")} if ev else None,
                      "handed_up": deliveries(t).get(mid), "missing": sorted(v.get("missing", []))[:10],
                      "stations": {n: st_info(t["topo"], n) for n in stations(t["topo"])},
                      "routers": [[a["lan"] for a in nd["ads"]] for nd in t["topo"]["nodes"] if not nd["app"]]}
            bad |= chk.violation(mon.split(".")[0], sig, detail, replay)
        excs = [e["exc"] for e in t["evs"] if e["exc"]]
        if v["rej"] and not bad:
            ev = t["evs"][v["rej"] - 1]
            chk.deviation({"part": part, "meta": t["meta"], "step": v["rej"], "event": {k: ev[k] for k in ("n", "node", "ai", "l", "i", "f", "tx", "cache", "pend", "up", "oth", "exc")},
                           "nodes": t["topo"]["nodes"], "script": t["script"][:v["rej"]], "cache0": t["cache0"]})
        elif excs and not bad:
            chk.deviation({"part": part, "what": "exception inside the code under test", "exc": excs[:3], "meta": t["meta"]})
        if "NotQuiescentAtEnd" in v["final"] and part == "T" and not bad:
            chk.deviation({"part": part, "what": "run ended but the model is not quiescent", "meta": t["meta"]})
        if not v["rej"] and not v["viol"] and "Terminates" not in v["final"]:
            chk.traces_validated += 1
        # vacuity accounting: how often each monitor's antecedent was exercised
        ss = sends_of(t)
        chk.monitor("HopDecrement", sum(1 for e in t["evs"] if e["n"] == "Rx" and e["f"]["t"] == "app" and e["f"]["dk"] != "none" and any(x["f"]["t"] == "app" for x in e["tx"])))
        chk.monitor("NeverBackOnArrivalNet", sum(1 for e in t["evs"] if e["n"] == "Rx" and any(x["f"]["t"] == e["f"]["t"] for x in e["tx"])))
        chk.monitor("Terminates")
        if t["tree"]:
            for m in ss:
                if m["re"]:
                    chk.monitor("ReplyRoutable")
                elif m["hops"] == 255:
                    chk.monitor("ExactlyOnce." + {"ls": "unicast", "rs": "unicast", "rb": "remote_broadcast", "gb": "global_broadcast", "lb": "local_broadcast"}[m["k"]])
            chk.monitor("NotToOthers", len(ss))
            chk.monitor("NoDuplicate", len(ss))
    return onv


# ---- R: TLC behaviours forced on the rig ------------------------------------------------------------------------------
def graph_traces(chk, name, topos, c, invs, tree, limit=None, rng=None):
    gen = "---- MODULE MCR_Router ----\nEXTENDS Router\ngenTopos == %s\n====\n" % tla([{"nodes": t["nodes"], "lans": lans_of(t)} for t in topos])
    wd = tlc.workdir("dot")
    dot = os.path.join(wd, "g")
    try:
        run_mc(chk, name, c, invs, dump=dot, module="MCR_Router", files={"MCR_Router.tla": gen})
        nodes, edges, _ = tlaval.parse_dot(dot + ".dot")
    finally:
        shutil.rmtree(wd, ignore_errors=True)
    inits = sorted(n for n, st in nodes.items() if st["act"]["n"] == "Init")
    root = "__root__"
    nodes[root] = None
    walks = edge_cover(nodes, sorted(edges) + [(root, i) for i in inits], root)      # sorted: the dump order varies with TLC's workers
    if limit and len(walks) > limit:
        rng.shuffle(walks)
        walks = walks[:limit]
    traces = []
    for w in walks:
        st0 = nodes[w[0]]
        ti = st0["ti"]
        cache0 = [sorted(list(e) for e in c_) for c_ in seqval(st0["cache"])]
        script = []
        for v in w[1:]:
            a = nodes[v]["act"]
            if a["n"] == "Send":
                m = a["m"]
                script.append(["Send", a["node"], m["k"], m["dnet"], m["dmac"], m["hops"], m["re"]])
            else:
                script.append(["Rx", a["l"], a["i"]])
        t = run_script(topos[ti - 1], cache0, script, tree, {"part": "R", "config": name, "ti": ti, "cache": "warm" if any(cache0) else "cold"})
        if t["stopped"] is not None:
            chk.deviation({"what": "spec step not enabled in the implementation", "config": name, "script": script[:t["stopped"] + 1]})
        traces.append(t)
        chk.case(("R", name, ti, json.dumps(script)), nontrivial=len(script) > 1)
    chk.extra.setdefault("replay", []).append({"config": name, "graph_nodes": len(nodes) - 1, "graph_edges": len(edges),
                                               "walks_executed_on_impl": len(walks), "steps": sum(len(t["evs"]) for t in traces)})
    return traces


def seqval(v):
    if isinstance(v, dict):
        return [v[k] for k in sorted(v)]
    return list(v)


def lans_of(topo):
    """LAN order when the nodes are created in list order (what routerrig does; it reports the actual order back)"""
    nl = max(a["lan"] for nd in topo["nodes"] for a in nd["ads"])
    return [[[n, ai] for n, nd in enumerate(topo["nodes"], 1) for ai, a in enumerate(nd["ads"], 1) if a["lan"] == l]
            for l in range(1, nl + 1)]


# ---- main -----------------------------------------------------------------------------------------------------------
def main(tier, seed):
    chk = Check("C06", tier, seed)
    rng = random.Random(seed)
    thorough = tier == "thorough"
    chk.rule = ("model: every interleaving of receiver-copy deliveries of Router.tla on every internetwork of the family x cold/warm x "
                "(source, kind, destination) x reply; implementation: one evaluation = one message (or reply) submitted to REAL "
                "NetworkServiceAccessPoint stacks on vlan.Networks and run to quiescence, every step validated by TLC against Router.tla; "
                "distinct = (topology, cache state, source, kind, destination, hop count, delivery order); non-trivial = crosses at "
                "least one router or is a broadcast")
    chk.assumptions = [
        "the medium is the harness: a frame handed to a vlan.Node reaches vlan.Network.process_pdu through the library's own zero-delay "
        "task; the rig's Network subclass selects the receivers exactly as vlan.Network does and parks one copy per receiver; copies of "
        "one LAN are delivered FIFO per receiver (any interleaving across receivers and LANs)",
        "stations = NetworkServiceAccessPoint with one adapter bound as (net or None, address) + NetworkServiceElement with start-up "
        "broadcasts disabled + capturing application element; routers = one NSAP with 2..4 adapters and no application; "
        "Network-Number-Is learning is not exercised (a station that does not know its number never learns it)",
        "a station that does not know its own network number addresses its own network only with local addresses (it cannot name it)",
        "messages are submitted one at a time at quiescence; a network that does not exist is addressed only in the model and in the R part",
        "delivery clauses (ExactlyOnce, NotToOthers, NoDuplicate, ReplyRoutable) are judged on loop-free internetworks with the library's "
        "hop count 255; on internetworks with a cycle only Terminates / HopDecrement / NeverBackOnArrivalNet are judged, for traffic that "
        "needs no path discovery (global broadcasts; remote traffic over seeded next-hop tables): Who-Is-Router / I-Am-Router carry no hop "
        "count and circulate forever on a cycle in model and code alike (recorded under extra.observations, outside the property's "
        "hop-count clause)",
        "hop counts other than 255 are injected where the NPDU leaves the station's adapter (the library always starts at 255)"]
    import time
    marks = [("start", time.time())]
    # ---- D ----
    run_mc(chk, "trees<=3_allpats_lan", consts(maxnets=3, pats="all", shapes="all"), INVS_TREE)
    run_mc(chk, "trees<=3_few_rcv", consts(maxnets=3, pats="few", shapes="all", order="rcv"), INVS_TREE)
    run_mc(chk, "trees=4_canon_few_lan", consts(minnets=4, maxnets=4, pats="few", shapes="canon"), INVS_TREE)
    run_mc(chk, "trees<=3_burst", consts(maxnets=3, pats="few" if thorough else "one", shapes="all", burst=True), INVS_TREE)
    run_mc(chk, "trees<=3_lowhops", consts(maxnets=3, pats="one", shapes="all", hops=(0, 1, 2), replies=False), INVS_TREE)
    cyc = "mcCycBig" if thorough else "mcCyc"
    run_mc(chk, "cyclic_warm", consts(topos=cyc, hops=(0, 1, 2, 3), modes=("warm",), replies=False, ghost=False, maxsteps=200), INVS_CYC)
    run_mc(chk, "cyclic_cold_broadcast", consts(topos=cyc, hops=(0, 1, 2, 3), modes=("cold",), replies=False, ghost=False,
                                                kinds=["ls", "lb", "gb"], maxsteps=200), INVS_CYC)
    if thorough:
        run_mc(chk, "trees=4_all_few_lan", consts(minnets=4, maxnets=4, pats="few", shapes="all"), INVS_TREE)
        run_mc(chk, "trees=4_canon_allpats_lan", consts(minnets=4, maxnets=4, pats="all", shapes="canon"), INVS_TREE, timeout=1500)
        run_mc(chk, "trees=5_canon_few_lan_4ports", consts(minnets=5, maxnets=5, maxports=4, pats="few", shapes="canon"), INVS_TREE, timeout=1500)
        run_mc(chk, "trees=4_canon_one_rcv", consts(minnets=4, maxnets=4, pats="one", shapes="canon", order="rcv"), INVS_TREE, timeout=1500)
    # vacuity: each named deviation must violate its invariant; discovery on a cycle does not terminate (no hop count)
    small = dict(maxnets=3, pats="few", shapes="all")
    run_mc(chk, "dev_fanout_all", consts(dev="fanout_all", **small), INVS_TREE, expect=["NeverBackOnArrivalNet", "NoDuplicate"])
    run_mc(chk, "dev_no_decrement", consts(dev="no_decrement", **small), INVS_TREE, expect=["HopDecrement"])
    run_mc(chk, "dev_keep_dadr", consts(dev="keep_dadr", **small), INVS_TREE, expect=["UnicastExactlyOnce", "RemoteBroadcastExactlyOnce"])
    run_mc(chk, "dev_no_sadr", consts(dev="no_sadr", **small), INVS_TREE, expect=["ReplyRoutable"])
    run_mc(chk, "dev_no_decrement_cyclic", consts(topos="mcCyc", dev="no_decrement", hops=(2,), modes=("cold",), replies=False, ghost=False,
                                                  kinds=["gb"], maxsteps=200), ["Terminates"], expect=["Terminates"])
    run_mc(chk, "cyclic_cold_discovery", consts(topos="mcTri", modes=("cold",), replies=False, ghost=False, kinds=["rs"], maxsteps=40),
           ["Terminates"], expect=["Terminates"])
    marks.append(("D", time.time()))
    # ---- R ----
    traces = []
    traces += graph_traces(chk, "R_line3_tee", [LINE3, TEE], consts(topos="genTopos", mc=False), INVS_TREE, True,
                           limit=None if thorough else 500, rng=rng)
    traces += graph_traces(chk, "R_cyclic", [LOLLIPOP, PARALLEL], consts(topos="genTopos", mc=False, hops=(1, 2), modes=("warm",), replies=False,
                                                                       ghost=False, maxsteps=200), INVS_CYC, False,
                           limit=None if thorough else 150, rng=rng)
    marks.append(("R", time.time()))
    # ---- T ----
    ntopo = 120 if thorough else 16
    nmsg = 0
    for tno in range(ntopo):
        if LIVELOCKS[0] >= MAX_LIVELOCKS:
            break
        trng = random.Random(rng.randrange(1 << 30))
        nn = 2 + tno % 7
        topo = random_tree(trng, nn, reuse_macs=(tno % 3 == 2))
        if tno % 4 == 1:
            topo["router_apps"] = True          # the routers of this internetwork are devices as well
        sts = stations(topo)
        meta = {"part": "T", "topology": tno, "nets": nn, "stations": len(sts), "routers": len(topo["nodes"]) - len(sts),
                "macs_reused_across_networks": tno % 3 == 2}
        allc = [(s,) + c for s in sts for c in combos(topo, s, trng)]
        # (i) every combination from cold caches (fresh stacks), replies from every recipient
        cold = allc if thorough or len(allc) <= 60 else trng.sample(allc, 60)
        for (s, k, dnet, dmac) in cold:
            if LIVELOCKS[0] >= MAX_LIVELOCKS:
                break
            order = trng.choice(["fifo", "random"])
            sd = trng.randrange(1 << 30)
            ts = run_messages(topo, [(s, k, dnet, dmac, 255)], order, random.Random(sd), meta=dict(meta, cache="cold", rng=sd))
            traces += ts
            nmsg += 1
            chk.case(("T", tno, "cold", s, k, dnet, dmac, order), nontrivial=k != "ls")
        # (ii) all of them again, on stacks warmed by the traffic before (segments of 6 messages per trace)
        warm = list(allc)
        trng.shuffle(warm)
        if not thorough:
            warm = warm[:60]
        sd = trng.randrange(1 << 30)
        ts = run_messages(topo, [(s, k, dnet, dmac, 255) for (s, k, dnet, dmac) in warm + warm[:len(warm) // 2]], "random", random.Random(sd),
                          replies="one", meta=dict(meta, cache="warm", rng=sd), seg=6)
        traces += ts
        for (s, k, dnet, dmac) in warm:
            chk.case(("T", tno, "warm", s, k, dnet, dmac), nontrivial=k != "ls")
        # (ii') bursts: two or three messages submitted back to back (same source: parked behind one discovery; or
        #       different sources: concurrent discoveries), from cold caches
        for b in range(12 if thorough else 5):
            if LIVELOCKS[0] >= MAX_LIVELOCKS:
                break
            if b % 2 == 0:
                s0 = trng.choice(sts)
                pool = [c for c in allc if c[0] == s0 and c[1] in ("rs", "rb")] or [c for c in allc if c[0] == s0]
                grp = [trng.choice(pool) for _ in range(trng.randint(2, 3))]
            else:
                grp = [trng.choice(allc) for _ in range(trng.randint(2, 3))]
            sd = trng.randrange(1 << 30)
            traces += run_messages(topo, [[c + (255,) for c in grp]], "random", random.Random(sd), replies="one",
                                   meta=dict(meta, cache="cold", rng=sd, burst=len(grp)))
            chk.case(("T", tno, "burst", tuple(grp)), nontrivial=True)
        # (ii'') concurrent discoveries of the SAME network: two stations (of one LAN where the topology has two) ask for a
        #        path at the same moment -- every answer is heard by both, whatever is parked must go out once
        remote = [c for c in allc if c[1] in ("rs", "rb")]
        pairs = []
        for c1 in remote:
            for c2 in remote:
                if c1[0] < c2[0] and c1[2] == c2[2]:
                    same_lan = st_info(topo, c1[0])[0] == st_info(topo, c2[0])[0]
                    pairs.append((0 if same_lan else 1, c1, c2))
        trng.shuffle(pairs)
        pairs.sort(key=lambda x: x[0])
        for _, c1, c2 in pairs[:(10 if thorough else 4)]:
            if LIVELOCKS[0] >= MAX_LIVELOCKS:
                break
            sd = trng.randrange(1 << 30)
            traces += run_messages(topo, [[c1 + (255,), c2 + (255,)], [c1 + (255,)]], "random", random.Random(sd), replies="one",
                                   meta=dict(meta, cache="cold", rng=sd, burst=2, same_net=True))
            chk.case(("T", tno, "same-net", c1, c2), nontrivial=True)
        # (iii) injected low hop counts
        low = [(s, k, dnet, dmac, h) for (s, k, dnet, dmac) in trng.sample(allc, min(len(allc), 12 if thorough else 6))
               if k in ("gb", "rs", "rb") for h in (0, 1, 2)]
        for snd in low:
            sd = trng.randrange(1 << 30)
            traces += run_messages(topo, [snd], "random", random.Random(sd), replies="none", meta=dict(meta, cache="cold", rng=sd, hops=snd[4]))
            chk.case(("T", tno, "low") + snd, nontrivial=True)
    # (iv) internetworks with a cycle: termination under injected low hop counts
    cycs = [("triangle", TRIANGLE), ("parallel", PARALLEL), ("lollipop", LOLLIPOP)] + (
        [("square", SQUARE), ("ring5", RING5), ("theta", THETA), ("parallel3", PARALLEL3), ("lollipop2", LOLLIPOP2)] if thorough else [("theta", THETA)])
    for cname, topo in cycs:
        if LIVELOCKS[0] >= 2 * MAX_LIVELOCKS:
            break
        seedtab = bfs_seed(topo)
        for s in stations(topo):
            for (k, dnet, dmac) in combos(topo, s, rng):
                for h in ((0, 1, 2, 3, 5) if thorough else (1, 3)):
                    for cache in ("warm", "cold"):
                        if cache == "cold" and k in ("rs", "rb") and dnet != st_info(topo, s)[0]:
                            continue        # needs discovery: see assumptions
                        sd = rng.randrange(1 << 30)
                        traces += run_messages(topo, [(s, k, dnet, dmac, h)], rng.choice(["fifo", "random"]), random.Random(sd), tree=False,
                                               cache0=seedtab if cache == "warm" else None, replies="none", budget=3000,
                                               meta={"part": "T", "topology": cname, "cache": cache, "rng": sd, "hops": h})
                        chk.case(("T", cname, cache, s, k, dnet, dmac, h), nontrivial=True)
    # observation (outside the property): path discovery on a cycle
    obs = run_messages(TRIANGLE, [(1, "rs", 3, 1, 255)], "fifo", rng, tree=False, replies="none", budget=20000, meta={})
    LIVELOCKS[0] = 0
    chk.extra["observations"] = [{"what": "cold remote unicast on the triangle internetwork (outside the property's hop-count clause): the unicast is "
                                          "delivered, but the I-Am-Router-To-Network re-broadcasts (no hop count) keep circulating; run stopped by the "
                                          "step budget", "budget": 20000, "budget_exhausted": any(t["livelock"] for t in obs),
                                  "delivered": sorted(n for t in obs for e in t["evs"] if e["up"] for n in [e["node"]])[:3]}]
    chk.sample({"part": traces[-1]["meta"], "routers": [[a["lan"] for a in nd["ads"]] for nd in traces[-1]["topo"]["nodes"] if not nd["app"]],
                "script": traces[-1]["script"][:30]})
    chk.sample({"part": traces[0]["meta"], "script": traces[0]["script"][:30]})
    mid = traces[len(traces) // 2]
    chk.sample({"part": mid["meta"], "events": [(e["n"], e["node"], e["l"], e["f"]["t"], [(x["lan"], x["f"]["t"], x["f"]["dk"], x["f"]["hops"]) for x in e["tx"]])
                                                for e in mid["evs"][:25]]})
    chk.extra["implementation_steps"] = sum(len(t["evs"]) for t in traces)
    chk.extra["messages_incl_replies"] = sum(len(sends_of(t)) for t in traces)
    marks.append(("T", time.time()))
    validate(chk, traces, lambda t, v: on_verdict_factory(chk, t["meta"].get("part", "T"))(t, v))
    marks.append(("validate", time.time()))
    chk.extra["phase_wall_s"] = {marks[i][0]: round(marks[i][1] - marks[i - 1][1], 1) for i in range(1, len(marks))}
    return chk.finish()


def replay(path):
    body = json.load(open(path))
    rp = body["replay"]
    chk = Check("C06", "quick", body.get("seed", 0))
    t = run_script(rp["topo"], rp["cache0"], rp["script"], rp["tree"], rp.get("meta", {}))
    for e in t["evs"]:
        print(e["n"], "node=%d" % e["node"], "lan=%d" % e["l"], {k: v for k, v in e["f"].items() if v} if e["n"] == "Rx" else (e["k"], e["dnet"], e["dmac"], e["hops"], e["re"]),
              "->", [(x["lan"], {k: v for k, v in x["f"].items() if v}) for x in e["tx"]], "up=%s" % e["up"] if e["up"] else "", e["exc"])
    validate(chk, [t], on_verdict_factory(chk, "replay"))
    return chk.finish()
