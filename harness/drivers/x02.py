"""X02 -- dynamic device and object binding: Who-Is / I-Am / Who-Has / I-Have.   (spec/Binding.tla)

D  TLC on the model: MC_Binding_lan (a LAN with three devices, every interleaving of deliveries and receptions, up to
   MaxOps exchanges / mutations: Who-Is with ranges touching every instance from both sides and malformed ranges,
   Who-Has by identifier / by name with and without device range, unsolicited I-Am, foreign I-Ams good and
   inconsistent, add / delete / rename / re-identify) against AtMostOnce, OnlyJustified, Complete,
   ReplyReachesRequester, KnownWellFormed, BindingEstablished, ObjectsStayWF; each named deviation (exclusive high
   limit, Who-Has without range test, client learns unchecked I-Ams) must make a monitor fail (vacuity check).
   MC_Binding checks facts about the operators on every grid case (malformed is silent, limits inclusive, widening a
   range never loses an answer, an I-Have names an object the device holds, effect of an I-Am on the client's view).
R  spec -> code: every case MC_Binding emits (Who-Is: all pairs of absent / 0 / i-1 / i / i+1 / 4194303 / 4194304 /
   2^31-1 for the instances 0, 1, 1000, 4194302, 4194303; Who-Has targets x device ranges; I-Am reception cases) is
   sent as a REAL request from a client stack to five real device stacks on one vlan (who_is() where the API takes it,
   request(WhoIsRequest / WhoHasRequest) otherwise, hand-encoded octets where the encoder refuses); the frames the
   devices hand to the medium are parsed from their octets by an independent parser (count per device, contents,
   destination) and compared with the TLC expectation; the recorded sessions go through Trace_Binding as well.
T  code -> spec: seeded random LANs (2-4 devices, random configurations and object tables) and random sessions
   (ranges around / at / beyond every instance, one limit missing, low > high, limits above 4194303, identifiers and
   names that exist in one / several / no device, other character sets, unicast / local / global broadcast, unsolicited
   I-Am, foreign I-Ams incl. inconsistent ones over the wire and handed to the application directly, object
   mutations between the queries), recorded event by event and validated by TLC (Trace_Binding: conformance with the
   Binding actions step by step + the monitors).
"""
import os, sys, json, random, shutil
from common import Check, Hang, watchdog
import tlc
import vtime

vt = vtime.install()
from bacpypes.comm import bind, Client
from bacpypes.pdu import Address, LocalBroadcast, GlobalBroadcast, PDU
from bacpypes.vlan import Network, Node
from bacpypes.app import Application
from bacpypes.appservice import StateMachineAccessPoint, ApplicationServiceAccessPoint
from bacpypes.netservice import NetworkServiceAccessPoint, NetworkServiceElement
from bacpypes.local.device import LocalDeviceObject
from bacpypes.local.object import WriteableObjectNameMixIn, WriteableObjectIdentifierMixIn
from bacpypes.service.device import WhoIsIAmServices, WhoHasIHaveServices
from bacpypes.object import (AnalogValueObject, BinaryValueObject, MultiStateValueObject, AnalogInputObject,
                             register_object_type)
from bacpypes.apdu import WhoIsRequest, IAmRequest, WhoHasRequest, WhoHasLimits, WhoHasObject

NONE = -1
MAXINST = 4194303
BIG = 2147483647
CLIENT_INSTANCE = 3999999
SEG = {"segmentedBoth": 0, "segmentedTransmit": 1, "segmentedReceive": 2, "noSegmentation": 3}
SEGNAME = {v: k for k, v in SEG.items()}
TYPECODE = {"analogInput": 0, "analogValue": 2, "binaryValue": 5, "device": 8, "multiStateValue": 19}
TYPENAME = {v: k for k, v in TYPECODE.items()}
MONITORS = ["AtMostOnce", "OnlyJustified", "Complete", "ReplyReachesRequester", "KnownWellFormed", "BindingEstablished",
            "ObjectsStayWF", "BadIAmNoEffect", "GoodIAmLearned", "IHaveNoEffect", "ClientSendsWellFormed"]


# ---- the real stacks (own code; nothing imported from the repository's tests) -------------------------------------------
@register_object_type(vendor_id=998)
class AV(WriteableObjectNameMixIn, WriteableObjectIdentifierMixIn, AnalogValueObject):
    pass


@register_object_type(vendor_id=998)
class BV(WriteableObjectNameMixIn, WriteableObjectIdentifierMixIn, BinaryValueObject):
    pass


@register_object_type(vendor_id=998)
class MSV(WriteableObjectNameMixIn, WriteableObjectIdentifierMixIn, MultiStateValueObject):
    pass


@register_object_type(vendor_id=998)
class AI(WriteableObjectNameMixIn, WriteableObjectIdentifierMixIn, AnalogInputObject):
    pass


OBJCLASS = {2: AV, 5: BV, 19: MSV, 0: AI}


class _NSE(NetworkServiceElement):
    _startup_disabled = True


class TapNode(Node):
    """a vlan node that tells the rig what it hands to the medium and what arrives"""

    def __init__(self, addr, vlan, rig, role, idx=0):
        self.rig, self.role, self.idx = rig, role, idx
        Node.__init__(self, Address(addr), vlan)

    def indication(self, pdu):
        self.rig.on_tx(self, pdu)
        Node.indication(self, pdu)

    def response(self, pdu):
        self.rig.on_rx_begin(self, pdu)
        exc = None
        try:
            Node.response(self, pdu)
        except Exception as e:          # a stack that raises must not keep the vlan from serving the other stations
            exc = type(e).__name__
        self.rig.on_rx_end(self, pdu, exc)


class Stack(Application, WhoIsIAmServices, WhoHasIHaveServices):
    """Application + ASAP + SMAP + NSAP + NSE on a vlan node"""
    _startup_disabled = True

    def __init__(self, rig, role, idx, cfg, vlan):
        self.rig, self.role, self.idx = rig, role, idx
        self.ldo = LocalDeviceObject(objectName=cfg["name"], objectIdentifier=("device", cfg["inst"]),
                                     maxApduLengthAccepted=cfg["maxapdu"], segmentationSupported=SEGNAME[cfg["seg"]],
                                     vendorIdentifier=cfg["vendor"])
        Application.__init__(self, self.ldo)
        self.asap = ApplicationServiceAccessPoint()
        self.smap = StateMachineAccessPoint(self.ldo)
        self.smap.deviceInfoCache = self.deviceInfoCache
        self.nsap = NetworkServiceAccessPoint()
        self.nse = _NSE()
        bind(self.nse, self.nsap)
        bind(self, self.asap, self.smap, self.nsap)
        self.node = TapNode(cfg["addr"], vlan, rig, role, idx)
        self.nsap.bind(self.node)

    def indication(self, apdu):
        self.rig.on_app(self, apdu)
        Application.indication(self, apdu)


class ClientStack(Stack):
    """the way an application keeps track of its peers: the library validates the I-Am, then the cache is fed"""

    def do_IAmRequest(self, apdu):
        WhoIsIAmServices.do_IAmRequest(self, apdu)
        self.deviceInfoCache.iam_device_info(apdu)


class _Sink(Client):
    def confirmation(self, pdu):
        pass


# ---- rendering layer (trusted, dumb): abstract records <-> octets / API calls ----------------------------------------------
def be(n):
    out = []
    while True:
        out.insert(0, n & 255)
        n >>= 8
        if not n:
            return out


def ctx_unsigned(tag, v):
    b = be(v)
    return [(tag << 4) | 0x08 | len(b)] + b


def be4(v):
    return [(v >> 24) & 255, (v >> 16) & 255, (v >> 8) & 255, v & 255]


def ctx_objid(tag, t, i):
    return [(tag << 4) | 0x08 | 4] + be4((t << 22) | i)


def charstring_content(name, enc):
    if enc == 4:
        return [4] + list(name.encode("utf-16-be"))
    if enc == 5:
        return [5] + list(name.encode("latin-1"))
    return [0] + list(name.encode("utf-8"))


def tag_with_len(first, n):
    """first = tag octet without LVT"""
    if n <= 4:
        return [first | n]
    if n < 254:
        return [first | 5, n]
    return [first | 5, 254, n >> 8, n & 255]


def enc_whois(q):
    o = [0x10, 0x08]
    if q["lo"] != NONE:
        o += ctx_unsigned(0, q["lo"])
    if q["hi"] != NONE:
        o += ctx_unsigned(1, q["hi"])
    return o


def enc_whohas(q, enc=0):
    o = [0x10, 0x07]
    if q["lo"] != NONE:
        o += ctx_unsigned(0, q["lo"])
    if q["hi"] != NONE:
        o += ctx_unsigned(1, q["hi"])
    if q["by"] == "id":
        o += ctx_objid(2, q["t"], q["i"])
    else:
        c = charstring_content(q["n"], enc)
        o += tag_with_len(0x38, len(c)) + c
    return o


def enc_iam(m):
    o = [0x10, 0x00]
    if m["dt"] != NONE:
        o += [0xC4] + be4((m["dt"] << 22) | m["inst"])
    if m["maxapdu"] != NONE:
        b = be(m["maxapdu"])
        o += [0x20 | len(b)] + b
    if m["seg"] != NONE:
        b = be(m["seg"])
        o += [0x90 | len(b)] + b
    if m["vendor"] != NONE:
        b = be(m["vendor"])
        o += [0x20 | len(b)] + b
    return o


def wire_encodable(m):
    """a 22-bit instance is all the identifier field can carry"""
    return m["dt"] == NONE or (0 <= m["inst"] <= MAXINST and 0 <= m["dt"] < 1024)


def parse_tags(o):
    """independent tag parser -> list of (class 'a'|'c'|'open'|'close', number, content octets)"""
    out, i = [], 0
    while i < len(o):
        b = o[i]
        i += 1
        num, ctx, lvt = b >> 4, bool(b & 8), b & 7
        if num == 15:
            num = o[i]
            i += 1
        if ctx and lvt == 6:
            out.append(("open", num, []))
            continue
        if ctx and lvt == 7:
            out.append(("close", num, []))
            continue
        if not ctx and num == 1:                    # application boolean: the value sits in the LVT field
            out.append(("a", 1, [lvt]))
            continue
        n = lvt
        if lvt == 5:
            n = o[i]
            i += 1
            if n == 254:
                n = (o[i] << 8) | o[i + 1]
                i += 2
            elif n == 255:
                n = int.from_bytes(bytes(o[i:i + 4]), "big")
                i += 4
        if i + n > len(o):
            raise ValueError("truncated")
        out.append(("c" if ctx else "a", num, list(o[i:i + n])))
        i += n
    return out


def num(b):
    return int.from_bytes(bytes(b), "big")


def text(b):
    if not b:
        return None
    if b[0] == 0:
        return bytes(b[1:]).decode("utf-8")
    if b[0] == 4:
        return bytes(b[1:]).decode("utf-16-be")
    if b[0] == 5:
        return bytes(b[1:]).decode("latin-1")
    return None


def parse_frame(src, link_dst, octets):
    """what a sniffer sees: link addresses + NPCI + unconfirmed service -> frame record"""
    o = list(octets)
    other = {"svc": "other", "hex": bytes(o).hex()}
    try:
        if o[0] != 1:
            raise ValueError("version")
        ctl, i = o[1], 2
        dnet = None
        if ctl & 0x20:
            dnet = (o[i] << 8) | o[i + 1]
            dlen = o[i + 2]
            i += 3 + dlen
        if ctl & 0x08:
            i += 3 + o[i + 2]
        if ctl & 0x20:
            i += 1
        if dnet is not None:
            dst = {"k": "gb", "a": 0} if dnet == 0xFFFF and link_dst is None else {"k": "r", "a": dnet}
        elif link_dst is None:
            dst = {"k": "lb", "a": 0}
        else:
            dst = {"k": "u", "a": link_dst}
        if ctl & 0x80 or o[i] != 0x10:
            return {"src": src, "dst": dst, "msg": other}
        svc, tags = o[i + 1], parse_tags(o[i + 2:])
        shape = [(c, n, len(b)) for c, n, b in tags]
        if svc == 0 and [s[:2] for s in shape] == [("a", 12), ("a", 2), ("a", 9), ("a", 2)] and shape[0][2] == 4:
            v = num(tags[0][2])
            msg = {"svc": "iam", "dt": v >> 22, "inst": v & 0x3FFFFF, "maxapdu": num(tags[1][2]), "seg": num(tags[2][2]),
                   "vendor": num(tags[3][2])}
        elif svc == 1 and [s[:2] for s in shape] == [("a", 12), ("a", 12), ("a", 7)] and shape[0][2] == 4 and shape[1][2] == 4:
            v, w, n = num(tags[0][2]), num(tags[1][2]), text(tags[2][2])
            if n is None:
                return {"src": src, "dst": dst, "msg": other}
            msg = {"svc": "ihave", "dt": v >> 22, "inst": v & 0x3FFFFF, "t": w >> 22, "i": w & 0x3FFFFF, "n": n}
        else:
            msg = other
        for k, v in msg.items():
            if isinstance(v, int) and v > BIG:
                return {"src": src, "dst": dst, "msg": other}
        return {"src": src, "dst": dst, "msg": msg}
    except (IndexError, ValueError, UnicodeDecodeError):
        return {"src": src, "dst": {"k": "r", "a": 0}, "msg": other}


def station(addr):
    """Address -> station number | None for a broadcast"""
    if addr is None:
        return None
    if addr.addrType == Address.localBroadcastAddr:
        return None
    if addr.addrType == Address.localStationAddr and addr.addrAddr is not None and len(addr.addrAddr) == 1:
        return addr.addrAddr[0]
    return -2


def dest_address(to):
    if to["k"] == "lb":
        return LocalBroadcast()
    if to["k"] == "gb":
        return GlobalBroadcast()
    return Address(to["a"])


# ---- the rig: one LAN of real stacks, driven op by op, recorded event by event -------------------------------------------
class Rig:
    def __init__(self, lan, objs):
        vt.reset(0.0)
        self.lan = lan
        self.vlan = Network(broadcast_address=LocalBroadcast())
        self.client = ClientStack(self, "client", 0, dict(addr=lan["client"], inst=CLIENT_INSTANCE, name="x02-client",
                                                          maxapdu=1024, seg=3, vendor=998), self.vlan)
        self.devs = []
        for d, cfg in enumerate(lan["devs"], 1):
            st = Stack(self, "dev", d, cfg, self.vlan)
            self.devs.append(st)
            for ob in objs[d - 1]:
                st.add_object(OBJCLASS[ob["t"]](objectIdentifier=(TYPENAME[ob["t"]], ob["i"]), objectName=ob["n"]))
        self.rogues = {}
        self.evs = []
        self.req = {"kind": "none"}
        self.delivered, self.wire, self.got, self.ops = [], [], [], 0
        self.client_tx = 0
        self.cur = None           # frame being received by the client node
        self.inject = None        # abstract message of the frame a foreign node is about to send
        self.last_request = None
        self.notes = []
        vt.step_all()

    # -- projections
    def known(self):
        out = []
        for k, v in self.client.deviceInfoCache.cache.items():
            if isinstance(k, int) and not isinstance(k, bool):
                seg = v.segmentationSupported
                seg = SEG.get(seg, seg if isinstance(seg, int) and not isinstance(seg, bool) else -2)
                st = station(v.address) if isinstance(v.address, Address) else -2
                out.append({"inst": k, "addr": -2 if st is None else st, "maxapdu": intval(v.maxApduLengthAccepted),
                            "seg": seg, "vendor": intval(v.vendorID)})
        return sorted(out, key=lambda r: r["inst"])

    def objs(self):
        out = []
        for st in self.devs:
            lst = []
            for o in st.iter_objects():
                if o is st.localDevice:
                    continue
                t, i = o.objectIdentifier
                lst.append({"t": TYPECODE.get(t, t if isinstance(t, int) else -2), "i": i, "n": o.objectName})
            out.append(sorted(lst, key=lambda r: (r["t"], r["i"])))
        return out

    def st(self):
        return {"req": self.req, "delivered": sorted(self.delivered), "wire": [f["f"] for f in self.wire],
                "got": list(self.got), "known": self.known(), "objs": self.objs(), "ops": self.ops}

    def log(self, ev):
        ev["st"] = self.st()
        self.evs.append(ev)

    # -- taps
    def on_tx(self, node, pdu):
        dst = station(pdu.pduDestination)
        if node.role == "client":
            self.client_tx += 1
            self.last_request = bytes(pdu.pduData).hex()
            return
        src = node.address.addrAddr[0]
        if node.role == "rogue" and self.inject is not None:
            f = {"src": src, "dst": {"k": "u", "a": self.lan["client"]}, "msg": self.inject}      # what the harness injected
        else:
            f = parse_frame(src, dst, bytes(pdu.pduData))
        self.wire.append({"f": f, "octets": bytes(pdu.pduData), "src": src})

    def on_rx_begin(self, node, pdu):
        if node.role == "client":
            src = station(pdu.pduSource)
            k = next((j for j, w in enumerate(self.wire) if w["src"] == src and w["octets"] == bytes(pdu.pduData)), None)
            self.cur = {"k": k, "app": False}

    def on_app(self, stack, apdu):
        if stack.role == "client" and self.cur is not None:
            self.cur["app"] = True

    def on_rx_end(self, node, pdu, exc):
        if node.role == "dev":
            if node.idx not in self.delivered:
                self.delivered.append(node.idx)
                self.log({"op": "deliver", "d": node.idx, "exc": exc or ""})
            else:
                self.notes.append("device %d was handed a second frame in one exchange" % node.idx)
                self.log({"op": "deliver", "d": node.idx, "exc": exc or ""})
        elif node.role == "client":
            cur, self.cur = self.cur, None
            if cur["k"] is None:
                self.notes.append("the client received a frame nobody was seen sending")
                return
            w = self.wire.pop(cur["k"])
            if cur["app"]:
                self.got.append({"src": w["f"]["src"], "msg": w["f"]["msg"]})
                self.log({"op": "recv", "k": cur["k"] + 1, "exc": exc or ""})
            else:
                self.log({"op": "drop", "k": cur["k"] + 1, "exc": exc or ""})

    # -- operations
    def settle(self):
        with watchdog(10):
            vt.step_all(limit=2000)

    def open(self, req):
        self.req, self.delivered, self.got = req, [], []
        self.ops += 1

    def close(self):
        self.settle()
        # frames that never reached the client node stay in `wire`: Close is then not enabled (conformance) and the
        # monitors at close see what the client got
        self.log({"op": "close"})
        self.req, self.delivered, self.got, self.wire = {"kind": "none"}, [], [], []
        self.evs[-1]["st"].update(req=self.req, delivered=[], got=[])

    def do_query(self, op):
        q = op["q"]
        self.inject = None
        self.open(q)
        self.log({"op": "send", "q": q})
        sent = self.evs[-1]
        before = self.client_tx
        how = None
        sent["api"] = "n/a"
        addr = dest_address(q["to"])
        enc = op.get("enc", 0)
        try:
            if q["kind"] == "whois":
                try:
                    self.client.who_is(None if q["lo"] == NONE else q["lo"], None if q["hi"] == NONE else q["hi"], addr)
                    how = "who_is"
                    sent["api"] = "ok"
                except Exception as e:               # the API refuses it: a peer could still send it
                    if self.client_tx != before:
                        raise
                    sent["api"] = "refused"
                    kw = {}
                    if q["lo"] != NONE:
                        kw["deviceInstanceRangeLowLimit"] = q["lo"]
                    if q["hi"] != NONE:
                        kw["deviceInstanceRangeHighLimit"] = q["hi"]
                    self.client.request(WhoIsRequest(destination=addr, **kw))
                    how = "request after who_is raised " + type(e).__name__
            elif enc == 0:
                kw = {}
                if q["lo"] != NONE or q["hi"] != NONE:
                    lim = {}
                    if q["lo"] != NONE:
                        lim["deviceInstanceRangeLowLimit"] = q["lo"]
                    if q["hi"] != NONE:
                        lim["deviceInstanceRangeHighLimit"] = q["hi"]
                    kw["limits"] = WhoHasLimits(**lim)
                if q["by"] == "id":
                    ob = WhoHasObject(objectIdentifier=(TYPENAME.get(q["t"], q["t"]), q["i"]))
                else:
                    ob = WhoHasObject(objectName=q["n"])
                self.client.request(WhoHasRequest(destination=addr, object=ob, **kw))
                how = "request"
        except Exception as e:
            how = "raised " + type(e).__name__
        self.settle()
        if self.client_tx == before:
            # the client stack did not put anything on the wire (its encoder refuses the request): hand-encoded octets
            octets = enc_whois(q) if q["kind"] == "whois" else enc_whohas(q, enc)
            hdr = [1, 0x20, 0xFF, 0xFF, 0, 0xFF] if q["to"]["k"] == "gb" else [1, 0]
            link = LocalBroadcast() if q["to"]["k"] in ("lb", "gb") else Address(q["to"]["a"])
            self.client.node.indication(PDU(bytes(hdr + octets), destination=link))
            how = "raw (%s)" % how
        self.settle()
        sent["how"], sent["octets"] = how, self.last_request
        self.close()
        return how

    def do_ann(self, op):
        self.inject = None
        self.open({"kind": "ann", "d": op["d"]})
        self.devs[op["d"] - 1].i_am()
        self.settle_first_tx("ann", {"d": op["d"]})
        self.close()

    def settle_first_tx(self, name, fields):
        """the opening event is logged once the opening frame has been handed to the medium (wire = <<frame>>)"""
        ev = dict(op=name, **fields)
        self.log(ev)
        self.settle()

    def rogue_node(self, a):
        if a not in self.rogues:
            n = TapNode(a, self.vlan, self, "rogue")
            bind(_Sink(), n)
            self.rogues[a] = n
        return self.rogues[a]

    def do_rogue(self, op):
        a, m, via = op["a"], op["m"], op.get("via", "wire")
        self.open({"kind": "rogue", "a": a, "m": m})
        if via == "wire":
            self.inject = m
            self.rogue_node(a).indication(PDU(bytes([1, 0] + enc_iam(m)), destination=Address(self.lan["client"])))
            self.inject = None
            self.log({"op": "rogue", "a": a, "m": m, "via": via})
            self.close()
            return
        # handed to the application the way the ASAP does (Application.indication), source address set
        kw = {}
        if m["dt"] != NONE:
            kw["iAmDeviceIdentifier"] = (TYPENAME.get(m["dt"], m["dt"]), m["inst"])
        if m["maxapdu"] != NONE:
            kw["maxAPDULengthAccepted"] = m["maxapdu"]
        if m["seg"] != NONE:
            kw["segmentationSupported"] = SEGNAME.get(m["seg"], m["seg"])
        if m["vendor"] != NONE:
            kw["vendorID"] = m["vendor"]
        apdu = IAmRequest(**kw)
        apdu.pduSource = Address(a)
        f = {"src": a, "dst": {"k": "u", "a": self.lan["client"]}, "msg": m}
        self.wire.append({"f": f, "octets": b"", "src": a})
        self.log({"op": "rogue", "a": a, "m": m, "via": via})
        exc = None
        try:
            with watchdog(10):
                self.client.indication(apdu)
        except Exception as e:
            exc = type(e).__name__
        self.wire.pop()
        self.got.append({"src": a, "msg": m})
        self.log({"op": "recv", "k": 1, "exc": exc or ""})
        self.close()

    def do_mutate(self, op):
        d, mu = op["d"], op["mu"]
        app = self.devs[d - 1]
        self.ops += 1
        res = "ok"
        try:
            if mu["op"] == "add":
                app.add_object(OBJCLASS[mu["t"]](objectIdentifier=(TYPENAME[mu["t"]], mu["i"]), objectName=mu["n"]))
            else:
                ob = next((o for o in app.iter_objects() if o is not app.localDevice and
                           o.objectIdentifier == (TYPENAME[mu["t"]], mu["i"])), None)
                if ob is None:
                    res = "no such object"
                elif mu["op"] == "del":
                    app.delete_object(ob)
                elif mu["op"] == "rename":
                    ob.WriteProperty("objectName", mu["n"])
                elif mu["op"] == "reid":
                    ob.WriteProperty("objectIdentifier", (TYPENAME[mu["t"]], mu["j"]))
        except Exception as e:
            res = "refused: %s %s" % (type(e).__name__, e)
        self.log({"op": "mutate", "d": d, "mu": mu, "res": res})

    def run(self, ops):
        for op in ops:
            k = op["op"]
            if k == "query":
                self.do_query(op)
            elif k == "ann":
                self.do_ann(op)
            elif k == "rogue":
                self.do_rogue(op)
            elif k == "mutate":
                self.do_mutate(op)
        return self.evs


def intval(v):
    return v if isinstance(v, int) and not isinstance(v, bool) and -BIG <= v <= BIG else -2


HANGS = [0]


def run_session(sess):
    """-> session with evs (or hang=True)"""
    if HANGS[0] >= 3:
        return dict(sess, evs=[], hang=True)
    try:
        rig = Rig(sess["lan"], sess["objs"])
        rig.run(sess["ops"])
        out = dict(sess, evs=rig.evs, notes=rig.notes, known0=[])
        return out
    except (Hang, vtime.Livelock):
        HANGS[0] += 1
        return dict(sess, evs=[], hang=True)


# ---- verdicts ------------------------------------------------------------------------------------------------------------
class Reporter:
    """at most 3 replay files per distinct signature; everything is counted"""

    def __init__(self, chk):
        self.chk, self.n = chk, {}

    def __call__(self, monitor, sig, detail, replay):
        k = json.dumps([monitor, sig], sort_keys=True)
        self.n[k] = self.n.get(k, 0) + 1
        if self.n[k] <= 3:
            self.chk.violation(monitor, sig, detail, replay)
        self.chk.extra["violating_cases"] = self.chk.extra.get("violating_cases", 0) + 1


def limits_class(lo, hi):
    if lo == NONE and hi == NONE:
        return "none"
    if lo == NONE or hi == NONE:
        return "one-limit-missing"
    if lo > MAXINST or hi > MAXINST:
        return "limit>4194303"
    if lo > hi:
        return "low>high"
    return "range"


def iam_class(m):
    if any(m[k] == NONE for k in ("dt", "inst", "maxapdu", "seg", "vendor")):
        return "missing-parameter"
    if not 0 <= m["inst"] <= MAXINST:
        return "instance-out-of-range"
    if not 0 <= m["seg"] <= 3:
        return "bad-segmentation"
    return "good"


def op_of_step(sess, step):
    """the harness op that produced event number `step` (1-based) and the exchange it belongs to"""
    evs = sess["evs"]
    j = step - 1
    while j >= 0 and evs[j]["op"] not in ("send", "ann", "rogue", "mutate"):
        j -= 1
    return evs[j] if j >= 0 else {"op": "?"}


def signature(sess, monitor, step):
    ev = sess["evs"][step - 1]
    opener = op_of_step(sess, step)
    sig = {"exchange": opener["op"], "at": ev["op"]}
    if opener["op"] == "send":
        q = opener["q"]
        sig.update(service=q["kind"], limits=limits_class(q["lo"], q["hi"]), to=q["to"]["k"])
        if q["kind"] == "whohas":
            sig["by"] = q["by"]
        if q["kind"] == "whois" and limits_class(q["lo"], q["hi"]) == "range":
            # which devices sit exactly on a limit / just outside (what an off-by-one would hit)
            rel = set()
            for c in sess["lan"]["devs"]:
                for name, lim in (("low", q["lo"]), ("high", q["hi"])):
                    if c["inst"] == lim:
                        rel.add("inst=" + name)
                    elif c["inst"] == lim - 1 and name == "low":
                        rel.add("inst=low-1")
                    elif c["inst"] == lim + 1 and name == "high":
                        rel.add("inst=high+1")
            sig["edge"] = ",".join(sorted(rel)) or "-"
    elif opener["op"] == "rogue":
        sig.update(iam=iam_class(opener["m"]), via=opener.get("via", "wire"))
    elif opener["op"] == "mutate":
        sig.update(mutation=opener["mu"]["op"])
    return sig


def validate(chk, rep, sessions, label, timeout=900):
    """one TLC run over the recorded sessions; returns {tid: verdict}"""
    sessions = [s for s in sessions if not s.get("hang")]
    if not sessions:
        return {}
    wd = tlc.workdir("x02tr")
    tf = os.path.join(wd, "sessions.ndjson")
    try:
        with open(tf, "w") as f:
            for s in sessions:
                f.write(json.dumps({"tid": s["tid"], "lan": s["lan"], "objs": s["objs"], "known0": [],
                                    "evs": [strip(e) for e in s["evs"]]}) + "\n")
        res = tlc.run_tlc("Trace_Binding", cfg_file="Trace_Binding.cfg", env={"TRACE_FILE": tf}, workers=1, timeout=timeout,
                          name="Trace_Binding/" + label)
    finally:
        shutil.rmtree(wd, ignore_errors=True)
    if res["error_kind"] or not res["finished"]:
        tlc.machinery_failure("trace validation %s failed: %s\n%s" % (label, res["error"], res["output"][-3000:]))
    chk.tlc(res)
    verdicts = {v["tid"]: v for v in tlc.printed_values(res["output"])}
    if len(verdicts) != len(sessions):
        tlc.machinery_failure("trace validation %s: %d verdicts for %d sessions" % (label, len(verdicts), len(sessions)))
    chk.extra["trace_validation_states"] = chk.extra.get("trace_validation_states", 0) + res["distinct"]
    for s in sessions:
        v = verdicts[s["tid"]]
        viol = sorted(tuple(x) for x in v["viol"])
        for m, step in viol:
            sig = signature(s, m, step)
            ev = s["evs"][step - 1]
            detail = {"monitor": m, "step": step, "event": {k: ev[k] for k in ev if k != "st"},
                      "exchange": {k: x for k, x in op_of_step(s, step).items() if k != "st"},
                      "state_after": {k: ev["st"][k] for k in ("wire", "got", "known")},
                      "state_before": ({k: s["evs"][step - 2]["st"][k] for k in ("wire", "got", "known")} if step > 1 else {}),
                      "lan": s["lan"]}
            rep(m, sig, detail, {"lan": s["lan"], "objs": s["objs"], "ops": s["ops"]})
        if v["rej"] and not viol:
            ev = s["evs"][v["rej"] - 1]
            chk.deviation({"session": s["tid"], "step": v["rej"], "event": {k: ev[k] for k in ev if k != "st"},
                           "exchange": {k: x for k, x in op_of_step(s, v["rej"]).items() if k != "st"},
                           "post": ev["st"], "note": "the Binding action named by the event does not produce the logged state"})
        if not viol and not v["rej"]:
            chk.traces_validated += 1
    return verdicts


def strip(e):
    return {k: v for k, v in e.items() if k not in ("exc", "how", "res", "via", "octets")}


def count_monitors(chk, sess):
    """how often each monitor's antecedent was exercised (vacuity accounting)"""
    for e in sess["evs"]:
        if e.get("exc") and e["op"] in ("deliver", "drop"):
            # an exception that left a stack through its vlan node (information only: the decoder of an unconfirmed
            # request lets non-Reject exceptions through; on the library's vlan that would end the broadcast loop)
            d = chk.extra.setdefault("exceptions_leaving_a_stack", {})
            d[e["exc"]] = d.get(e["exc"], 0) + 1
        if e["op"] == "send" and e.get("api") in ("ok", "refused"):
            chk.monitor("ClientSendsWellFormed")
        elif e["op"] == "close":
            chk.monitor("Complete")
        elif e["op"] == "deliver":
            chk.monitor("OnlyJustified")
            chk.monitor("AtMostOnce")
        elif e["op"] in ("recv", "drop"):
            chk.monitor("ReplyReachesRequester")
    for op in sess["ops"]:
        if op["op"] == "rogue":
            chk.monitor("GoodIAmLearned" if iam_class(op["m"]) == "good" else "BadIAmNoEffect")
            chk.monitor("KnownWellFormed")
        elif op["op"] == "mutate":
            chk.monitor("ObjectsStayWF")
        elif op["op"] == "ann" or (op["op"] == "query" and op["q"]["kind"] == "whois"):
            chk.monitor("BindingEstablished")
        elif op["op"] == "query":
            chk.monitor("IHaveNoEffect")


def hang_violation(rep, sess):
    rep("Terminates", {"what": "session"}, {"what": "the code under test did not come to rest within 10 s", "ops": sess["ops"]},
        {"lan": sess["lan"], "objs": sess["objs"], "ops": sess["ops"]})


# ---- R: spec -> code ---------------------------------------------------------------------------------------------------
def canon(x):
    return json.dumps(x, sort_keys=True)


def observed(sess):
    """per device: messages received from it + destination of each, from the events of the (last) exchange"""
    n = len(sess["lan"]["devs"])
    per = [[] for _ in range(n)]
    dsts = []
    addr = {c["addr"]: d for d, c in enumerate(sess["lan"]["devs"])}
    closes = [j for j, e in enumerate(sess["evs"]) if e["op"] == "close"]
    start = closes[-2] + 1 if len(closes) > 1 else 0
    prev_wire = []
    for e in sess["evs"][start:]:
        if e["op"] in ("recv", "drop") and e["k"] - 1 < len(prev_wire):
            f = prev_wire[e["k"] - 1]
            if f["src"] in addr:
                if e["op"] == "recv":
                    per[addr[f["src"]]].append(f["msg"])
                dsts.append(f["dst"])
        prev_wire = e["st"]["wire"]
    return per, dsts


def grid(chk, rep, tier):
    wd = tlc.workdir("x02grid")
    out = os.path.join(wd, "grid.ndjson")
    sessions = []
    try:
        res = tlc.run_tlc("MC_Binding", cfg_file="MC_Binding.cfg", env={"OUT_FILE": out}, timeout=900, name="MC_Binding/grid")
        chk.tlc(res)
        if res["error_kind"] or not res["finished"]:
            tlc.machinery_failure("design model MC_Binding: %s\n%s" % (res["error"], res["output"][-2000:]))
        cases = [json.loads(json.loads(line)) for line in open(out)]
        if len(cases) != res["distinct"]:
            tlc.machinery_failure("MC_Binding emitted %d cases for %d states" % (len(cases), res["distinct"]))
    finally:
        shutil.rmtree(wd, ignore_errors=True)
    cases.sort(key=canon)
    per_kind = {}
    mismatches = []
    picked = {}
    for c in cases:
        q = c["q"]
        if q["kind"] in ("whois", "whohas"):
            per_kind[q["kind"]] = per_kind.get(q["kind"], 0) + 1
            s = run_session({"tid": len(sessions) + 1, "lan": c["lan"], "objs": c["objs"], "ops": [{"op": "query", "q": q}],
                             "case": c})
            sessions.append(s)
            if s.get("hang"):
                hang_violation(rep, s)
                continue
            got, dsts = observed(s)
            nontrivial = any(c["exp"]) or limits_class(q["lo"], q["hi"]) != "none"
            chk.case(("g", canon(q)), nontrivial=nontrivial, n=len(c["lan"]["devs"]))
            exp = [sorted(canon(m) for m in e) for e in c["exp"]]
            obs = [sorted(canon(m) for m in g) for g in got]
            if exp != obs:
                mismatches.append((s, {"expected": c["exp"], "got": got}))
            if q["kind"] not in picked and any(c["exp"]) and not all(c["exp"]) and limits_class(q["lo"], q["hi"]) == "range":
                picked[q["kind"]] = True
                chk.sample({"query": q, "how_sent": s["evs"][0].get("how"), "request_octets": s["evs"][0].get("octets"),
                            "spec_expected_per_device": c["exp"], "impl_sent_per_device": got, "destinations": dsts})
        else:
            per_kind["iam"] = per_kind.get("iam", 0) + 1
            pre = [{"op": "rogue", "a": k["addr"], "via": "wire",
                    "m": {"svc": "iam", "dt": 8, "inst": k["inst"], "maxapdu": k["maxapdu"], "seg": k["seg"], "vendor": k["vendor"]}}
                   for k in c["known0"]]
            for via in ("wire", "direct"):
                if via == "wire" and not wire_encodable(q["m"]):
                    continue
                s = run_session({"tid": len(sessions) + 1, "lan": c["lan"], "objs": [[] for _ in c["lan"]["devs"]],
                                 "ops": pre + [{"op": "rogue", "a": q["a"], "m": q["m"], "via": via}], "case": c})
                sessions.append(s)
                if s.get("hang"):
                    hang_violation(rep, s)
                    continue
                chk.case(("i", canon(q), canon(c["known0"]), via), nontrivial=True)
                after = s["evs"][-1]["st"]["known"]
                if sorted(map(canon, after)) != sorted(map(canon, c["exp_known"])):
                    mismatches.append((s, {"expected_known": c["exp_known"], "got_known": after, "via": via}))
                if not c["strict"] and c["wf"]:
                    chk.extra["iam_accepted_beyond_scope"] = chk.extra.get("iam_accepted_beyond_scope", 0) + 1
                if "iam" not in picked and via == "wire" and len(c["known0"]) == 2 and c["wf"]:
                    picked["iam"] = True
                    chk.sample({"iam": q["m"], "from": q["a"], "client_knew": c["known0"], "spec_knows_after": c["exp_known"],
                                "impl_knows_after": after})
    chk.extra["grid_cases"] = per_kind
    verdicts = validate(chk, rep, sessions, "grid")
    for s in sessions:
        if not s.get("hang"):
            count_monitors(chk, s)
    # cross-check: a difference between TLC's expectation and the observation must have been flagged by a monitor
    for s, d in mismatches:
        v = verdicts.get(s["tid"])
        if v is not None and not v["viol"]:
            chk.deviation({"session": s["tid"], "ops": s["ops"], "note": "differs from the MC_Binding expectation but no monitor failed",
                           "diff": d})
    chk.extra["grid_mismatches"] = len(mismatches)
    return sessions


# ---- T: code -> spec ------------------------------------------------------------------------------------------------------
NAMEPOOL = ["temp", "flow", "fan", "room", "zone", "TEMP", "x", "a b", "näme", "pump-1", "pump-2"]
TYPEPOOL = [2, 2, 5, 19, 0]
INSTPOOL = [0, 1, 2, 5, 1000, 4194302]


def random_lan(rng):
    n = rng.choice([2, 3, 3, 3, 4])
    pool = [0, 1, 2, 999, 1000, 1001, 4194301, 4194302, 4194303]
    insts = set()
    while len(insts) < n:
        r = rng.random()
        if r < 0.5:
            insts.add(rng.choice(pool))
        elif r < 0.7 and insts:
            insts.add(min(MAXINST, max(0, rng.choice(sorted(insts)) + rng.choice([-1, 1]))))       # neighbours
        else:
            insts.add(rng.randrange(0, MAXINST + 1))
        insts.discard(CLIENT_INSTANCE)
    addrs = rng.sample(range(1, 100), n)
    devs, objs = [], []
    for d, inst in enumerate(sorted(insts, key=lambda _: rng.random())):
        devs.append({"addr": addrs[d], "inst": inst, "name": "dev-%d" % inst, "maxapdu": rng.choice([50, 128, 206, 480, 1024, 1476]),
                     "seg": rng.randrange(4), "vendor": rng.choice([0, 15, 260, 999, 65535])})
        lst, ids, names = [], set(), set()
        for _ in range(rng.choice([0, 1, 2, 3, 4])):
            t, i, nm = rng.choice(TYPEPOOL), rng.choice(INSTPOOL), rng.choice(NAMEPOOL)
            if (t, i) in ids or nm in names:
                continue
            ids.add((t, i))
            names.add(nm)
            lst.append({"t": t, "i": i, "n": nm})
        objs.append(lst)
    return {"client": 200, "devs": devs}, objs


def random_limits(rng, lan):
    insts = [c["inst"] for c in lan["devs"]]
    r = rng.random()
    i = rng.choice(insts)
    if r < 0.12:
        return NONE, NONE
    if r < 0.45:                # a limit on / next to an instance
        lo = max(0, i + rng.choice([-1, 0, 0, 1]))
        hi = i + rng.choice([-1, 0, 0, 1])
        if rng.random() < 0.5:
            lo = rng.choice([0, lo, min(insts)])
        else:
            hi = rng.choice([MAXINST, hi, max(insts)])
        return lo, max(hi, 0)
    if r < 0.6:
        a, b = sorted([rng.randrange(0, MAXINST + 1), rng.randrange(0, MAXINST + 1)])
        return a, b
    if r < 0.7:                 # low > high
        a, b = rng.choice(insts), rng.choice(insts)
        return max(a, b) + rng.choice([0, 1]), max(0, min(a, b) - rng.choice([0, 1])) if a != b else max(0, a - 1)
    if r < 0.82:                # one limit missing
        return (i, NONE) if rng.random() < 0.5 else (NONE, i)
    # above the largest instance number
    big = rng.choice([MAXINST + 1, MAXINST + 2, 1 << 24, 1 << 30, BIG])
    return rng.choice([(0, big), (i, big), (big, big), (big, i)])


def random_dest(rng, lan):
    r = rng.random()
    if r < 0.6:
        return {"k": "lb", "a": 0}
    if r < 0.75:
        return {"k": "gb", "a": 0}
    if r < 0.95:
        return {"k": "u", "a": rng.choice(lan["devs"])["addr"]}
    return {"k": "u", "a": 150}


def random_session(rng, tid, nops):
    lan, objs = random_lan(rng)
    cur = [list(o) for o in objs]           # the generator's idea of the tables, only to aim queries at things that exist
    ops = []
    for _ in range(nops):
        r = rng.random()
        if r < 0.4:
            lo, hi = random_limits(rng, lan)
            ops.append({"op": "query", "q": {"kind": "whois", "to": random_dest(rng, lan), "lo": lo, "hi": hi, "by": "-",
                                             "t": 0, "i": 0, "n": ""}})
        elif r < 0.72:
            lo, hi = random_limits(rng, lan) if rng.random() < 0.6 else (NONE, NONE)
            d = rng.randrange(len(lan["devs"]))
            exist = cur[d] + [{"t": 8, "i": lan["devs"][d]["inst"], "n": lan["devs"][d]["name"]}]
            o = rng.choice(exist)
            q = {"kind": "whohas", "to": random_dest(rng, lan), "lo": lo, "hi": hi, "t": 0, "i": 0, "n": ""}
            op = {"op": "query", "q": q}
            if rng.random() < 0.5:
                q["by"] = "id"
                q["t"], q["i"] = (o["t"], o["i"]) if rng.random() < 0.7 else (rng.choice(TYPEPOOL + [8, 200]), rng.choice(INSTPOOL + [MAXINST]))
            else:
                q["by"] = "name"
                q["n"] = o["n"] if rng.random() < 0.7 else rng.choice(NAMEPOOL + ["", "nothing", o["n"].upper(), o["n"] + " "])
                if rng.random() < 0.2 and all(ord(ch) < 128 for ch in q["n"]):
                    op["enc"] = rng.choice([4, 5])
            ops.append(op)
        elif r < 0.77:
            ops.append({"op": "ann", "d": rng.randrange(len(lan["devs"])) + 1})
        elif r < 0.9:
            taken = {c["addr"] for c in lan["devs"]} | {lan["client"]}
            a = rng.choice([x for x in (33, 34, 35) if x not in taken])
            m = {"svc": "iam", "dt": 8, "inst": rng.choice([7, 77, 1000, rng.choice(lan["devs"])["inst"], MAXINST, 0]),
                 "maxapdu": rng.choice([50, 206, 480, 1476]), "seg": rng.randrange(4), "vendor": rng.choice([0, 7, 999])}
            via = rng.choice(["wire", "wire", "direct"])
            k = rng.random()
            if k < 0.2:
                m["seg"] = rng.choice([4, 5, 17, 255])
            elif k < 0.4:
                f = rng.choice(["dt", "maxapdu", "seg", "vendor"])
                m[f] = NONE
                if f == "dt":
                    m["inst"] = NONE
            elif k < 0.5:
                m["inst"], via = rng.choice([MAXINST + 1, 1 << 23]), "direct"
            ops.append({"op": "rogue", "a": a, "m": m, "via": via})
        else:
            d = rng.randrange(len(lan["devs"]))
            k = rng.random()
            if k < 0.35 or not cur[d]:
                mu = {"op": "add", "t": rng.choice(TYPEPOOL), "i": rng.choice(INSTPOOL + [MAXINST]), "n": rng.choice(NAMEPOOL + ["", lan["devs"][d]["name"]])}
            else:
                o = rng.choice(cur[d])
                if k < 0.5:
                    mu = {"op": "del", "t": o["t"], "i": o["i"]}
                elif k < 0.8:
                    mu = {"op": "rename", "t": o["t"], "i": o["i"], "n": rng.choice(NAMEPOOL + [lan["devs"][d]["name"], o["n"]])}
                else:
                    mu = {"op": "reid", "t": o["t"], "i": o["i"], "j": rng.choice(INSTPOOL)}
            ops.append({"op": "mutate", "d": d + 1, "mu": mu})
            # keep the generator's picture roughly current (it is only used to aim; the verdict never depends on it)
            if mu["op"] == "del":
                cur[d] = [x for x in cur[d] if (x["t"], x["i"]) != (mu["t"], mu["i"])]
            elif mu["op"] == "add" and mu["n"] and mu["i"] < MAXINST:
                cur[d] = cur[d] + [{"t": mu["t"], "i": mu["i"], "n": mu["n"]}]
            elif mu["op"] == "rename":
                cur[d] = [dict(x, n=mu["n"]) if (x["t"], x["i"]) == (mu["t"], mu["i"]) else x for x in cur[d]]
            elif mu["op"] == "reid":
                cur[d] = [dict(x, i=mu["j"]) if (x["t"], x["i"]) == (mu["t"], mu["i"]) else x for x in cur[d]]
    return {"tid": tid, "lan": lan, "objs": objs, "ops": ops}


def model_run(chk, module, cfg_text=None, cfg_file=None, name=None, timeout=900, expect_violation=False):
    res = tlc.run_tlc(module, cfg_text=cfg_text, cfg_file=cfg_file, timeout=timeout, name=name)
    if expect_violation:
        if res["error_kind"] != "invariant":
            tlc.machinery_failure("vacuity check %s: the deviation does not violate any monitor (%s)" % (name, res["error_kind"]))
        chk.extra.setdefault("vacuity", {})[name] = res["error"]
        return res
    chk.tlc(res)
    if res["error_kind"] or not res["finished"]:
        tlc.machinery_failure("design model %s violates %s\n%s" % (name, res["error"], res["output"][-2000:]))
    return res


def lan_cfg(maxops, dev=None):
    text = open(os.path.join(tlc.SPEC, "MC_Binding_lan.cfg")).read()
    text = text.replace("MaxOps = 2", "MaxOps = %d" % maxops)
    if dev:
        text = text.replace("%s = FALSE" % dev, "%s = TRUE" % dev)
    return text


# ---------------------------------------------------------------------------------------------------------------------------
def main(tier, seed):
    chk = Check("X02", tier, seed)
    rng = random.Random(seed)
    thorough = tier == "thorough"
    rep = Reporter(chk)
    chk.rule = ("one evaluation = one device stack deciding on one real Who-Is / Who-Has frame (grid: 5 per case, sessions: "
                "one per delivery) or one client stack handling one I-Am; distinct = distinct (query | I-Am, prior "
                "knowledge, path) of the grid + (LAN, op) of the random sessions; non-trivial = a range is given, somebody "
                "has to answer, or an I-Am is handled")
    chk.assumptions = [
        "Binding.tla is my reading of clauses 16.9 / 16.10 as summarised in the X02 task text (the standard is not "
        "available offline)",
        "a solicited I-Am / I-Have may be unicast to the requester or broadcast (the library unicasts; unsolicited i_am() "
        "is a global broadcast): ReplyReachesRequester accepts both, the conformance part pins the library's choice",
        "the client application is the usual pattern: library do_IAmRequest validation, then "
        "deviceInfoCache.iam_device_info(apdu); 'known' is the cache seen through its integer keys",
        "objects are renamed / re-identified through the library's WriteableObjectName/IdentifierMixIn (plain attribute "
        "assignment on an object without the mix-in is not a supported way to rename and leaves the tables stale)",
        "an I-Am whose identifier is not a device object, max APDU < 50 or vendor > 65535 is not in X02's list of "
        "inconsistencies: counted in iam_accepted_beyond_scope, never a violation",
    ]
    # D: the design model + vacuity
    maxops = 8 if thorough else 4
    model_run(chk, "MC_Binding_lan", cfg_text=lan_cfg(maxops), name="MC_Binding_lan/MaxOps=%d" % maxops, timeout=1500)
    for dev in ("Dev_HighExclusive", "Dev_WhoHasNoRange", "Dev_LearnUnchecked"):
        model_run(chk, "MC_Binding_lan", cfg_text=lan_cfg(2, dev), name="vacuity/" + dev, expect_violation=True)
    # R: spec -> code
    grid(chk, rep, tier)
    # T: code -> spec
    nsess = 8000 if thorough else 250
    sessions = []
    for i in range(nsess):
        s = run_session(random_session(rng, i + 1, rng.choice([6, 8, 10, 12])))
        sessions.append(s)
        if s.get("hang"):
            hang_violation(rep, s)
            continue
        for j, op in enumerate(s["ops"]):
            chk.case(("s", i, j), nontrivial=op["op"] != "mutate")
        count_monitors(chk, s)
    for lo in range(0, len(sessions), 1000):
        validate(chk, rep, sessions[lo:lo + 1000], "random-%d" % (lo // 1000))
    kinds = {}
    hows = {}
    for s in sessions:
        for op in s["ops"]:
            k = op["op"] if op["op"] != "query" else op["q"]["kind"] + ":" + limits_class(op["q"]["lo"], op["q"]["hi"])
            kinds[k] = kinds.get(k, 0) + 1
        for e in s.get("evs", []):
            if e["op"] == "send":
                h = (e.get("how") or "").split(" ")[0]
                hows[h] = hows.get(h, 0) + 1
    chk.extra["random_session_ops"] = kinds
    chk.extra["how_requests_were_sent"] = hows
    answered = sum(1 for s in sessions for e in s.get("evs", []) if e["op"] == "recv")
    chk.extra["replies_received_in_random_sessions"] = answered
    for s in sessions[:1]:
        if s.get("evs"):
            chk.sample({"session_ops": s["ops"][:4], "events": [{k: e[k] for k in e if k != "st"} for e in s["evs"][:12]]})
    return chk.finish()


def replay(path):
    body = json.load(open(path))
    rp = body["replay"]
    chk = Check("X02", "quick", body.get("seed", 0))
    rep = Reporter(chk)
    s = run_session({"tid": 1, "lan": rp["lan"], "objs": rp["objs"], "ops": rp["ops"]})
    if s.get("hang"):
        hang_violation(rep, s)
        return chk.finish()
    print("lan  :", json.dumps(rp["lan"]))
    for e in s["evs"]:
        print("event:", json.dumps({k: e[k] for k in e if k != "st"}), "| wire", json.dumps(e["st"]["wire"]),
              "| known", json.dumps(e["st"]["known"]))
    validate(chk, rep, [s], "replay")
    return chk.finish()
