"""C09 -- BACnet/IP frames carry a correct length and round-trip all twelve functions.   (spec/BVLL.tla)

D  TLC on MC_BVLL: INIT InitEnc -- Dec(Enc(r)) = r, length field = Len(Enc(r)), well-formedness over the record grid
   (12 functions, tables of 0..40 entries, NPDU lengths up to 1497, IPv4 / port / mask / 16-bit boundaries, raw frames
   for all 256 function codes); INIT InitDec -- refusal of wrong type / wrong length, totality, canonicity
   (Enc(Dec(o)) = o) over all strings up to length 4 over a class alphabet, 256 function codes x body lengths, and
   valid frames with wrong type / wrong length / truncated / extended.
R  spec -> code: every TLC case is built with the real message classes, encoded (class.encode + BVLPDU.encode, and
   through AnnexJCodec.indication with a capturing server below), compared with Enc; the expected octets are decoded
   (BVLPDU.decode + bvl_pdu_types[..].decode, and AnnexJCodec.confirmation with a capturing client above) and the
   projected fields compared with the record.  Every TLC octet string goes through both decode paths and is compared
   with Dec.
T  code -> spec: seeded random records and random / mutated / truncated octet strings go through the real code, are
   recorded as ndjson and validated by TLC (Trace_BVLL.tla); so are the frames that BIPSimple / BIPForeign / BIPBBMD
   put below an AnnexJCodec ("every frame the library produces").
"""
import os, sys, json, random, shutil, collections
from common import Check, VERIF, WORK, Hang, watchdog
import tlc
import vtime

vt = vtime.install()
from bacpypes.comm import Client, Server, bind
from bacpypes.pdu import Address, PDU, LocalBroadcast
from bacpypes.errors import DecodingError
import bacpypes.bvll as bvll
from bacpypes.bvll import BVLPDU, bvl_pdu_types, FDTEntry
from bacpypes.bvllservice import AnnexJCodec, BIPSimple, BIPForeign, BIPBBMD

# Annex J function code -> name of the message class (the rendering table; the registry is what is under test)
NAMES = {0: "Result", 1: "WriteBroadcastDistributionTable", 2: "ReadBroadcastDistributionTable",
         3: "ReadBroadcastDistributionTableAck", 4: "ForwardedNPDU", 5: "RegisterForeignDevice",
         6: "ReadForeignDeviceTable", 7: "ReadForeignDeviceTableAck", 8: "DeleteForeignDeviceTableEntry",
         9: "DistributeBroadcastToNetwork", 10: "OriginalUnicastNPDU", 11: "OriginalBroadcastNPDU"}
FN_OF = {v: k for k, v in NAMES.items()}
HANGS = [0]


# ---- rendering: abstract record -> real object ----------------------------------------------------------
def ipstr(ip):
    return "%d.%d.%d.%d" % tuple(ip)


def mk_addr(a):
    return Address((ipstr(a["ip"]), a["port"]))


def mk_bdte(e):
    m = int.from_bytes(bytes(e["mask"]), "big")
    bits = format(m, "032b")
    if "01" not in bits:        # a prefix mask: the textual notation applications use (add_peer("a.b.c.d/n:port"))
        return Address("%s/%d:%d" % (ipstr(e["ip"]), bits.count("1"), e["port"]))
    x = Address((ipstr(e["ip"]), e["port"]))
    x.addrMask = m
    return x


def mk_fdte(e):
    x = FDTEntry()
    x.fdAddress, x.fdTTL, x.fdRemain = mk_addr(e), e["ttl"], e["rem"]
    return x


def build(rec):
    fn = rec["fn"]
    cls = getattr(bvll, NAMES[fn])
    if fn == 0:
        return cls(rec["code"])
    if fn in (1, 3):
        return cls([mk_bdte(e) for e in rec["bdt"]])
    if fn in (2, 6):
        return cls()
    if fn == 4:
        return cls(mk_addr(rec["addr"]), bytes(rec["npdu"]))
    if fn == 5:
        return cls(rec["ttl"])
    if fn == 7:
        return cls([mk_fdte(e) for e in rec["fdt"]])
    if fn == 8:
        return cls(mk_addr(rec["addr"]))
    return cls(bytes(rec["npdu"]))


# ---- projection: real object -> abstract record ---------------------------------------------------------
def p_addr(a):
    out = {"ip": [int(x) for x in a.addrTuple[0].split(".")], "port": a.addrTuple[1]}
    if bytes(a.addrAddr) != bytes(out["ip"]) + int(a.addrPort).to_bytes(2, "big"):
        out["addrAddr"] = list(a.addrAddr)          # the two views of the address disagree: make it visible
    return out


def p_bdte(a):
    out = p_addr(a)
    out["mask"] = list(int(a.addrMask).to_bytes(4, "big"))
    return out


def p_fdte(e):
    out = p_addr(e.fdAddress)
    out["ttl"], out["rem"] = e.fdTTL, e.fdRemain
    return out


TABLE_CAP = 200     # no BVLL frame of the grids carries more than ~150 table entries: a longer decoded table is
# recorded truncated (it then differs from what the specification decodes, which is what TLC reports) instead of
# letting a runaway table blow up the trace file


def project(obj):
    out = _project(obj)
    for k in ("bdt", "fdt"):
        if k in out and len(out[k]) > TABLE_CAP:
            out[k] = out[k][:TABLE_CAP]
    return out


def _project(obj):
    fn = FN_OF[type(obj).__name__]
    if fn == 0:
        return {"fn": fn, "code": obj.bvlciResultCode}
    if fn in (1, 3):
        return {"fn": fn, "bdt": [p_bdte(e) for e in obj.bvlciBDT]}
    if fn in (2, 6):
        return {"fn": fn}
    if fn == 4:
        return {"fn": fn, "addr": p_addr(obj.bvlciAddress), "npdu": list(obj.pduData)}
    if fn == 5:
        return {"fn": fn, "ttl": obj.bvlciTimeToLive}
    if fn == 7:
        return {"fn": fn, "fdt": [p_fdte(e) for e in obj.bvlciFDT]}
    if fn == 8:
        return {"fn": fn, "addr": p_addr(obj.bvlciAddress)}
    return {"fn": fn, "npdu": list(obj.pduData)}


def hdr_of(obj):
    return [obj.bvlciType, obj.bvlciFunction, obj.bvlciLength]


# ---- the codec with a capturing client above and a capturing server below --------------------------------
class Above(Client):
    def __init__(self):
        Client.__init__(self)
        self.got = []

    def confirmation(self, pdu):
        self.got.append(pdu)


class Below(Server):
    def __init__(self):
        Server.__init__(self)
        self.sent = []

    def indication(self, pdu):
        self.sent.append(pdu)


ABOVE, CODEC, BELOW = Above(), AnnexJCodec(), Below()
bind(ABOVE, CODEC, BELOW)
PEER = Address(("10.9.8.7", 47808))


def guarded(fn, *a):
    """run a call into the implementation under the watchdog; exceptions become outcome records"""
    with watchdog(10):
        return fn(*a)


class Unbuildable:
    """the library's own constructors refused a record of the grid (e.g. an address at a boundary)"""

    def __init__(self, e):
        self.exc = "constructor:" + type(e).__name__


def build_safe(rec):
    try:
        return build(rec)
    except Hang:
        raise
    except Exception as e:
        return Unbuildable(e)


def enc_direct(obj):
    if isinstance(obj, Unbuildable):
        return {"ok": False, "exc": obj.exc, "oct": []}
    try:
        def go():
            bvlpdu = BVLPDU()
            obj.encode(bvlpdu)
            pdu = PDU()
            bvlpdu.encode(pdu)
            return bytes(pdu.pduData)
        return {"ok": True, "oct": list(guarded(go))}
    except Exception as e:
        return {"ok": False, "exc": type(e).__name__, "oct": []}


def enc_codec(obj):
    if isinstance(obj, Unbuildable):
        return {"ok": False, "exc": obj.exc, "oct": []}
    del BELOW.sent[:]
    try:
        obj.pduDestination = PEER
        guarded(ABOVE.request, obj)
    except Exception as e:
        return {"ok": False, "exc": type(e).__name__, "oct": []}
    if len(BELOW.sent) != 1:
        return {"ok": False, "exc": "frames_sent=%d" % len(BELOW.sent), "oct": []}
    return {"ok": True, "oct": list(BELOW.sent[0].pduData)}


def dec_direct(octs):
    try:
        def go():
            pdu = PDU(bytes(octs), source=PEER)
            bvlpdu = BVLPDU()
            bvlpdu.decode(pdu)
            cls = bvl_pdu_types.get(bvlpdu.bvlciFunction)
            if cls is None:
                return {"kind": "UnknownFunction"}
            obj = cls()
            obj.decode(bvlpdu)
            return {"kind": "rec", "rec": project(obj), "hdr": hdr_of(obj)}
        return guarded(go)
    except DecodingError:
        return {"kind": "DecodingError"}
    except Exception as e:
        return {"kind": "exc", "exc": type(e).__name__}


def dec_codec(octs):
    del ABOVE.got[:]
    exc = ""
    try:
        guarded(BELOW.response, PDU(bytes(octs), source=PEER))
    except DecodingError:
        exc = "DecodingError"
    except Exception as e:
        exc = type(e).__name__
    if not ABOVE.got:
        return {"up": False, "exc": exc}
    if len(ABOVE.got) > 1:
        return {"up": True, "exc": "passed_up=%d" % len(ABOVE.got)}
    try:
        return {"up": True, "exc": exc, "rec": project(ABOVE.got[0]), "hdr": hdr_of(ABOVE.got[0])}
    except Exception as e:
        return {"up": True, "exc": "projection:" + type(e).__name__}


def raw_enc(fn, body):
    try:
        def go():
            x = BVLPDU(bytes(body))
            x.bvlciFunction = fn
            x.bvlciLength = 4 + len(body)
            pdu = PDU()
            x.encode(pdu)
            return bytes(pdu.pduData)
        return {"ok": True, "oct": list(guarded(go))}
    except Exception as e:
        return {"ok": False, "exc": type(e).__name__, "oct": []}


def raw_dec(octs):
    try:
        def go():
            x = BVLPDU()
            x.decode(PDU(bytes(octs)))
            return {"kind": "hdr", "hdr": hdr_of(x), "body": list(x.pduData), "known": x.bvlciFunction in bvl_pdu_types}
        return guarded(go)
    except DecodingError:
        return {"kind": "DecodingError"}
    except Exception as e:
        return {"kind": "exc", "exc": type(e).__name__}


def hexs(o, cap=48):
    b = bytes(o)
    return b[:cap].hex() + ("...(%d octets)" % len(b) if len(b) > cap else "")


def first_diff(a, b):
    for i, (x, y) in enumerate(zip(a, b)):
        if x != y:
            return i
    return min(len(a), len(b)) if len(a) != len(b) else None


# ---- D: the model, and the vectors it emits ----------------------------------------------------------------
PAYLENS_Q = sorted(set(list(range(0, 18)) + [100, 249, 250, 251, 252, 253, 254, 255, 256, 257, 500, 511, 512, 513, 1000] +
                       list(range(1019, 1026)) + [1400] + list(range(1470, 1477)) + list(range(1490, 1498))))
ENC_INVS = ["EncWellFormed", "EncRoundTrip", "EncLengthFieldExact", "EncRawHeader"]
DEC_INVS = ["DecTotal", "DecRefusesBadFrames", "DecCanonical", "DecUnknownIff", "DecLenientOnlyAddsTrailing"]


def tla_set(xs):
    return "{" + ", ".join(str(x) for x in sorted(set(xs))) + "}"


def mc_cfg(side, thorough):
    defs = {}
    consts = {"PayLens": tla_set(PAYLENS_Q), "PaySeeds": "{0, 1, 2}" if thorough else "{0, 1}", "PayLensAll": "{}",
              "TableSizes": tla_set(range(0, 41)), "TableSeeds": "{0, 1, 2, 3}" if thorough else "{0, 1}",
              "FullCross": "TRUE" if thorough else "FALSE", "Alphabet": "{0, 2, 4, 10, 129, 255}", "MaxStr": "4",
              "BodyLens": tla_set(range(0, 31)) if thorough else "{0, 1, 2, 5, 6, 7, 10, 11, 20}"}
    if thorough:
        del consts["PayLensAll"]
        defs["PayLensAll"] = "0..1497"
    lines = ["INIT Init" + side, "NEXT Next", "CHECK_DEADLOCK FALSE"] + ["INVARIANT " + i for i in (ENC_INVS if side == "Enc" else DEC_INVS)]
    return tlc.mc_wrapper("MCgen_BVLL_" + side, "MC_BVLL", defs, lines, consts)


def run_model(chk, side, thorough):
    """TLC checks the model-level clauses on the grid and writes one vector per case."""
    wd = tlc.workdir("c09vec")
    out = os.path.join(wd, side + ".ndjson")
    try:
        files, cfg = mc_cfg(side, thorough)
        res = tlc.run_tlc("MCgen_BVLL_" + side, cfg_text=cfg, files=files, timeout=1500,
                          env={("ENC_OUT" if side == "Enc" else "DEC_OUT"): out}, name="MC_BVLL/" + side)
        chk.tlc(res)
        if res["error_kind"]:
            tlc.machinery_failure("design model BVLL (%s side) violates %s\n%s" % (side, res["error"], res["output"][-2500:]))
        if not res["finished"] or not os.path.exists(out):
            tlc.machinery_failure("MC_BVLL %s did not finish / wrote no vectors\n%s" % (side, res["output"][-1500:]))
        vecs = [json.loads(l) for l in open(out)]
        if len(vecs) != res["distinct"]:
            tlc.machinery_failure("MC_BVLL %s: %d vectors for %d states" % (side, len(vecs), res["distinct"]))
        return vecs
    finally:
        shutil.rmtree(wd, ignore_errors=True)


def sanity_model(chk):
    """vacuity: the octet-string grid must contain frames that tell Annex J from the named deviation"""
    files, cfg = mc_cfg("Dec", False)
    cfg = cfg.replace("INVARIANT DecTotal", "INVARIANT SanityLenientEqualsStrict\nINVARIANT DecTotal")
    res = tlc.run_tlc("MCgen_BVLL_Dec", cfg_text=cfg, files=files, timeout=600, name="MC_BVLL/sanity")
    if res["error"] != "SanityLenientEqualsStrict":
        tlc.machinery_failure("sanity: SanityLenientEqualsStrict should be violated, got %r\n%s" % (res["error"], res["output"][-1500:]))
    chk.extra.setdefault("sanity", []).append("Dec grid distinguishes Dec from DecLenient (SanityLenientEqualsStrict violated as expected)")


# ---- R: spec -> code ------------------------------------------------------------------------------------------
def hang(chk, what, replay):
    HANGS[0] += 1
    chk.violation("Terminates", {"where": what}, {"what": "no return within 10 s", "input": replay}, replay)


def check_registry(chk):
    """the function registry: exactly the twelve Annex J codes, each bound to the class of that name"""
    got = {k: v.__name__ for k, v in bvl_pdu_types.items()}
    chk.case(("registry",))
    chk.monitor("FieldsEqualSpec")
    if got != NAMES:
        diff = {k: (NAMES.get(k), got.get(k)) for k in set(NAMES) | set(got) if NAMES.get(k) != got.get(k)}
        chk.violation("FieldsEqualSpec", {"path": "registry", "codes": sorted(diff)},
                      {"what": "bvl_pdu_types is not the Annex J table", "expected_vs_got": diff}, {"kind": "registry"})
    for k, cls in bvl_pdu_types.items():
        if cls.messageType != k:
            chk.violation("FieldsEqualSpec", {"path": "registry", "codes": [k]},
                          {"what": "class registered under a code that is not its messageType", "code": k, "class": cls.__name__}, {"kind": "registry"})


def replay_enc_vector(chk, v):
    d, rec, exp = v["d"], v["rec"], v["oct"]
    fn = rec["fn"]
    if HANGS[0] >= 3:
        return
    if d["g"] == "raw":
        rp = {"kind": "raw", "fn": fn, "body": rec["body"]}
        try:
            got, back = raw_enc(fn, rec["body"]), raw_dec(exp)
        except Hang:
            return hang(chk, "raw", rp)
        chk.case(("raw", fn, len(rec["body"])), nontrivial=True, n=2)
        chk.monitor("OctetsEqualSpec")
        chk.monitor("LengthFieldExact")
        if not got["ok"] or got["oct"] != exp:
            chk.violation("OctetsEqualSpec", {"fn": "raw", "path": "BVLPDU.encode"},
                          {"fn": fn, "expected": hexs(exp), "got": hexs(got["oct"]) if got["ok"] else got["exc"]}, rp)
        want = {"kind": "hdr", "hdr": [0x81, fn, len(exp)], "body": rec["body"], "known": v["known"]}
        chk.monitor("FieldsEqualSpec")
        if back != want:
            chk.violation("FieldsEqualSpec", {"fn": "raw" if back.get("known") == v["known"] else "registry", "path": "BVLPDU.decode"},
                          {"fn": fn, "octets": hexs(exp), "expected": want, "got": back}, rp)
        return
    rp = {"kind": "enc", "rec": rec}
    try:
        outs = {"direct": enc_direct(build_safe(rec)), "codec": enc_codec(build_safe(rec))}
        backs = {"decode": dec_direct(exp), "confirmation": dec_codec(exp)}
    except Hang:
        return hang(chk, NAMES[fn], rp)
    nontriv = d["g"] != "empty"
    chk.case(("enc", d["g"], fn, d["a"], d["b"], d["c"], d["d"]), nontrivial=nontriv, n=4)
    for path, got in outs.items():
        chk.monitor("OctetsEqualSpec")
        chk.monitor("LengthFieldExact")
        if not got["ok"]:
            chk.violation("OctetsEqualSpec", {"fn": fn, "path": path, "group": d["g"], "exc": got["exc"]},
                          {"record": _short(rec), "expected": hexs(exp), "got": "exception " + got["exc"]}, rp)
            continue
        o = got["oct"]
        # the length clause, read off the datagram the code produced
        if len(o) < 4 or o[0] != 0x81 or o[1] != fn or o[2] * 256 + o[3] != len(o):
            chk.violation("LengthFieldExact", {"fn": fn, "path": path, "group": d["g"]},
                          {"record": _short(rec), "header": hexs(o[:4]), "datagram_octets": len(o), "expected_header": hexs(exp[:4])}, rp)
        if o != exp:
            i = first_diff(o, exp)
            chk.violation("OctetsEqualSpec", {"fn": fn, "path": path, "group": d["g"]},
                          {"record": _short(rec), "first_difference_at_octet": i, "expected": hexs(exp[max(0, i - 8):i + 16]),
                           "got": hexs(o[max(0, i - 8):i + 16]), "expected_len": len(exp), "got_len": len(o)}, rp)
    want = {"kind": "rec", "rec": rec, "hdr": [0x81, fn, len(exp)]}
    chk.monitor("FieldsEqualSpec", 2)
    if backs["decode"] != want:
        chk.violation("FieldsEqualSpec", {"fn": fn, "path": "decode", "group": d["g"]},
                      {"octets": hexs(exp), "expected": _short(rec), "got": _short(backs["decode"])}, {"kind": "dec", "oct": exp})
    want_up = {"up": True, "exc": "", "rec": rec, "hdr": [0x81, fn, len(exp)]}
    if backs["confirmation"] != want_up:
        chk.violation("FieldsEqualSpec", {"fn": fn, "path": "confirmation", "group": d["g"]},
                      {"octets": hexs(exp), "expected": _short(rec), "got": _short(backs["confirmation"])}, {"kind": "dec", "oct": exp})


def _short(x, cap=400):
    s = json.dumps(x)
    return x if len(s) <= cap else s[:cap] + "..."


def classify_dec(chk, octs, bad, dec, decL, out, up, label, obs):
    """compare what the two decode paths did with what the spec says (values computed by TLC);
    returns True when the evaluation conforms"""
    rp = {"kind": "dec", "oct": list(octs)}
    fnv = octs[1] if len(octs) > 1 else None
    ok = True
    if bad:
        chk.monitor("WrongTypeOrLengthRefused")
        chk.monitor("OnlyDecodingError")
        why = ("type" if len(octs) >= 1 and octs[0] != 0x81 else "short" if len(octs) < 4 else "length")
        if out["kind"] == "rec" or up["up"]:
            chk.violation("WrongTypeOrLengthRefused", {"disagrees": why, "fn": fnv, "path": "decode" if out["kind"] == "rec" else "confirmation", "case": label},
                          {"octets": hexs(octs), "datagram_octets": len(octs), "decode": _short(out), "confirmation": _short(up)}, rp)
            ok = False
        elif out["kind"] != "DecodingError" or up["exc"] not in ("", "DecodingError"):
            chk.violation("OnlyDecodingError", {"disagrees": why, "fn": fnv, "exc": out.get("exc") or up["exc"], "case": label},
                          {"octets": hexs(octs), "datagram_octets": len(octs), "decode": out, "confirmation": up}, rp)
            ok = False
        return ok
    strict_ok = "err" not in dec
    if strict_ok:
        chk.monitor("FieldsEqualSpec", 2)
        want = {"kind": "rec", "rec": dec, "hdr": [0x81, dec["fn"], len(octs)]}
        want_up = {"up": True, "exc": "", "rec": dec, "hdr": [0x81, dec["fn"], len(octs)]}
        if out != want or up != want_up:
            chk.violation("FieldsEqualSpec", {"fn": fnv, "path": "decode" if out != want else "confirmation", "case": label},
                          {"octets": hexs(octs), "expected": _short(dec), "decode": _short(out), "confirmation": _short(up)}, rp)
            ok = False
        return ok
    # outside the clauses of the property: conformance with the spec (+ named deviation) only
    if "err" not in decL:
        obs["Dev_TrailingIgnored"] += 1
        want = {"kind": "rec", "rec": decL, "hdr": [0x81, decL["fn"], len(octs)]}
        want_up = {"up": True, "exc": "", "rec": decL, "hdr": [0x81, decL["fn"], len(octs)]}
        if out != want or up != want_up:
            chk.deviation({"what": "frame with octets after a fixed-size function: spec (with Dev_TrailingIgnored) and code differ",
                           "octets": hexs(octs), "spec": decL, "decode": _short(out), "confirmation": _short(up)})
            ok = False
    elif decL["err"] == "DecodingError":
        chk.monitor("OnlyDecodingError")
        if out["kind"] != "DecodingError" or up["up"] or up["exc"] != "DecodingError":
            chk.deviation({"what": "consistent header, body does not fit the function: spec refuses with DecodingError",
                           "octets": hexs(octs), "decode": _short(out), "confirmation": _short(up)})
            ok = False
    else:
        obs["unknown_function_frames"] += 1
        if up["exc"] == "KeyError":
            obs["F9_KeyError_escapes_confirmation"] += 1
            obs.setdefault("F9_example", hexs(octs))
        if out["kind"] != "UnknownFunction" or up["up"]:
            chk.deviation({"what": "unknown function code treated as known", "octets": hexs(octs), "decode": _short(out), "confirmation": _short(up)})
            ok = False
    return ok


def replay_dec_vector(chk, v, obs):
    if HANGS[0] >= 3:
        return
    o = v["oct"]
    try:
        out, up = dec_direct(o), dec_codec(o)
    except Hang:
        return hang(chk, "decode", {"kind": "dec", "oct": o})
    d = v["d"]
    chk.case(("dec", d["g"], d["fn"], d["a"], d["b"], d["c"]), nontrivial=True, n=2)
    classify_dec(chk, o, v["bad"], v["dec"], v["decL"], out, up, d["g"] + (":%d" % d["b"] if d["g"] == "mut" else ""), obs)


def stale_length(chk):
    """'length ... verified at encode': a table / payload changed after construction must not yield a frame with a
    wrong length field -- either no frame (EncodingError) or a frame whose length field is its size"""
    res = []
    for fn, mutate in ((1, lambda o: o.bvlciBDT.append(mk_bdte({"ip": [1, 2, 3, 4], "port": 47808, "mask": [255, 255, 255, 0]}))),
                       (3, lambda o: o.bvlciBDT.append(mk_bdte({"ip": [1, 2, 3, 4], "port": 47808, "mask": [255, 255, 255, 0]}))),
                       (7, lambda o: o.bvlciFDT.append(mk_fdte({"ip": [1, 2, 3, 4], "port": 47808, "ttl": 30, "rem": 35}))),
                       (4, lambda o: o.put_data(b"\x01\x02\x03")), (9, lambda o: o.put_data(b"\x01\x02\x03")),
                       (10, lambda o: o.put_data(b"\x01\x02\x03")), (11, lambda o: o.put_data(b"\x01\x02\x03"))):
        rec = {1: {"fn": 1, "bdt": []}, 3: {"fn": 3, "bdt": []}, 7: {"fn": 7, "fdt": []},
               4: {"fn": 4, "addr": {"ip": [10, 0, 0, 1], "port": 47808}, "npdu": [1, 0]}}.get(fn, {"fn": fn, "npdu": [1, 0]})
        for path, enc in (("direct", enc_direct), ("codec", enc_codec)):
            obj = build_safe(rec)
            if isinstance(obj, Unbuildable):
                continue
            mutate(obj)
            got = enc(obj)
            chk.case(("stale", fn, path), nontrivial=True)
            chk.monitor("LengthFieldExact")
            res.append("%s/%s: %s" % (NAMES[fn], path, "frame %s" % hexs(got["oct"]) if got["ok"] else got["exc"]))
            o = got["oct"]
            if got["ok"] and (len(o) < 4 or o[2] * 256 + o[3] != len(o) or o[0] != 0x81 or o[1] != fn):
                chk.violation("LengthFieldExact", {"fn": fn, "path": path, "group": "changed-after-construction"},
                              {"what": "content changed after construction; frame produced with a wrong length field",
                               "header": hexs(o[:4]), "datagram_octets": len(o)}, {"kind": "stale", "fn": fn})
            if path == "codec" and got["ok"]:
                # the same message object sent again through the same codec after another change: the frame shows the change
                mutate(obj)
                again, fresh = enc_codec(obj), enc_direct(obj)
                chk.case(("resent", fn), nontrivial=True)
                if again["ok"] and fresh["ok"] and again["oct"] != fresh["oct"]:
                    chk.violation("OctetsEqualSpec", {"fn": fn, "path": "codec", "group": "same-object-sent-again-after-a-change"},
                                  {"what": "the second frame of one message object does not carry its current parameters",
                                   "second_frame": hexs(again["oct"]), "encoding_of_the_object_now": hexs(fresh["oct"])}, {"kind": "stale", "fn": fn})
    chk.extra["changed_after_construction"] = res


# ---- T: code -> spec ------------------------------------------------------------------------------------------
EDGE = [0, 1, 2, 4, 10, 11, 12, 127, 128, 129, 254, 255]


def r_octet(rng):
    return rng.choice(EDGE) if rng.random() < 0.4 else rng.randrange(256)


def r_short(rng):
    return rng.choice([0, 1, 255, 256, 0x8181, 32767, 32768, 65534, 65535]) if rng.random() < 0.4 else rng.randrange(65536)


def r_addr(rng):
    return {"ip": [r_octet(rng) for _ in range(4)], "port": r_short(rng)}


def r_mask(rng):
    r = rng.random()
    if r < 0.6:
        n = rng.randint(0, 32)
        return list(((0xFFFFFFFF << (32 - n)) & 0xFFFFFFFF).to_bytes(4, "big"))
    return [r_octet(rng) for _ in range(4)]


def r_len(rng, small):
    if small:
        return rng.choice([0, 1, 2, 3, rng.randint(0, 24)])
    return rng.choice([0, 1, 2, 1496, 1497, rng.randint(0, 64), rng.randint(0, 1497), rng.randint(0, 1497)])


def r_rec(rng, small=False):
    fn = rng.randrange(12)
    ntab = rng.choice([0, 1, 2, rng.randint(0, 6)]) if small else rng.choice([0, 1, 2, 39, 40, rng.randint(0, 40), rng.randint(0, 40)])
    if fn == 0:
        return {"fn": 0, "code": rng.choice([0, 0x10, 0x20, 0x30, 0x40, 0x50, 0x60, r_short(rng)])}
    if fn in (1, 3):
        return {"fn": fn, "bdt": [dict(r_addr(rng), mask=r_mask(rng)) for _ in range(ntab)]}
    if fn in (2, 6):
        return {"fn": fn}
    if fn == 4:
        return {"fn": 4, "addr": r_addr(rng), "npdu": [r_octet(rng) for _ in range(r_len(rng, small))]}
    if fn == 5:
        return {"fn": 5, "ttl": r_short(rng)}
    if fn == 7:
        return {"fn": 7, "fdt": [dict(r_addr(rng), ttl=r_short(rng), rem=r_short(rng)) for _ in range(ntab)]}
    if fn == 8:
        return {"fn": 8, "addr": r_addr(rng)}
    return {"fn": fn, "npdu": [r_octet(rng) for _ in range(r_len(rng, small))]}


def mutate(rng, base):
    """one hostile variant of a valid frame; returns (label, octets)"""
    o = list(base)
    k = rng.randrange(12)
    if k == 0:
        o[0] = rng.choice([0, 1, 0x80, 0x82, 0xFF, rng.randrange(256)])
        return "type", o
    if k == 1:
        n = max(0, min(65535, len(o) + rng.choice([-3, -2, -1, 1, 2, 3, 10, 256, -256])))
        o[2], o[3] = n >> 8, n & 255
        return "length-delta", o
    if k == 2:
        n = rng.choice([0, 1, 3, 4, 5, 0xFFFF, rng.randrange(65536)])
        o[2], o[3] = n >> 8, n & 255
        return "length-abs", o
    if k == 3:
        return "truncate", o[:rng.randrange(len(o))]
    if k == 4:
        return "extend", o + [r_octet(rng) for _ in range(rng.randint(1, 12))]
    if k == 5:
        o[1] = rng.choice([12, 13, 0x81, 0xFF, rng.randrange(256)])
        return "function", o
    if k == 6:
        i = rng.randrange(len(o))
        o[i] = (o[i] + rng.choice([1, 0x80, 0xFF])) % 256
        return "substitute", o
    if k == 7:
        i = rng.randrange(len(o) + 1)
        return "insert", o[:i] + [r_octet(rng)] + o[i:]
    if k == 8:
        i = rng.randrange(len(o))
        return "delete", o[:i] + o[i + 1:]
    if k == 9:      # cut the body, keep the header consistent
        t = o[:max(4, len(o) - rng.randint(1, 12))]
        t[2], t[3] = len(t) >> 8, len(t) & 255
        return "cut-consistent", t
    if k == 10:     # extend the body, keep the header consistent
        t = o + [r_octet(rng) for _ in range(rng.randint(1, 12))]
        t[2], t[3] = len(t) >> 8, len(t) & 255
        return "extend-consistent", t
    o[2], o[3] = o[3], o[2]
    return "length-swapped", o


def r_string(rng):
    r = rng.random()
    if r < 0.3:
        return "random", [rng.randrange(256) for _ in range(rng.randint(0, 16))]
    if r < 0.5:
        return "random-81", [0x81] + [r_octet(rng) for _ in range(rng.randint(0, 12))]
    body = [r_octet(rng) for _ in range(rng.choice([0, 1, 2, 5, 6, 7, 9, 10, 11, 20, rng.randint(0, 40)]))]
    fn = rng.randrange(14) if rng.random() < 0.8 else rng.randrange(256)
    n = len(body) + 4
    return "framed", [0x81, fn, n >> 8, n & 255] + body


def record_random(chk, rng, n_enc, n_dec):
    recs, bases = [], []
    for i in range(n_enc):
        if HANGS[0] >= 3:
            break
        rec = r_rec(rng, small=(i % 3 == 0))
        t = {"id": len(recs) + 1, "k": "enc", "rec": rec, "label": NAMES[rec["fn"]]}
        try:
            t["enc"], t["enc2"] = enc_direct(build_safe(rec)), enc_codec(build_safe(rec))
            t["back"] = dec_direct(t["enc"]["oct"]) if t["enc"]["ok"] else {"kind": "none"}
            t["back2"] = dec_codec(t["enc2"]["oct"]) if t["enc2"]["ok"] else {"up": False, "exc": "none"}
        except Hang:
            hang(chk, NAMES[rec["fn"]], {"kind": "enc", "rec": rec})
            continue
        recs.append(t)
        if t["enc"]["ok"] and len(t["enc"]["oct"]) <= 120:
            bases.append(t["enc"]["oct"])
    for i in range(n_dec):
        if HANGS[0] >= 3:
            break
        if bases and rng.random() < 0.7:
            label, o = mutate(rng, rng.choice(bases))
        else:
            label, o = r_string(rng)
        try:
            recs.append({"id": len(recs) + 1, "k": "dec", "oct": o, "label": label, "out": dec_direct(o), "up": dec_codec(o)})
        except Hang:
            hang(chk, "decode", {"kind": "dec", "oct": o})
    return recs


# ---- frames the library's own B/IP services produce ---------------------------------------------------------------
class Net(Client):
    def __init__(self):
        Client.__init__(self)
        self.got = []

    def confirmation(self, pdu):
        self.got.append(pdu)


def record_services(chk, rng, n, obs):
    """BIPSimple / BIPForeign / BIPBBMD above an AnnexJCodec above a capturing server: every datagram they put on the
    wire is recorded with the function it has to be and the NPDU / table it has to carry."""
    recs = []
    frames = {}     # Annex J octets of incoming requests come from the message classes validated above

    def wire(rec):
        return enc_direct(build_safe(rec))["oct"]

    def call(fn, *a, **kw):
        # an exception escaping a service here is not by itself a clause of C09: recorded as a deviation
        if HANGS[0] >= 3:
            return None
        try:
            with watchdog(10):
                return fn(*a, **kw)
        except Hang:
            hang(chk, "B/IP service scenario: " + getattr(fn, "__qualname__", str(fn)), {"kind": "services", "label": "hang"})
        except Exception as e:
            obs["service_scenario_exceptions"] += 1
            chk.deviation({"what": "exception in the B/IP service scenario", "call": getattr(fn, "__qualname__", str(fn)),
                           "exc": "%s: %s" % (type(e).__name__, e)})

    def emit(src, below, fn, chkkind="none", val=None):
        out = []
        for p in below.sent:
            out.append({"id": 0, "k": "emit", "label": src, "oct": list(p.pduData), "fn": fn, "chk": chkkind, "val": val if val is not None else []})
        del below.sent[:]
        return out

    def payload():
        return [r_octet(rng) for _ in range(rng.choice([0, 1, 2, 50, 480, 1024, 1476, 1497, rng.randint(0, 1497)]))]
    sta = Address(("10.1.2.3", 47808))
    fd1, fd2 = Address(("172.16.5.9", 47809)), Address(("192.168.200.254", 65535))
    # BIPSimple
    vt.reset(0.0)
    net, bip, codec, below = Net(), BIPSimple(), AnnexJCodec(), Below()
    bind(net, bip, codec, below)
    for _ in range(n):
        p = payload()
        call(net.request, PDU(bytes(p), destination=sta))
        recs += emit("BIPSimple unicast", below, 10, "npdu", p)
        call(net.request, PDU(bytes(p), destination=LocalBroadcast()))
        recs += emit("BIPSimple broadcast", below, 11, "npdu", p)
    for rec in ({"fn": 1, "bdt": []}, {"fn": 2}, {"fn": 5, "ttl": 30}, {"fn": 6}, {"fn": 8, "addr": {"ip": [10, 0, 0, 1], "port": 47808}},
                {"fn": 9, "npdu": [1, 0]}):
        call(below.response, PDU(bytes(wire(rec)), source=sta))
        recs += emit("BIPSimple answers " + NAMES[rec["fn"]], below, 0)
    # BIPForeign
    for ttl in [1, 30, 255, 256, 65535] + [rng.randint(1, 65535) for _ in range(max(1, n // 4))]:
        vt.reset(0.0)       # a fresh node per registration (after unregister() a BIPForeign ignores later results)
        net, bip, codec, below = Net(), BIPForeign(), AnnexJCodec(), Below()
        bind(net, bip, codec, below)
        call(bip.register, Address(("10.0.0.1", 47808)), ttl)
        call(vt.step_all)
        recs += emit("BIPForeign register", below, 5, "ttl", [ttl])
        call(below.response, PDU(bytes(wire({"fn": 0, "code": 0})), source=Address(("10.0.0.1", 47808))))
        p = payload()
        call(net.request, PDU(bytes(p), destination=sta))
        recs += emit("BIPForeign unicast", below, 10, "npdu", p)
        call(net.request, PDU(bytes(p), destination=LocalBroadcast()))
        recs += emit("BIPForeign broadcast", below, 9, "npdu", p)
        call(bip.unregister)
        recs += emit("BIPForeign unregister", below, 5, "ttl", [0])
    vt.reset(0.0)
    # BIPBBMD
    me = Address("10.0.1.2/24:47808")
    net, bip, codec, below = Net(), BIPBBMD(me), AnnexJCodec(), Below()
    bind(net, bip, codec, below)
    steps = [("peer", me), ("ask", None), ("peer", Address("10.0.2.2/24:47808")), ("peer", Address("192.168.7.1/32:47809")), ("ask", None),
             ("reg", (fd1, 30)), ("ask", None), ("reg", (fd2, 65530)), ("reg", (fd1, 600)), ("ask", None), ("traffic", None),
             ("del", fd1), ("del", fd1), ("ask", None), ("reg", (fd1, 65535)), ("ask", None)]
    for i in range(n):
        steps += [("reg", (Address((ipstr([10, 7, rng.randrange(256), rng.randrange(1, 255)]), rng.choice([47808, 1, 65535, rng.randrange(65536)]))),
                           rng.choice([1, 255, 256, 65530, rng.randint(1, 65530)]))), ("ask", None), ("traffic", None)]
    for op, a in steps:
        if op == "peer":
            call(bip.add_peer, a)
        elif op == "reg":
            call(below.response, PDU(bytes(wire({"fn": 5, "ttl": a[1]})), source=a[0], destination=me))
            recs += emit("BIPBBMD answers RegisterForeignDevice", below, 0)
        elif op == "del":
            call(below.response, PDU(bytes(wire({"fn": 8, "addr": p_addr(a)})), source=sta, destination=me))
            recs += emit("BIPBBMD answers DeleteForeignDeviceTableEntry", below, 0)
        elif op == "ask":
            bdt = [p_bdte(e) for e in bip.bbmdBDT]
            fdt = [p_fdte(e) for e in bip.bbmdFDT]
            call(below.response, PDU(bytes(wire({"fn": 2})), source=sta, destination=me))
            recs += emit("BIPBBMD Read-BDT-Ack", below, 3, "bdt", bdt)
            call(below.response, PDU(bytes(wire({"fn": 6})), source=sta, destination=me))
            wide = [e for e in fdt if not 0 <= e["rem"] <= 65535]
            if wide:
                # remaining time = TTL + 5 does not fit two octets: outside the value domain of the property; noted
                obs["fdt_remaining_above_65535"] = {"table_entry": wide[0], "frame": hexs(below.sent[0].pduData) if below.sent else None,
                                                    "note": "BIPBBMD stores remaining = TTL + 5; Read-FDT-Ack carries it modulo 65536 (C13 territory)"}
                recs += emit("BIPBBMD Read-FDT-Ack", below, 7)
            else:
                recs += emit("BIPBBMD Read-FDT-Ack", below, 7, "fdt", fdt)
            call(below.response, PDU(bytes(wire({"fn": 1, "bdt": bdt})), source=sta, destination=me))
            recs += emit("BIPBBMD answers Write-BDT", below, 0)
        else:
            p = payload()
            call(net.request, PDU(bytes(p), destination=sta))
            recs += emit("BIPBBMD unicast", below, 10, "npdu", p)
            call(net.request, PDU(bytes(p), destination=LocalBroadcast()))
            sent = emit("BIPBBMD broadcast", below, 4, "npdu", p)
            if sent:
                sent[0].update(fn=11)           # first the local Original-Broadcast, then one Forwarded-NPDU per peer / FD
            recs += sent
            call(below.response, PDU(bytes(wire({"fn": 9, "npdu": p})), source=fd2, destination=me))
            recs += emit("BIPBBMD distributes", below, 4, "npdu", p)
            call(below.response, PDU(bytes(wire({"fn": 11, "npdu": p})), source=sta, destination=LocalBroadcast()))
            recs += emit("BIPBBMD forwards local broadcast", below, 4, "npdu", p)
            call(below.response, PDU(bytes(wire({"fn": 4, "addr": {"ip": [10, 0, 2, 9], "port": 47808}, "npdu": p})), source=Address(("10.0.2.2", 47808)), destination=me))
            recs += emit("BIPBBMD re-forwards", below, 4, "npdu", p)
    bip.suspend_task()
    vt.reset(0.0)
    return recs


def validate(chk, recs, label, obs, timeout=1500):
    """one TLC run (Trace_BVLL) over the recorded evaluations; verdicts -> violations / deviations / observations"""
    if not recs:
        return
    for i, t in enumerate(recs):
        t["id"] = i + 1
    wd = tlc.workdir("c09tr")
    tf = os.path.join(wd, "recs.ndjson")
    with open(tf, "w") as f:
        for t in recs:
            f.write(json.dumps(t) + "\n")
    cfg = "INIT Init\nNEXT Next\nINVARIANT Report\nCHECK_DEADLOCK FALSE\n"
    try:
        res = tlc.run_tlc("Trace_BVLL", cfg_text=cfg, workers=min(4, int(os.environ.get("VERIF_TLC_WORKERS", "4"))), timeout=timeout,
                          env={"TRACE_FILE": tf}, name="Trace_BVLL/" + label)
    finally:
        shutil.rmtree(wd, ignore_errors=True)
    if res["error_kind"] or not res["finished"]:
        tlc.machinery_failure("trace validation run failed: %s\n%s" % (res["error"], res["output"][-3000:]))
    if res["distinct"] != len(recs):
        tlc.machinery_failure("trace validation evaluated %d of %d records" % (res["distinct"], len(recs)))
    chk.extra["trace_validation_states"] = chk.extra.get("trace_validation_states", 0) + res["distinct"]
    verdicts = {v["id"]: v for v in tlc.printed_values(res["output"])}
    for t in recs:
        v = verdicts.get(t["id"], {"why": frozenset(), "dev": frozenset(), "info": frozenset()})
        k = t["k"]
        chk.case((label, k, t["id"]), nontrivial=True, n=4 if k == "enc" else 2 if k == "dec" else 1)
        if k == "enc":
            rp = {"kind": "enc", "rec": t["rec"]}
            chk.monitor("OctetsEqualSpec", 2)
            chk.monitor("LengthFieldExact", 2)
            chk.monitor("FieldsEqualSpec", 2)
            sig = {"fn": t["rec"]["fn"], "path": "random-record"}
            det = {"record": _short(t["rec"]), "direct": hexs(t["enc"]["oct"]) if t["enc"]["ok"] else t["enc"]["exc"],
                   "codec": hexs(t["enc2"]["oct"]) if t["enc2"]["ok"] else t["enc2"]["exc"], "decode": _short(t["back"]),
                   "confirmation": _short(t["back2"])}
        elif k == "emit":
            rp = {"kind": "services", "label": t["label"]}
            chk.monitor("LengthFieldExact")
            chk.monitor("OctetsEqualSpec")
            sig = {"fn": t["fn"], "path": t["label"]}
            det = {"frame": hexs(t["oct"]), "datagram_octets": len(t["oct"]), "must_be_function": t["fn"], "must_carry": _short(t["val"], 200)}
        elif k == "raw":
            rp = {"kind": "raw", "fn": t["fn"], "body": t["body"]}
            sig = {"fn": "raw", "path": "BVLPDU"}
            det = {"fn": t["fn"], "body": hexs(t["body"]), "encode": t["enc"], "decode": _short(t["back"])}
        else:
            rp = {"kind": "dec", "oct": t["oct"]}
            o = t["oct"]
            sig = {"fn": o[1] if len(o) > 1 else None, "case": t["label"], "path": "random-octets"}
            det = {"octets": hexs(o), "datagram_octets": len(o), "decode": _short(t["out"]), "confirmation": _short(t["up"])}
            for name in v["info"]:
                obs[name if name != "UnknownFunction" else "unknown_function_frames"] += 1
            if "UnknownFunction" in v["info"] and t["up"]["exc"] == "KeyError":
                obs["F9_KeyError_escapes_confirmation"] += 1
                obs.setdefault("F9_example", hexs(o))
            for m in ("WrongTypeOrLengthRefused", "OnlyDecodingError"):
                if len(o) < 4 or o[0] != 0x81 or o[2] * 256 + o[3] != len(o):
                    chk.monitor(m)
            if t["out"]["kind"] == "rec":
                chk.monitor("FieldsEqualSpec", 2)
        for m in sorted(v["why"]):
            if m == "MALFORMED-CASE":
                tlc.machinery_failure("the harness generated a record outside the spec's domain: %r" % (t,))
            chk.violation(m, sig, det, rp)
        for m in sorted(v["dev"]):
            chk.deviation(dict(det, what=m))
        if not v["why"] and not v["dev"]:
            chk.traces_validated += 1


# ---------------------------------------------------------------------------------------------------------------
def main(tier, seed):
    chk = Check("C09", tier, seed)
    rng = random.Random(seed)
    thorough = tier == "thorough"
    chk.rule = ("model: one TLC state per case descriptor of MC_BVLL (record grid / octet-string grid); implementation: one "
                "evaluation = one encode or decode call path on the real classes (4 per record: class+BVLPDU encode, encode below "
                "AnnexJCodec, BVLPDU+class decode, AnnexJCodec.confirmation; 2 per octet string); distinct = distinct case "
                "descriptors / recorded inputs; non-trivial = all but the two parameterless functions")
    chk.assumptions = ["Annex J.2 transcribed from the standard's layout into BVLL.tla (12 functions; Secure-BVLL 0x0C not part of the twelve)",
                       "IPv4 addresses and masks carried as 4-octet sequences (TLC integers are 32 bit)",
                       "AnnexJCodec exercised between a capturing client and a capturing server; no sockets",
                       "frames with a consistent header whose body does not fit the function, and unknown function codes, are outside the "
                       "property's clauses: disagreements there are conformance deviations / observations, not violations"]
    obs = collections.defaultdict(int)
    # D + R, encode side
    check_registry(chk)
    vecs = run_model(chk, "Enc", thorough)
    for v in vecs:
        replay_enc_vector(chk, v)
    for v in vecs[:: max(1, len(vecs) // 4)][:4]:
        chk.sample({"case": v["d"], "record": _short(v["rec"], 200), "expected_octets": hexs(v["oct"], 40)})
    chk.extra["enc_vectors"] = len(vecs)
    chk.extra["enc_vector_octets"] = sum(len(v["oct"]) for v in vecs)
    chk.extra["payload_lengths_covered"] = len(set(len(v["rec"]["npdu"]) for v in vecs if "npdu" in v["rec"]))
    chk.extra["table_sizes_covered"] = len(set(len(v["rec"].get("bdt", v["rec"].get("fdt"))) for v in vecs if "bdt" in v["rec"] or "fdt" in v["rec"]))
    del vecs
    stale_length(chk)
    # D + R, decode side
    dvecs = run_model(chk, "Dec", thorough)
    sanity_model(chk)
    for v in dvecs:
        replay_dec_vector(chk, v, obs)
    chk.extra["dec_vectors"] = len(dvecs)
    chk.extra["dec_vectors_bad_frames"] = sum(1 for v in dvecs if v["bad"])
    for v in [v for v in dvecs if v["bad"]][:1] + [v for v in dvecs if v["d"]["g"] == "mut" and not v["bad"] and "err" in v["dec"]][:1]:
        chk.sample({"case": v["d"], "octets": hexs(v["oct"]), "spec_says": v["dec"]})
    del dvecs
    # T
    recs = record_random(chk, rng, 8000 if thorough else 2000, 60000 if thorough else 10000)
    recs += record_services(chk, rng, 60 if thorough else 16, obs)
    chk.extra["recorded"] = dict(collections.Counter(t["k"] for t in recs))
    chk.extra["recorded_by_label"] = dict(collections.Counter(t["label"] for t in recs if t["k"] != "enc"))
    validate(chk, recs, "T", obs)
    chk.extra["observations"] = dict(obs)
    chk.extra["observations"]["note"] = (
        "Dev_TrailingIgnored: frames of the fixed-size functions (00 02 05 06 08) with extra octets and a consistent header are "
        "accepted by the code (Annex J fixes their length); F9: an unknown function code with correct type and length raises KeyError "
        "out of AnnexJCodec.confirmation -- the frame is not passed upward; neither is covered by a clause of C09 (robustness: C10)")
    return chk.finish()


def replay(path):
    body = json.load(open(path))
    rp = body["replay"]
    chk = Check("C09", "quick", body.get("seed", 0))
    obs = collections.defaultdict(int)
    kind = rp["kind"]
    if kind == "enc":
        rec = rp["rec"]
        t = {"id": 1, "k": "enc", "rec": rec, "label": NAMES[rec["fn"]], "enc": enc_direct(build_safe(rec)), "enc2": enc_codec(build_safe(rec))}
        t["back"] = dec_direct(t["enc"]["oct"]) if t["enc"]["ok"] else {"kind": "none"}
        t["back2"] = dec_codec(t["enc2"]["oct"]) if t["enc2"]["ok"] else {"up": False, "exc": "none"}
        print(json.dumps({k: _short(v) for k, v in t.items()}))
        validate(chk, [t], "replay", obs)
    elif kind == "dec":
        o = rp["oct"]
        t = {"id": 1, "k": "dec", "oct": o, "label": "replay", "out": dec_direct(o), "up": dec_codec(o)}
        print(json.dumps({k: _short(v) for k, v in t.items()}))
        validate(chk, [t], "replay", obs)
    elif kind == "raw":
        o = [0x81, rp["fn"], (len(rp["body"]) + 4) >> 8, (len(rp["body"]) + 4) & 255] + rp["body"]
        t = {"id": 1, "k": "raw", "fn": rp["fn"], "body": rp["body"], "label": "raw", "enc": raw_enc(rp["fn"], rp["body"]), "back": raw_dec(o)}
        print(json.dumps(t))
        validate(chk, [t], "replay", obs)
    elif kind == "services":
        recs = [t for t in record_services(chk, random.Random(body.get("seed", 0)), 12, obs) if t["label"] == rp["label"]]
        validate(chk, recs, "replay", obs)
    elif kind == "stale":
        stale_length(chk)
        print(chk.extra["changed_after_construction"])
    else:
        check_registry(chk)
    return chk.finish()
