"""X04 -- the I/O control block machinery of bacpypes/iocb.py as a sequential library.   (spec/IOCB.tla, spec/Trace_IOCB.tla)

Objects: plain IOCBs, IOChain objects, IOGroups and one IOQController (a recording subclass: process_io notes the IOCB and
calls active_io; per IOCB it may instead raise, or complete the IOCB before it returns).  Virtual time (harness/vtime.py);
deferred _trigger calls and timer tasks are run one at a time by the harness, or all together by the library's own
core.run_once ("settle").

D  TLC exhaustive on IOCB.tla: a controller-centred configuration (3 IOCBs, 2 priorities, wait_time 0/1, raising and
   synchronous process_io, timeouts), a callback/timer one, a group one and a chain one (static copies: spec/MC_IOCB*.cfg),
   all state invariants and step formulas; liveness (every submitted request finishes) on a small one.  Each named deviation
   (AddCallbackRefires, CompleteOverridesDone, GroupAbortUnguarded, QueueAbortRaises, AbortIdleNoop, IdleBypass) must make
   TLC find a violation (vacuity check).
R  TLC dumps the labelled state graphs of further small configurations; an edge cover of each graph is executed on the real
   classes, the projected state is recorded after every call and the recorded executions go through Trace_IOCB
   (conformance step by step + every monitor evaluated by TLC on the logged states).
T  seeded random histories (up to 300 calls on 8 IOCBs, 2 chain objects, 2 groups, 3 priorities, timeouts, wait_time
   0..2) recorded and validated the same way.  Recorded traces with one falsified field each must be flagged by the
   matching monitor (binding self-test; machinery failure otherwise).

Conformance uses the deviation flags OBSERVED on the tree under test (probe_flags: six short scenarios), so that it stays
meaningful on a tree that has the reported defects as well as on a repaired one; the monitors never look at the flags.
A monitor failing on a recorded execution is a violation (signature: monitor, call, kind of target, case = the
situation the call was made in, from the state before it); a step the design model (with the observed flags) cannot take
is a conformance deviation.  A walk whose next call has nothing to act on in the implementation (no such timer / deferred
call) ends there: the step at which the implementation left the model is in the recorded part.
VERIF_X04_ASSUME_KNOWN=<json file> adds known-finding entries for one run (development aid; known_findings.json untouched).
"""
import os, sys, json, random, collections, time, shutil, threading, heapq, copy
from common import Check, VERIF, WORK, Hang, watchdog
import tlc, tlaval
import vtime

vt = vtime.install()
import bacpypes.core as core
from bacpypes.iocb import IOCB, IOChain, IOChainMixIn, IOGroup, IOQController

UNIT = 1.0
NOT = -1
QCTL = -1
STATES = {0: "idle", 1: "pending", 2: "active", 3: "completed", 4: "aborted"}
DEVIATIONS = ["AddCallbackRefires", "CompleteOverridesDone", "GroupAbortUnguarded", "QueueAbortRaises", "AbortIdleNoop",
              "IdleBypass"]
INTENDED = {d: False for d in DEVIATIONS}
INVS = ["TypeOK", "OneCompletion", "GroupDoneIffMembers", "OneActive", "QueueOrder", "PendingIffQueued", "QueuedAreBound",
        "NotEmptyEvent", "NoStall", "NoResidue", "ChainLinked"]
STEPS = ["Absorbing", "CallbackPerCompletion", "TimerCancelled", "StartInOrder", "TriggerProgress", "AbortRemovesPending",
         "AbortFreesController", "AbortAllPending", "NoException", "RefusalChangesNothing", "TimeoutAborts", "GroupAbort",
         "ChainOutcome"]
MONITORS = INVS[1:] + STEPS
ERR = RuntimeError("x04 abort")
HANGS = [0]


# ---- instrumented subclasses (the library's classes do all the work) ---------------------------------------------------------
class CountingEvent(threading.Event):
    """an Event that counts its clear -> set edges (the model's `gen`)"""

    def __init__(self, was_set=False):
        threading.Event.__init__(self)
        self.edges = 0
        if was_set:
            threading.Event.set(self)

    def set(self):
        if not self.is_set():
            self.edges += 1
        threading.Event.set(self)

    def isSet(self):
        return self.is_set()


class Counted(object):
    """IOCB.__init__ assigns self.ioComplete = threading.Event(): the assignment is redirected to a CountingEvent"""

    @property
    def ioComplete(self):
        return self.__dict__["_x04_event"]

    @ioComplete.setter
    def ioComplete(self, v):
        self.__dict__["_x04_event"] = CountingEvent(v.is_set())


class TIOCB(Counted, IOCB):
    pass


class TGroup(Counted, IOGroup):
    pass


class TChain(Counted, IOChain):
    def __init__(self, parent, enc_fails, dec_fails, **kw):
        self._x04_ef, self._x04_df = enc_fails, dec_fails
        IOChain.__init__(self, parent, "chained", **kw)

    def encode(self):
        IOChainMixIn.encode(self)
        if self._x04_ef:
            raise ValueError("x04: encode refuses")

    def decode(self):
        if self._x04_df:
            raise ValueError("x04: decode refuses")
        IOChainMixIn.decode(self)


class TCtl(IOQController):
    def __init__(self, rig):
        IOQController.__init__(self, "x04")
        self.rig = rig

    def process_io(self, iocb):
        x = self.rig.index(iocb)
        self.rig.out.append(x)
        k = self.rig.kind[x - 1]
        if k == "bad":
            raise ValueError("x04: process_io refuses")
        self.active_io(iocb)
        if k == "sync":
            self.complete_io(iocb, "sync")


class NotApplicable(Exception):
    """a call prescribed by a walk of the model has nothing to act on in the real state (no such timer / deferred call):
    the implementation left the model at an earlier step; the history ends here"""


class Rig:
    """real objects driven by the operations of IOCB.tla; layout = (B, C, G): object numbers 1..N"""

    def __init__(self, layout, prio, kind, wait):
        self.B, self.C, self.G = [list(s) for s in layout]
        self.N = len(self.B) + len(self.C) + len(self.G)
        assert sorted(self.B + self.C + self.G) == list(range(1, self.N + 1))
        self.prio, self.kind, self.wait = list(prio), list(kind), int(wait)
        vt.reset(0.0)
        self.ctrl = TCtl(self)
        self.ctrl.wait_time = self.wait * UNIT
        self.objs = {}
        for x in self.B:
            self.objs[x] = TIOCB("request %d" % x, _priority=self.prio[x - 1])
        for x in self.G:
            self.objs[x] = TGroup()
        for x in self.C:
            self.objs[x] = None
        self.ids = {id(o): x for x, o in self.objs.items() if o is not None}
        self.counts = {x: [] for x in range(1, self.N + 1)}
        self.decf = {x: False for x in range(1, self.N + 1)}
        self.reqseq, self.out, self.exc = [], [], ""

    def index(self, obj):
        return self.ids.get(id(obj), -9)

    # -- tasks
    def entry_of(self, task):
        for e in vt.tm.tasks:
            if e[2] is task:
                return e
        return None

    def wait_entries(self):
        mine = set(id(o.ioTimeout) for o in self.objs.values() if o is not None and o.ioTimeout is not None)
        return [e for e in vt.tm.tasks if id(e[2]) not in mine]

    def run_task(self, entry):
        """exactly this due task runs now, through TaskManager.get_next_task / process_task: its heap entry is given the
        smallest key so that the library pops it first; every other task stays in the heap (a completion that cancels
        another due timer must find it there); deferred calls are NOT drained"""
        tm = vt.tm
        if entry is None or entry[0] > vt.now:
            raise NotApplicable("no such task is due")
        i = [k for k, e in enumerate(tm.tasks) if e is entry][0]
        tm.tasks[i] = (float("-inf"), entry[1], entry[2])
        heapq.heapify(tm.tasks)
        t, delta = tm.get_next_task()
        assert t is entry[2]
        tm.process_task(t)

    # -- one operation of the model
    def apply(self, op, x=0, a=0, b=0):
        self.out, self.exc = [], ""
        o = self.objs.get(x)
        try:
            with watchdog(10):
                if op == "request":
                    self.reqseq.append(x)
                    self.ctrl.request_io(o)
                elif op == "complete":
                    o.complete("done %d" % x)
                elif op == "abort":
                    o.abort(ERR)
                elif op == "addcb":
                    cell = [0]
                    self.counts[x].append(cell)

                    def cb(iocb, cell=cell, o=o):
                        assert iocb is o
                        cell[0] += 1
                    o.add_callback(cb)
                elif op == "timeout":
                    o.set_timeout(a * UNIT)
                elif op == "fire":
                    self.run_task(self.entry_of(o.ioTimeout) if o.ioTimeout is not None else None)
                elif op == "trigger":
                    if not core.deferredFns:
                        raise NotApplicable("no deferred call is outstanding")
                    fn, args, kw = core.deferredFns.pop(0)
                    fn(*args, **kw)
                elif op == "wfire":
                    ws = [e for e in self.wait_entries() if e[0] <= vt.now]
                    self.run_task(ws[0] if ws else None)
                elif op == "advance":
                    vt.now = vt.now + UNIT
                elif op == "settle":
                    vt.errors = []
                    vt.step_all()
                    if vt.errors:
                        self.exc = "swallowed: %s" % (vt.errors[0][1],)
                elif op == "cabort":
                    self.ctrl.abort(ERR)
                elif op == "qabort":
                    self.ctrl.ioQueue.abort(ERR)
                elif op == "gadd":
                    o.add(self.objs[a])
                elif op == "gabort":
                    o.abort(ERR)
                elif op == "chain":
                    self.decf[x] = bool(b >= 2)
                    c = TChain(self.objs[a], bool(b % 2), bool(b >= 2), _priority=self.prio[x - 1])
                    self.objs[x] = c
                    self.ids[id(c)] = x
                else:
                    raise AssertionError(op)
        except (AssertionError, NotApplicable):
            raise
        except Exception as e:
            self.exc = type(e).__name__
        if op == "chain" and self.objs.get(x) is None:
            # the constructor raised: the object exists all the same (the parent refers to it)
            c = self.objs[a].ioController
            if isinstance(c, TChain):
                self.objs[x] = c
                self.ids[id(c)] = x

    # -- projection
    def proj(self):
        n = self.N
        now = vt.now
        st, ev, gen, cbs, tmo, ctl, mem = [], [], [], [], [], [], []
        for x in range(1, n + 1):
            o = self.objs[x]
            if o is None:
                st.append("unborn"); ev.append(False); gen.append(0); cbs.append([]); tmo.append(NOT); ctl.append(0); mem.append([])
                continue
            st.append(STATES.get(o.ioState, "state%r" % (o.ioState,)))
            ev.append(bool(o.wait(0)))
            gen.append(o.ioComplete.edges)
            cbs.append([c[0] for c in self.counts[x]])
            t = o.ioTimeout
            tmo.append(int(round((t.taskTime - now) / UNIT)) if (t is not None and t.isScheduled) else NOT)
            c = o.ioController
            ctl.append(0 if c is None else QCTL if c is self.ctrl else self.index(c))
            mem.append([self.index(m) for m in o.ioMembers] if isinstance(o, IOGroup) else [])
        c = self.ctrl
        ws = self.wait_entries()
        trig = sum(1 for fn, args, kw in core.deferredFns if fn is IOQController._trigger and args and args[0] is c)
        if trig != len(core.deferredFns):
            trig = -2                       # something else was deferred: not in the model's vocabulary
        return {"st": st, "ev": ev, "gen": gen, "cbs": cbs, "tmo": tmo, "ctl": ctl,
                "decf": [self.decf[x] for x in range(1, n + 1)], "mem": mem,
                "cstate": "idle" if c.state == 0 else "active" if c.active_iocb is not None else "waiting",
                "active": 0 if c.active_iocb is None else self.index(c.active_iocb),
                "queue": [self.index(i) for p, i in c.ioQueue.queue], "qne": bool(c.ioQueue.notempty.is_set()),
                "trig": trig, "wtm": NOT if not ws else -2 if len(ws) > 1 else int(round((ws[0][0] - now) / UNIT)),
                "reqseq": list(self.reqseq), "out": list(self.out), "exc": self.exc}


def run_history(layout, prio, kind, wait, ops=None, pick=None, n=0):
    """executes ops (or n operations chosen by pick(rig, last projection)) and records the projected state after every
    call; a hang ends the history.  Returns (events, operations, initial projection)."""
    rig = Rig(layout, prio, kind, wait)
    evs, done_ops = [], []
    s = s0 = rig.proj()
    total = len(ops) if pick is None else n
    for k in range(total):
        if HANGS[0] >= 3:
            break
        op = ops[k] if pick is None else pick(rig, s)
        op = tuple(op) + (0,) * (4 - len(op))
        try:
            if rig.objs.get(op[1], True) is None and op[0] != "chain":
                raise NotApplicable("the object does not exist")
            rig.apply(*op)
        except NotApplicable:
            break
        except Hang:
            done_ops.append(list(op))
            HANGS[0] += 1
            evs.append({"op": op[0], "x": op[1], "a": op[2], "b": op[3], "hang": True})
            vt.reset(0.0)
            break
        done_ops.append(list(op))
        s = rig.proj()
        evs.append({"op": op[0], "x": op[1], "a": op[2], "b": op[3], "s": s})
    return evs, done_ops, s0


# ---- python -> TLA+ text -------------------------------------------------------------------------------------------------
def tla(v):
    if isinstance(v, bool):
        return "TRUE" if v else "FALSE"
    if isinstance(v, int):
        return str(v)
    if isinstance(v, str):
        return '"%s"' % v
    if isinstance(v, (list, tuple)):
        return "<<" + ", ".join(tla(x) for x in v) + ">>"
    if isinstance(v, (set, frozenset)):
        return "{" + ", ".join(sorted(tla(x) for x in v)) + "}"
    raise TypeError(v)


ALL_OPS = ("request", "complete", "abort", "cabort", "qabort", "gabort", "settle")


def const_lines(layout, flags, waits=(0,), delays=(), enc=(False,), dec=(False,), maxcb=0, maxtrig=2, cbon=None, timeron=None,
                ops=ALL_OPS):
    B, C, G = layout
    allx = list(B) + list(C) + list(G)
    L = ["CONSTANTS", "  B = %s" % tla(set(B)), "  C = %s" % tla(set(C)), "  G = %s" % tla(set(G)),
         "  PrioMaps <- c_P", "  KindMaps <- c_K", "  Waits = %s" % tla(set(waits)), "  Delays = %s" % tla(set(delays)),
         "  EncFails = %s" % tla(set(enc)), "  DecFails = %s" % tla(set(dec)), "  MaxCb = %d" % maxcb, "  MaxTrig = %d" % maxtrig, "  MaxFire = 3",
         "  CbOn = %s" % tla(set(allx if cbon is None else cbon)), "  TimerOn = %s" % tla(set(allx if timeron is None else timeron)),
         "  Ops = %s" % tla(set(ops))]
    L += ["  %s = %s" % (d, tla(bool(flags.get(d, False)))) for d in DEVIATIONS]
    return L


def mc_files(name, layout, prios, kinds, flags=INTENDED, view=True, props=True, invs=True, **kw):
    body = "---- MODULE %s ----\nEXTENDS IOCB\nc_P == %s\nc_K == %s\n====\n" % (
        name, tla(set(tuple(p) for p in prios)), tla(set(tuple(k) for k in kinds)))
    L = const_lines(layout, flags, **kw) + ["SPECIFICATION Spec", "CHECK_DEADLOCK FALSE"]
    if view:
        L.append("VIEW view")
    if invs:
        L += ["INVARIANT " + i for i in INVS]
    if props:
        L += ["PROPERTY P_" + p for p in STEPS]
    return {name + ".tla": body}, "\n".join(L) + "\n"


def run_mc(chk, name, expect_error=False, dump=None, timeout=900, static=None, **kw):
    if static:
        res = tlc.run_tlc("MC_IOCB", cfg_file=static, timeout=timeout, name="IOCB/" + name)
    else:
        files, cfg = mc_files("MCgen_" + name, **kw)
        res = tlc.run_tlc("MCgen_" + name, cfg_text=cfg, files=files, timeout=timeout, dump_dot=dump, name="IOCB/" + name)
    if not expect_error:
        chk.tlc(res)
        if res["error_kind"]:
            tlc.machinery_failure("design model %s violates %s\n%s" % (name, res["error"], res["output"][-3000:]))
    else:
        if res["error_kind"] not in ("invariant", "action_property", "property", "temporal", "assert"):
            tlc.machinery_failure("sanity: deviation config %s should violate a property, got %r\n%s" % (
                name, res["error"], res["output"][-2000:]))
        chk.extra.setdefault("sanity", []).append("config %s violates %s as expected (%d states)" % (
            name, res["error"], res["distinct"]))
    return res


# ---- R: spec -> code -----------------------------------------------------------------------------------------------------
def edge_cover(nodes, edges, init, maxlen=250):
    """walks from init that together take every edge reachable from init: follow untaken edges greedily; when the current
    node has none left, go on along a shortest path to the nearest node that has (instead of starting over); a walk ends
    after about maxlen steps"""
    succ = collections.defaultdict(list)
    for u, v in edges:
        succ[u].append(v)
    reach = {init}
    dq = collections.deque([init])
    while dq:
        u = dq.popleft()
        for v in succ[u]:
            if v not in reach:
                reach.add(v)
                dq.append(v)
    todo = {u: list(succ[u]) for u in reach if succ[u]}
    remaining = sum(len(v) for v in todo.values())

    def nearest(u):
        par = {u: None}
        dq = collections.deque([u])
        while dq:
            w = dq.popleft()
            if w is not u and todo.get(w):
                path = []
                while par[w] is not None:
                    path.append(w)
                    w = par[w]
                return path[::-1]
            for v in succ[w]:
                if v not in par:
                    par[v] = w
                    dq.append(v)
        return None
    walks = []
    while remaining:
        walk, u = [], init
        while len(walk) < maxlen:
            if todo.get(u):
                v = todo[u].pop()
                remaining -= 1
                walk.append(v)
                u = v
            else:
                path = nearest(u)
                if path is None:
                    break
                walk += path
                u = path[-1]
        if not walk:
            break
        walks.append(walk)
    return walks


def seqval(v):
    if isinstance(v, dict):
        return [v[k] for k in sorted(v)]
    return list(v)


def replay_graph(chk, name, layout, **kw):
    """TLC dumps the state graph of a configuration; an edge cover of it becomes a list of histories"""
    wd = tlc.workdir("dot")
    dot = os.path.join(wd, "g")
    try:
        run_mc(chk, name, dump=dot, layout=layout, view=False, props=False, invs=False, **kw)
        nodes, edges, init0 = tlaval.parse_dot(dot + ".dot")
    finally:
        shutil.rmtree(wd, ignore_errors=True)
    inits = sorted(n for n, st in nodes.items() if st["act"]["op"] == "init")
    out = []
    steps = 0
    for init in inits:
        st0 = nodes[init]
        for w in edge_cover(nodes, edges, init):
            ops = [[nodes[v]["act"]["op"], nodes[v]["act"]["x"], nodes[v]["act"]["a"], nodes[v]["act"]["b"]] for v in w]
            steps += len(ops)
            out.append({"layout": [list(s) for s in layout], "prio": seqval(st0["prio"]), "kind": seqval(st0["kind"]),
                        "wait": st0["wait"], "ops": ops})
    chk.extra.setdefault("replay", []).append({"config": name, "graph_nodes": len(nodes), "graph_edges": len(edges),
                                               "initial_states": len(inits), "walks": len(out), "steps": steps})
    return out


# ---- T: seeded random histories --------------------------------------------------------------------------------------------
T_LAYOUT = (list(range(1, 9)), [9, 10], [11, 12])


def enabled_ops(rig, s, rng, maxcb=3):
    """the calls the model has a meaning for in the projected state s (preconditions of the actions of IOCB.tla), weighted"""
    B, C, G = rig.B, rig.C, rig.G
    born = [x for x in B + C if s["st"][x - 1] != "unborn"]
    done = lambda x: s["st"][x - 1] in ("completed", "aborted")
    ops = []
    for x in born:
        live = not done(x)
        if s["st"][x - 1] == "idle" and s["ctl"][x - 1] == 0:
            ops += [("request", x)] * 12
        if s["ctl"][x - 1] <= 0:
            if live or rng.random() < 0.25:
                ops += [("complete", x)] * (10 if s["active"] == x else 2 if (live and s["ctl"][x - 1] == 0 and s["st"][x - 1] != "idle") else 1)
        if live or rng.random() < 0.25:
            ops += [("abort", x)] * (2 if live and s["st"][x - 1] != "idle" else 1)
    for x in born + G:
        if len(s["cbs"][x - 1]) < maxcb:
            ops += [("addcb", x)] * (2 if not s["ev"][x - 1] else 1)
        if not s["ev"][x - 1] or rng.random() < 0.3:
            ops += [("timeout", x, rng.choice([1, 1, 2, 3]))]
        if s["tmo"][x - 1] == 0:
            ops += [("fire", x)] * 8
    if s["trig"] > 0:
        ops += [("trigger",)] * 16
    if s["wtm"] == 0 and s["cstate"] == "waiting":
        ops += [("wfire",)] * 16
    timers = [t for t in s["tmo"] + [s["wtm"]] if t != NOT]
    if 0 not in timers:
        ops += [("advance",)] * (6 if timers else 1)
    pending_now = sum(1 for t in timers if t == 0) + s["trig"]
    if 0 < pending_now <= 3:
        ops += [("settle",)] * 6
    ops += [("cabort",)] * (2 if s["queue"] else 1)
    ops += [("qabort",)] * (2 if s["queue"] else 1)
    for g in G:
        for m in born:
            if m in s["mem"][g - 1]:
                continue
            if any(s["ctl"][y - 1] == m or s["ctl"][m - 1] == y for y in s["mem"][g - 1]):
                continue                        # (usage restriction of the model: not an IOCB and its live chain object)
            ops += [("gadd", g, m)] * 2
        ops += [("gabort", g)] * (2 if s["mem"][g - 1] and not s["ev"][g - 1] else 1)
    for c in C:
        if s["st"][c - 1] == "unborn":
            for p in B:
                if s["st"][p - 1] == "idle" and s["ctl"][p - 1] == 0:
                    ops += [("chain", c, p, rng.choice([0, 0, 0, 0, 1, 2, 3]))]
    return ops


def t_history(job):
    tid, tseed, nops = job
    rng = random.Random(tseed)
    n = 12
    prio = [rng.choice([0, 0, 1, 2]) for _ in range(n)]
    kind = [rng.choice(["norm"] * 8 + ["bad", "sync"]) if x <= 10 else "norm" for x in range(1, n + 1)]
    wait = rng.choice([0, 0, 1, 2])

    evs, ops, s0 = run_history(T_LAYOUT, prio, kind, wait, pick=lambda rig, s: rng.choice(enabled_ops(rig, s, rng)), n=nops)
    return {"tid": tid, "layout": [list(x) for x in T_LAYOUT], "prio": prio, "kind": kind, "wait": wait, "evs": evs, "ops": ops,
            "s0": s0}


def exec_walk(job):
    tid, h = job
    evs, ops, s0 = run_history(h["layout"], h["prio"], h["kind"], h["wait"], h["ops"])
    return {"tid": tid, "layout": h["layout"], "prio": h["prio"], "kind": h["kind"], "wait": h["wait"], "evs": evs, "ops": ops,
            "s0": s0, "cut": h["ops"][len(ops)] if len(ops) < len(h["ops"]) and not (evs and evs[-1].get("hang")) else None}


# ---- what the tree under test does on the six named axes (only the conformance side of the validation uses it) ----------------
def probe_flags():
    L = ([1, 2, 3], [], [4])
    K = ["norm"] * 4

    def run(ops):
        evs, _, _ = run_history(L, [0, 0, 0, 0], K, 0, ops)
        return [e.get("s") for e in evs]
    f = {}
    s = run([("addcb", 1), ("complete", 1), ("addcb", 1)])
    f["AddCallbackRefires"] = bool(s[-1]) and s[-1]["cbs"][0] == [2, 1]
    s = run([("abort", 1), ("complete", 1)])
    f["CompleteOverridesDone"] = bool(s[-1]) and s[-1]["st"][0] == "completed"
    s = run([("gadd", 4, 1), ("addcb", 4), ("gabort", 4)])
    f["GroupAbortUnguarded"] = bool(s[-1]) and (s[-1]["st"][3] != "aborted" or s[-1]["cbs"][3] != [1])
    s = run([("request", 1), ("request", 2), ("qabort",)])
    f["QueueAbortRaises"] = bool(s[-1]) and s[-1]["exc"] != ""
    s = run([("request", 1), ("request", 2), ("complete", 1), ("cabort",)])
    f["AbortIdleNoop"] = bool(s[-1]) and s[-1]["st"][1] == "pending"
    s = run([("request", 1), ("request", 2), ("complete", 1), ("request", 3)])
    f["IdleBypass"] = bool(s[-1]) and s[-1]["out"] == [3]
    return f


# ---- trace validation ----------------------------------------------------------------------------------------------------------
def validate(chk, traces, label, flags):
    """one TLC run per object layout and batch; returns {tid: verdict}"""
    verdicts = {}
    bylayout = collections.OrderedDict()
    for t in traces:
        bylayout.setdefault(json.dumps(t["layout"]), []).append(t)
    for lk, ts in bylayout.items():
        layout = json.loads(lk)
        batches, batch, size = [], [], 0
        for t in ts:
            batch.append(t)
            size += (len(t["evs"]) + 1) * (len(t["prio"]) + 4)
            if size > 450000:
                batches.append(batch)
                batch, size = [], 0
        if batch:
            batches.append(batch)
        body = "---- MODULE TRgen ----\nEXTENDS Trace_IOCB\nc_P == {}\nc_K == {}\n====\n"
        cfg = "\n".join(const_lines(layout, flags) + ["SPECIFICATION TSpec", "CHECK_DEADLOCK FALSE"]) + "\n"
        for bi, batch in enumerate(batches):
            wd = tlc.workdir("tr")
            tf = os.path.join(wd, "traces.ndjson")
            with open(tf, "w") as f:
                for t in batch:
                    evs = [{k: e[k] for k in ("op", "x", "a", "b", "s")} for e in t["evs"]]
                    f.write(json.dumps({"tid": t["tid"], "prio": t["prio"], "kind": t["kind"], "wait": t["wait"], "evs": evs}) + "\n")
            try:
                res = tlc.run_tlc("TRgen", cfg_text=cfg, files={"TRgen.tla": body},
                                  workers=min(8, int(os.environ.get("VERIF_TLC_WORKERS", "16"))), timeout=2400,
                                  env={"TRACE_FILE": tf}, name="Trace_IOCB/%s/%d" % (label, bi))
            finally:
                shutil.rmtree(wd, ignore_errors=True)
            if res["error_kind"] or not res["finished"]:
                tlc.machinery_failure("trace validation run failed: %s\n%s" % (res["error"], res["output"][-3000:]))
            got = {v["tid"]: v for v in tlc.printed_values(res["output"])}
            if len(got) != len(batch):
                tlc.machinery_failure("trace validation returned %d verdicts for %d traces\n%s" % (
                    len(got), len(batch), res["output"][-2000:]))
            verdicts.update(got)
            chk.extra["trace_validation_states"] = chk.extra.get("trace_validation_states", 0) + res["distinct"]
    return verdicts


def kind_of(t, x):
    B, C, G = t["layout"]
    return "group" if x in G else "chain" if x in C else "iocb" if x in B else ""


def classify(t, l):
    """signature of a monitor failure at step l: the call and the situation it was made in (pre-state facts only)"""
    e = t["evs"][l - 1]
    pre = t["evs"][l - 2]["s"] if l > 1 else t["s0"]
    op, x, a = e["op"], e["x"], e["a"]
    done = lambda y: 1 <= y <= len(pre["ev"]) and pre["ev"][y - 1]
    isgroup = kind_of(t, x) == "group"
    case = "other"
    if op == "addcb" and done(x):
        case = "add_callback_on_finished"
    elif op == "gadd" and done(a):
        case = "group_add_of_finished_member"
    elif op == "complete" and pre["ctl"][x - 1] == 0 and done(x):
        case = "complete_on_finished_unbound"
    elif op == "gabort" or (op == "fire" and isgroup):
        case = "group_abort_of_finished_group" if done(x) else "group_abort_of_unfinished_group"
    elif op == "settle" and any(pre["tmo"][g - 1] == 0 for g in t["layout"][2]):
        g = [g for g in t["layout"][2] if pre["tmo"][g - 1] == 0][0]           # the timeout task of a group runs in this pass
        case = "group_abort_of_finished_group" if done(g) else "group_abort_of_unfinished_group"
    elif op == "qabort" and pre["queue"]:
        case = "ioqueue_abort_nonempty"
    elif op == "cabort" and pre["queue"] and pre["cstate"] == "idle":
        case = "controller_abort_idle_with_queue"
    elif op == "request" and pre["queue"] and pre["cstate"] == "idle":
        case = "request_idle_with_queue"
    return {"op": op, "target": kind_of(t, x), "case": case}


def count_monitors(chk, t):
    pre = t["s0"]
    for e in t["evs"]:
        if e.get("hang"):
            break
        s, op, x = e["s"], e["op"], e["x"]
        for m in ("OneCompletion", "OneActive", "QueueOrder", "PendingIffQueued", "NotEmptyEvent", "NoStall", "NoResidue",
                  "Absorbing", "CallbackPerCompletion"):
            chk.monitor(m)
        chk.monitor("GroupDoneIffMembers", 1 if any(s["mem"]) else 0)
        chk.monitor("ChainLinked", 1 if any(c > 0 for c in s["ctl"]) else 0)
        chk.monitor("StartInOrder", len(s["out"]))
        chk.monitor("TimeoutAborts", 1 if op == "fire" else 0)
        chk.monitor("GroupAbort", 1 if (op == "gabort" or (op == "fire" and kind_of(t, x) == "group")) else 0)
        chk.monitor("AbortAllPending", 1 if op in ("cabort", "qabort") and pre is not None and pre["queue"] else 0)
        chk.monitor("AbortRemovesPending", 1 if op == "abort" and pre is not None and pre["st"][x - 1] == "pending" else 0)
        chk.monitor("AbortFreesController", 1 if op in ("abort", "fire") and pre is not None and pre["active"] == x else 0)
        chk.monitor("TriggerProgress", 1 if op in ("trigger", "wfire") and pre is not None and pre["queue"] else 0)
        chk.monitor("NoException", 1 if s["exc"] else 0)
        chk.monitor("TimerCancelled", 1 if pre is not None and any(p != NOT and q == NOT for p, q in zip(pre["tmo"], s["tmo"])) else 0)
        chk.monitor("ChainOutcome", 1 if pre is not None and any(c > 0 for c in pre["ctl"]) and any(
            c > 0 and s["ev"][c - 1] for c in pre["ctl"]) else 0)
        pre = s


def note_cases(chk, t):
    pre = t["s0"]
    for e in t["evs"]:
        if e.get("hang"):
            break
        s = e["s"]
        x = e["x"]
        before = (pre["st"][x - 1] if x and pre else "") if pre else ""
        chk.case((e["op"], kind_of(t, x), before, pre["cstate"] if pre else "idle", min(len(pre["queue"]), 3) if pre else 0,
                  min(pre["trig"], 2) if pre else 0, s["cstate"], tuple(s["out"][:2]) != (), s["exc"] != "",
                  s["st"][x - 1] if x else ""), nontrivial=True)
        pre = s


def corrupted_copies(traces):
    """binding self-test: copies of recorded traces with one logged field falsified, and the monitor that must notice"""
    out = []

    def first(pred):
        for t in traces:
            for i, e in enumerate(t["evs"]):
                if not e.get("hang") and pred(e["s"], e):
                    return t, i
        return None, None

    def cut(t, i):
        c = copy.deepcopy(t)
        c["evs"] = c["evs"][:i + 1]
        return c, c["evs"][i]["s"]
    t, i = first(lambda s, e: len(s["queue"]) >= 2)
    if t is not None:
        c, s = cut(t, i)
        s["queue"] = s["queue"][::-1]
        out.append((c, "QueueOrder"))
    t, i = first(lambda s, e: any(k for k in s["cbs"]))
    if t is not None:
        c, s = cut(t, i)
        k = [j for j, v in enumerate(s["cbs"]) if v][0]
        s["cbs"][k][0] += 1
        out.append((c, "CallbackPerCompletion"))
    t, i = first(lambda s, e: s["active"] != 0)
    if t is not None:
        c, s = cut(t, i)
        s["cstate"] = "idle"
        out.append((c, "OneActive"))
    t, i = first(lambda s, e: s["cstate"] == "idle" and s["queue"] and s["trig"] > 0)
    if t is not None:
        c, s = cut(t, i)
        s["trig"] = 0
        out.append((c, "NoStall"))
    t, i = first(lambda s, e: e["op"] == "complete" and e["x"] and s["st"][e["x"] - 1] == "completed" and s["tmo"][e["x"] - 1] == NOT)
    if t is not None:
        c, s = cut(t, i)
        s["tmo"][c["evs"][i]["x"] - 1] = 1
        out.append((c, "TimerCancelled"))
    for k, (c, m) in enumerate(out):
        c["tid"] = 9000001 + k
    return out


def judge(chk, traces, label, seen, flags, selftest=False):
    """hangs, TLC verdicts -> violations / deviations / accepted traces"""
    runnable = []
    for t in traces:
        rp = {"kind": "history", "layout": t["layout"], "prio": t["prio"], "kind_": t["kind"], "wait": t["wait"], "ops": t["ops"]}
        t["replay"] = rp
        if t["evs"] and t["evs"][-1].get("hang"):
            ev = t["evs"].pop()
            chk.violation("Terminates", {"op": ev["op"], "target": kind_of(t, ev["x"])},
                          {"what": "the call did not return within 10 s", "step": len(t["evs"]) + 1, "call": [ev["op"], ev["x"], ev["a"], ev["b"]],
                           "prefix": t["ops"][max(0, len(t["evs"]) - 8):len(t["evs"]) + 1]}, rp)
        if t["evs"]:
            runnable.append(t)
    if not runnable:
        return
    probes = corrupted_copies(runnable) if selftest else []
    verdicts = validate(chk, runnable + [c for c, m in probes], label, flags)
    for c, m in probes:
        got = sorted(set(x[0] for x in verdicts[c["tid"]]["viol"]))
        if m not in got:
            tlc.machinery_failure("binding self-test: a trace with a falsified field (%s expected) was judged %r" % (m, got))
        chk.extra.setdefault("binding_selftest", []).append("falsified trace flagged by %s as expected (also: %s)" % (
            m, ", ".join(x for x in got if x != m) or "-"))
    classes = chk.extra.setdefault("violation_classes", {})
    for t in runnable:
        v = verdicts[t["tid"]]
        count_monitors(chk, t)
        unknown = False
        vset = set((m, l) for m, l in v["viol"])
        for m, l in sorted(v["viol"], key=lambda x: (x[1], x[0])):
            if m in INVS and (m, l - 1) in vset:
                continue                    # a state invariant is reported at the step that breaks it, not at every step after
            sig = classify(t, l)
            gk = (m, sig["case"], sig["op"], sig["target"]) if sig["case"] == "other" else (m, sig["case"])
            ck = "/".join(gk)
            classes[ck] = classes.get(ck, 0) + 1
            if chk.known_id(m, sig) is None:
                unknown = True
            if gk in seen:
                continue
            seen.add(gk)
            e = t["evs"][l - 1]
            pre = t["evs"][l - 2]["s"] if l > 1 else t["s0"]
            detail = {"step": l, "call": [e["op"], e["x"], e["a"], e["b"]], "state_before": brief(pre), "state_after": brief(e["s"]),
                      "first_step_the_design_cannot_take": v["rej"],
                      "prefix": t["ops"][max(0, l - 10):l], "layout": t["layout"]}
            chk.violation(m, sig, detail, dict(t["replay"], step=l))
        if v["rej"]:
            # the design model (with the flags observed on this tree) cannot take this step: reported whether or not a
            # monitor failed somewhere in the trace
            l = v["rej"]
            e = t["evs"][l - 1]
            chk.deviation({"tid": t["tid"], "step": l, "call": [e["op"], e["x"], e["a"], e["b"]],
                           "state_before": brief(t["evs"][l - 2]["s"] if l > 1 else t["s0"]), "state_after": brief(e["s"]),
                           "flags": flags, "replay": dict(t["replay"], step=l)})
        elif t.get("cut") and not v["viol"]:
            chk.deviation({"tid": t["tid"], "what": "the next call of the model's walk has nothing to act on in the implementation, "
                           "yet every recorded step conforms", "call": t["cut"], "state": brief(t["evs"][-1]["s"]),
                           "replay": t["replay"]})
        elif not unknown:
            chk.traces_validated += 1


def brief(s):
    if s is None:
        return None
    return {k: s[k] for k in ("st", "ev", "gen", "cbs", "tmo", "ctl", "mem", "cstate", "active", "queue", "trig", "wtm", "out", "exc")}


def extra_findings(chk):
    """development aid: VERIF_X04_ASSUME_KNOWN=<json file with {"findings": [...]}> adds entries to the known findings of
    this run only (known_findings.json stays as it is), to see what else a tree does once the reported defects are set aside"""
    p = os.environ.get("VERIF_X04_ASSUME_KNOWN")
    if p:
        chk.findings = list(chk.findings) + json.load(open(p)).get("findings", [])
        chk.extra["assumed_known_findings_file"] = p


# ---------------------------------------------------------------------------------------------------------------------------------
N3 = ["norm", "norm", "norm"]
N4 = ["norm"] * 4
P3 = [[0, 0, 0], [0, 1, 0], [1, 0, 0], [0, 0, 1]]


def main(tier, seed):
    chk = Check("X04", tier, seed)
    extra_findings(chk)
    thorough = tier == "thorough"
    rng = random.Random(seed)
    chk.rule = ("model: every sequence of calls / deferred calls / timer firings of IOCB.tla in the stated configurations; "
                "implementation: one evaluation = one call into the real iocb.py classes (or one timer task / deferred "
                "_trigger / run_once pass) with the projected state of every object and of the controller recorded "
                "afterwards; distinct = (call, kind of target, its state before, controller state / queue length / "
                "outstanding triggers before, controller state after, started anything, raised, state of the target after)")
    chk.assumptions = [
        "the controller is a recording subclass of IOQController (process_io notes the IOCB and calls active_io; for chosen "
        "IOCBs it raises, or completes the IOCB before returning); IOCB / IOChain / IOGroup are subclassed only to count "
        "the clear->set edges of the completion event and to make encode() / decode() raise on demand",
        "sequential use only: no threads, callbacks do not call back into the library; wait() is observed as wait(0)",
        "request_io is applied to fresh (IDLE, unbound) IOCBs; a chained IOCB is not completed directly; an IOCB and its "
        "live chain object are not put into the same group; groups are not nested; integer priorities",
        "IOQController.abort is taken by its docstring (all PENDING requests are aborted, the active one is left alone); "
        "abort_io of the active request does not honour wait_time (as coded; not judged)",
        "virtual clock, one unit = 1 s; a due timer runs before the clock moves on; within one instant the harness runs "
        "timers and deferred calls one at a time in any order, or all of them through core.run_once ('settle')",
        "the conformance side of the trace validation uses the deviation flags observed on the tree by six probe scenarios "
        "(recorded as code_flags_observed); the monitors do not depend on the flags",
        "TLC exhaustive on the stated small configurations only; longer histories by trace validation of random runs"]
    phases = chk.extra.setdefault("phase_wall_s", {})

    def phase(name, t0=[time.time()]):
        phases[name] = round(time.time() - t0[0], 1)
        t0[0] = time.time()

    # D: the design satisfies the properties
    if thorough:
        for cfg in ("MC_IOCB.cfg", "MC_IOCB_timers.cfg", "MC_IOCB_group.cfg", "MC_IOCB_chain.cfg"):
            run_mc(chk, cfg[:-4], static=cfg, timeout=2400)
    else:
        run_mc(chk, "ctl", layout=([1, 2, 3], [], []), prios=P3[:3], kinds=[N3, ["norm", "bad", "sync"]], waits=[0, 1],
               delays=[1], maxcb=0, timeron=[1])
        run_mc(chk, "timers", layout=([1, 2], [], []), prios=[[0, 0], [1, 0]], kinds=[N3[:2]], waits=[0, 1], delays=[1, 2], maxcb=2,
               cbon=[1])
        run_mc(chk, "group", layout=([1, 2], [], [3]), prios=[[0, 0, 0]], kinds=[N3], waits=[0], delays=[1], maxcb=1,
               cbon=[1, 3], timeron=[3])
        run_mc(chk, "chain", layout=([1, 2], [3], []), prios=[[0, 0, 0]], kinds=[N3], waits=[0], delays=[1], enc=[False, True],
               dec=[False, True], maxcb=1, cbon=[1, 3], timeron=[1])
    res = tlc.run_tlc("MC_IOCB", cfg_file="MC_IOCB_live.cfg", timeout=1200, name="IOCB/live")
    chk.tlc(res)
    if res["error_kind"]:
        tlc.machinery_failure("design model (liveness) violates %s\n%s" % (res["error"], res["output"][-3000:]))
    # vacuity: each named deviation is caught by some formula
    for dev in DEVIATIONS:
        if dev == "GroupAbortUnguarded":
            run_mc(chk, "dev_" + dev, expect_error=True, layout=([1, 2], [], [3]), prios=[[0, 0, 0]], kinds=[N3], waits=[0],
                   delays=[1], maxcb=1, cbon=[3], timeron=[3], flags=dict(INTENDED, **{dev: True}))
        else:
            run_mc(chk, "dev_" + dev, expect_error=True, layout=([1, 2, 3], [], []), prios=P3[:2], kinds=[N3], waits=[0],
                   delays=[], maxcb=2, cbon=[1], flags=dict(INTENDED, **{dev: True}))
    phase("D_model_checking")

    # what the tree does on the named axes
    flags = probe_flags()
    chk.extra["code_flags_observed"] = flags

    # R: edge covers of TLC's graphs (of the design with the observed flags), executed on the real classes
    two = [["norm", "norm"], ["bad", "sync"]]
    hist = replay_graph(chk, "R_ctl2", ([1, 2], [], []), prios=[[0, 0], [1, 0]], kinds=two, waits=[0, 1], delays=[], maxcb=0, flags=flags)
    if thorough:
        hist += replay_graph(chk, "R_ctl3", ([1, 2, 3], [], []), prios=P3[:3], kinds=[N3], waits=[0, 1], delays=[], maxcb=0,
                             ops=["request", "complete", "cabort"], flags=flags)
        hist += replay_graph(chk, "R_ctl3k", ([1, 2, 3], [], []), prios=P3[:1], kinds=[["norm", "bad", "sync"]], waits=[0], delays=[],
                             maxcb=0, flags=flags)
        hist += replay_graph(chk, "R_timers", ([1, 2], [], []), prios=[[0, 0]], kinds=two[:1], waits=[0, 1], delays=[1], maxcb=1, cbon=[1],
                             timeron=[1, 2], ops=["request", "complete", "abort", "settle"], flags=flags)
        hist += replay_graph(chk, "R_group", ([1, 2], [], [3]), prios=[[0, 0, 0]], kinds=[N3], waits=[0], delays=[1], maxcb=1,
                             cbon=[3], timeron=[3], ops=["complete", "abort", "gabort"], flags=flags)
        hist += replay_graph(chk, "R_groupq", ([1, 2], [], [3]), prios=[[0, 0, 0]], kinds=[N3], waits=[0], delays=[], maxcb=1,
                             cbon=[3], ops=["request", "complete", "gabort"], flags=flags)
        hist += replay_graph(chk, "R_chain", ([1, 2], [3], []), prios=[[0, 0, 0]], kinds=[N3], waits=[0], delays=[], enc=[False, True],
                             dec=[False, True], maxcb=1, cbon=[1], ops=["request", "complete", "abort"], flags=flags)
        hist += replay_graph(chk, "R_chaing", ([1], [2], [3]), prios=[[0, 0, 0]], kinds=[N3], waits=[0], delays=[], enc=[False, True],
                             dec=[False, True], maxcb=1, cbon=[3], ops=["request", "complete", "abort", "gabort"], flags=flags)
    else:
        hist += replay_graph(chk, "R_ctl3", ([1, 2, 3], [], []), prios=P3[:3], kinds=[N3], waits=[0], delays=[], maxcb=0,
                             ops=["request", "complete", "cabort"], flags=flags)
        hist += replay_graph(chk, "R_timers", ([1, 2], [], []), prios=[[0, 0]], kinds=two[:1], waits=[1], delays=[1], maxcb=1, cbon=[1],
                             timeron=[1], ops=["request", "complete", "settle"], flags=flags)
        hist += replay_graph(chk, "R_group", ([1, 2], [], [3]), prios=[[0, 0, 0]], kinds=[N3], waits=[0], delays=[1], maxcb=1,
                             cbon=[3], timeron=[3], ops=["complete", "abort", "gabort"], flags=flags)
        hist += replay_graph(chk, "R_chain", ([1, 2], [3], []), prios=[[0, 0, 0]], kinds=[N3], waits=[0], delays=[], enc=[False, True],
                             dec=[False, True], maxcb=0, ops=["request", "complete", "abort"], flags=flags)
    phase("R_graphs")
    rtraces = [exec_walk((1000000 + i, h)) for i, h in enumerate(hist)]
    for t in rtraces:
        note_cases(chk, t)
    chk.extra["replay_steps_executed_on_impl"] = sum(len(t["evs"]) for t in rtraces)
    phase("R_execution")
    seen = set()
    judge(chk, rtraces, "R", seen, flags)
    phase("R_trace_validation")

    # T: seeded random histories
    ntr = 600 if thorough else 80
    jobs = [(i + 1, rng.randrange(2 ** 30), rng.choice([40, 80, 160, 300])) for i in range(ntr)]
    ttraces = [t_history(j) for j in jobs]
    for t in ttraces:
        note_cases(chk, t)
    for t in ttraces[:2]:
        chk.sample({"prio": t["prio"], "kind": t["kind"], "wait": t["wait"], "first_calls": t["ops"][:14],
                    "last_state": brief(t["evs"][-1]["s"]) if t["evs"] and not t["evs"][-1].get("hang") else None})
    chk.extra["random_history_steps"] = sum(len(t["evs"]) for t in ttraces)
    phase("T_execution")
    judge(chk, ttraces, "T", seen, flags, selftest=True)
    phase("T_trace_validation")
    calls = collections.Counter()
    for t in rtraces + ttraces:
        for e in t["evs"]:
            calls[e["op"]] += 1
    chk.extra["calls"] = dict(sorted(calls.items()))
    return chk.finish()


def replay(path):
    body = json.load(open(path))
    rp = body["replay"]
    chk = Check("X04", "quick", body.get("seed", 0))
    extra_findings(chk)
    flags = probe_flags()
    print("flags observed on this tree:", json.dumps(flags))
    ops = rp["ops"]
    if rp.get("step"):
        ops = ops[:rp["step"]]
    evs, done, s0 = run_history(rp["layout"], rp["prio"], rp["kind_"], rp["wait"], ops)
    for e in evs[-3:]:
        print(json.dumps({k: e[k] for k in ("op", "x", "a", "b")}), json.dumps(brief(e.get("s")))[:1500])
    t = {"tid": 1, "layout": rp["layout"], "prio": rp["prio"], "kind": rp["kind_"], "wait": rp["wait"], "evs": evs, "ops": done, "s0": s0}
    judge(chk, [t], "replay", set(), flags)
    return chk.finish()
