"""C17 -- A commandable value equals its highest-priority command or the default.   (spec/Cmd.tla)

D  TLC exhaustive on Cmd.tla: the complete reachable graph (command sequences of EVERY length, the graph is finite
   because time is relative) over 4 priorities (+ "priority omitted") x 3 values x {write, relinquish} + refused
   writes, two relinquish defaults (distinct from / equal to a command value); with timers: binary values, minimum
   on/off times in {0..3}^2, the clock advanced between commands; the named deviation Dev_MinOnOffSwapped (F12)
   must violate MinOnOffHold.  Best effort: Apalache inductive check of PVIsHighest/SlotIsLastCommand over all 16
   priorities.
R  state graph of a configuration dumped by TLC, quotiented by the `act` label, every transition (pre-state,
   command, post-state) covered by walks that are executed on EACH of the 20 commandable classes, once by direct
   WriteProperty/ReadProperty calls on the object and once by WriteProperty/ReadProperty requests sent by a client
   stack to a device stack over a VLAN; presentValue and priorityArray are read back after every command and
   compared with the state TLC computed.
T  seeded random command sequences of length 100 over all 16 priorities (+ refused writes) per class and access
   path; binary classes additionally with minimum on/off times 0..10 s and virtual time advanced between the
   commands (timer expiry racing with commands at the same instant).
   Every recorded execution (R and T) is validated by TLC (Trace_Cmd.tla): conformance step by step (rej) and the
   C17 monitors -- the invariants of Cmd.tla -- on the logged states (viol).
"""
import os, sys, json, random, collections, heapq, shutil, time, subprocess
from common import Check, VERIF, WORK, Hang, watchdog
import tlc, tlaval
import vtime

vt = vtime.install()
import bacpypes.core as core
from bacpypes.comm import bind
from bacpypes.pdu import Address, LocalBroadcast
from bacpypes.vlan import Network, Node
from bacpypes.app import Application
from bacpypes.appservice import StateMachineAccessPoint, ApplicationServiceAccessPoint
from bacpypes.netservice import NetworkServiceAccessPoint, NetworkServiceElement
from bacpypes.local.device import LocalDeviceObject
from bacpypes.service.object import ReadWritePropertyServices
from bacpypes.apdu import ReadPropertyRequest, WritePropertyRequest, ReadPropertyACK, SimpleAckPDU
from bacpypes.constructeddata import Any
from bacpypes.primitivedata import (Atomic, Null, Real, Double, Unsigned, Integer, BitString, CharacterString,
                                    OctetString, Date, Time, Enumerated)
from bacpypes.basetypes import PriorityArray, PriorityValue, DateTime, BinaryPV, DoorValue
from bacpypes.object import register_object_type
import bacpypes.local.object as lo
from bacpypes.local.object import MinOnOffTask

PID = "C17"
NULL = "null"
NONE = -1
IMPL_WORKERS = int(os.environ.get("VERIF_IMPL_WORKERS", "0") or 0) or max(1, min(6, (os.cpu_count() or 2) // 2))

# ---- rendering table (trusted base): abstract value tokens -> typed values, per datatype kind ------------------
# choice = the PriorityValue alternative a value of that datatype travels in (clause 21, BACnetPriorityValue)
KINDS = {
    "real":     dict(atom=Real, choice="real", a=1.0, b=2.0, c=3.5),
    "double":   dict(atom=Double, choice="double", a=1.0, b=2.0, c=3.5),
    # x: a number that is not a value of the enumeration (refused; Cmd.tla: Undefined)
    "binary":   dict(atom=BinaryPV, choice="enumerated", a="active", b="inactive", x=5),
    "door":     dict(atom=DoorValue, choice="enumerated", a="unlock", b="pulseUnlock", c="extendedPulseUnlock", x=77),
    "unsigned": dict(atom=Unsigned, choice="unsigned", a=1, b=2, c=3),
    "integer":  dict(atom=Integer, choice="integer", a=-1, b=2, c=300000),
    "bits":     dict(atom=BitString, choice="bitString", a=[1, 0], b=[0, 1], c=[1, 1, 0, 1, 0, 0, 0, 0, 1]),
    "chars":    dict(atom=CharacterString, choice="characterString", a="alpha", b="beta", c="gämma"),
    "octets":   dict(atom=OctetString, choice="octetString", a=b"\x01", b=b"\x02\x00", c=b"\x00"),
    "date":     dict(atom=Date, choice="date", a=(100, 1, 1, 6), b=(100, 1, 2, 7), c=(124, 2, 29, 4)),
    "datepat":  dict(atom=Date, choice="date", a=(100, 1, 1, 6), b=(100, 1, 2, 7), c=(255, 255, 1, 255)),
    "time":     dict(atom=Time, choice="time", a=(1, 0, 0, 0), b=(2, 30, 0, 0), c=(23, 59, 59, 99)),
    "timepat":  dict(atom=Time, choice="time", a=(1, 0, 0, 0), b=(2, 30, 0, 0), c=(255, 255, 0, 0)),
    "datetime": dict(atom=None, choice="datetime", a=((100, 1, 1, 6), (1, 0, 0, 0)), b=((100, 1, 2, 7), (2, 30, 0, 0)),
                     c=((124, 2, 29, 4), (23, 59, 59, 99))),
    "dtpat":    dict(atom=None, choice="datetime", a=((100, 1, 1, 6), (1, 0, 0, 0)), b=((100, 1, 2, 7), (2, 30, 0, 0)),
                     c=((255, 255, 1, 255), (255, 255, 0, 0))),
}
CLASSES = [
    ("AccessDoorCmdObject", "door"), ("AnalogOutputCmdObject", "real"), ("AnalogValueCmdObject", "real"),
    ("BinaryOutputCmdObject", "binary"), ("BinaryValueCmdObject", "binary"), ("BitStringValueCmdObject", "bits"),
    ("CharacterStringValueCmdObject", "chars"), ("DateValueCmdObject", "date"), ("DatePatternValueCmdObject", "datepat"),
    ("DateTimeValueCmdObject", "datetime"), ("DateTimePatternValueCmdObject", "dtpat"),
    ("IntegerValueCmdObject", "integer"), ("LargeAnalogValueCmdObject", "double"), ("LightingOutputCmdObject", "real"),
    ("MultiStateOutputCmdObject", "unsigned"), ("MultiStateValueCmdObject", "unsigned"),
    ("OctetStringValueCmdObject", "octets"), ("PositiveIntegerValueCmdObject", "unsigned"),
    ("TimeValueCmdObject", "time"), ("TimePatternValueCmdObject", "timepat"),
]
KIND_OF = dict(CLASSES)
BINARY = [n for n, k in CLASSES if k == "binary"]
_registered = {}


def klass(name):
    """the library's class, registered the way the samples do it (samples/CommandableMixin.py)"""
    if name not in _registered:
        _registered[name] = register_object_type(getattr(lo, name), vendor_id=999)
    return _registered[name]


def py_value(kind, tok):
    """abstract token -> the Python value handed to WriteProperty / a constructor"""
    v = KINDS[kind][tok]
    if KINDS[kind]["atom"] is None:
        return DateTime(date=v[0], time=v[1])
    return v


def wire_value(kind, tok):
    """abstract token -> encodable value for the property-value parameter of a WriteProperty request"""
    if tok == NULL:
        return Null()
    v = py_value(kind, tok)
    atom = KINDS[kind]["atom"]
    return v if atom is None else atom(v)


def canon(kind, v, enums=None):
    """value read back (directly or decoded from an ack) -> hashable canonical form"""
    try:
        if isinstance(v, Atomic):
            v = v.value
        if kind in ("real", "double"):
            return float(v) if isinstance(v, (int, float)) and not isinstance(v, bool) else ("?", repr(v))
        if kind in ("unsigned", "integer"):
            return int(v) if isinstance(v, int) and not isinstance(v, bool) else ("?", repr(v))
        if kind in ("binary", "door"):
            if isinstance(v, int) and not isinstance(v, bool):
                return enums.get(v, ("?", v))
            return v if isinstance(v, str) else ("?", repr(v))
        if kind == "bits":
            return tuple(int(x) for x in v)
        if kind == "chars":
            return v if isinstance(v, str) else ("?", repr(v))
        if kind == "octets":
            return bytes(v)
        if kind in ("date", "datepat", "time", "timepat"):
            return tuple(v)
        if kind in ("datetime", "dtpat"):
            return (tuple(v.date), tuple(v.time))
    except Exception as e:
        return ("?", repr(v)[:30], type(e).__name__)
    return ("?", repr(v)[:30])


class Tokens:
    """bidirectional map abstract token <-> canonical value for one object (token "d" = the class's own default)"""

    def __init__(self, name, default=None):
        self.kind = kind = KIND_OF[name]
        dt = klass(name)._properties["presentValue"].datatype
        self.datatype = dt
        self.enums = None
        if kind in ("binary", "door"):
            self.enums = {n: s for s, n in dt.enumerations.items()}
        self.choice = KINDS[kind]["choice"]
        self.rev = {}
        for tok in "abc":
            if tok in KINDS[kind]:
                self.rev[canon(kind, py_value(kind, tok), self.enums)] = tok
        if default is not None:
            c = canon(kind, default, self.enums)
            if c in self.rev:
                tlc.machinery_failure("the default value of %s collides with a command value" % name)
            self.rev[c] = "d"

    def pv(self, v):
        c = canon(self.kind, v, self.enums)
        try:
            return self.rev.get(c) or ("?" + repr(c))[:40]
        except TypeError:
            return ("?" + repr(c))[:40]

    def slot(self, pval):
        """one PriorityValue element -> token"""
        names = [el.name for el in PriorityValue.choiceElements if getattr(pval, el.name, None) is not None]
        if names == ["null"]:
            return NULL
        if len(names) != 1:
            return "?choices=" + "+".join(names)
        if names[0] != self.choice:
            return ("?%s=%r" % (names[0], getattr(pval, names[0])))[:40]
        return self.pv(getattr(pval, names[0]))


# ---- the two access paths -----------------------------------------------------------------------------------------
class _NSE(NetworkServiceElement):
    _startup_disabled = True


class _App(Application, ReadWritePropertyServices):
    """a complete application stack on a VLAN node (own code; nothing imported from the repository's tests)"""
    _startup_disabled = True

    def __init__(self, dev, vlan):
        Application.__init__(self, dev)
        self.address = Address(dev.objectIdentifier[1])
        self.asap = ApplicationServiceAccessPoint()
        self.smap = StateMachineAccessPoint(dev)
        self.smap.deviceInfoCache = self.deviceInfoCache
        self.nsap = NetworkServiceAccessPoint()
        self.nse = _NSE()
        bind(self.nse, self.nsap)
        bind(self, self.asap, self.smap, self.nsap)
        self.node = Node(self.address, vlan)
        self.nsap.bind(self.node)
        self.got = []

    def confirmation(self, apdu):
        self.got.append(apdu)


_net = {}


def network():
    if not _net:
        vt.reset(0.0)
        vlan = Network(broadcast_address=LocalBroadcast())

        def dev(n, i):
            return LocalDeviceObject(objectName=n, objectIdentifier=("device", i), maxApduLengthAccepted=1024,
                                     segmentationSupported="noSegmentation", vendorIdentifier=999)
        _net["client"] = _App(dev("client", 10), vlan)
        _net["server"] = _App(dev("server", 20), vlan)
    return _net["client"], _net["server"]


def pump():
    """run everything that is due at this instant EXCEPT minimum-on/off timers (their expiry is a step of its own)"""
    for _ in range(100000):
        due = [e for e in vt.due() if not isinstance(e[2], MinOnOffTask)]
        if due:
            vt.run_one(due[0])
            continue
        if core.deferredFns:
            held = [e for e in vt.tm.tasks if e[0] <= vt.now]
            vt.tm.tasks = [e for e in vt.tm.tasks if e[0] > vt.now]
            heapq.heapify(vt.tm.tasks)
            try:
                vt._run_once_single()
            finally:
                for e in held:
                    if e[2].isScheduled and not any(x[2] is e[2] for x in vt.tm.tasks):
                        heapq.heappush(vt.tm.tasks, e)
            continue
        return
    raise vtime.Livelock("pump")


class Direct:
    """direct property access on the object"""
    mode = "direct"

    def __init__(self, obj, oid):
        self.obj = obj

    def write(self, prop, value_tok, kind, priority=None, index=None, raw=None):
        if raw is not None:
            value = raw
        elif value_tok == NULL:
            value = ()
        elif value_tok == "x" and "x" not in KINDS[kind]:
            return None, None       # no undefined value can be expressed through the Python API for this datatype
        else:
            value = py_value(kind, value_tok)
        try:
            self.obj.WriteProperty(prop, value, arrayIndex=index, priority=priority)
            return "ok", None
        except Exception as e:
            return "err", "%s: %s" % (type(e).__name__, e)

    def read_pv(self):
        return self.obj.ReadProperty("presentValue")

    def read_slots(self):
        pa = self.obj.ReadProperty("priorityArray")
        n = self.obj.ReadProperty("priorityArray", 0)
        return [pa[i] if i <= n else None for i in range(1, 17)]

    def close(self):
        pass


class Wire:
    """WriteProperty / ReadProperty requests from a client stack to the device stack that owns the object"""
    mode = "wire"

    def __init__(self, obj, oid):
        self.client, self.server = network()
        self.obj, self.oid = obj, oid
        old = self.server.get_object_id(oid)
        if old is not None:
            self.server.delete_object(old)
        self.server.add_object(obj)

    def call(self, req):
        req.pduDestination = self.server.address
        self.client.got = []
        self.client.request(req)
        pump()
        if len(self.client.got) != 1:
            raise RuntimeError("expected one response, got %r" % (self.client.got,))
        return self.client.got[0]

    def write(self, prop, value_tok, kind, priority=None, index=None, raw=None):
        req = WritePropertyRequest(objectIdentifier=self.oid, propertyIdentifier=prop)
        req.propertyValue = Any()
        if value_tok == "x" and "x" not in KINDS[kind]:
            # not a value of the datatype: another application type on the wire
            req.propertyValue.cast_in(Real(1.5) if KINDS[kind]["choice"] == "characterString" else CharacterString("x"))
        else:
            req.propertyValue.cast_in(Unsigned(raw) if raw is not None else wire_value(kind, value_tok))
        if priority is not None:
            req.priority = priority
        if index is not None:
            req.propertyArrayIndex = index
        resp = self.call(req)
        if isinstance(resp, SimpleAckPDU):
            return "ok", None
        return "err", "%s %s/%s" % (type(resp).__name__, getattr(resp, "errorClass", ""), getattr(resp, "errorCode", ""))

    def read(self, prop, datatype, index=None):
        req = ReadPropertyRequest(objectIdentifier=self.oid, propertyIdentifier=prop)
        if index is not None:
            req.propertyArrayIndex = index
        resp = self.call(req)
        if not isinstance(resp, ReadPropertyACK):
            raise RuntimeError("read of %s failed: %r %s" % (prop, type(resp).__name__, getattr(resp, "errorCode", "")))
        return resp.propertyValue.cast_out(datatype)

    def read_pv(self):
        return self.read("presentValue", self.obj._properties["presentValue"].datatype)

    def read_slots(self):
        pa = self.read("priorityArray", PriorityArray)
        n = len(pa.value) - 1
        return [pa[i] if i <= n else None for i in range(1, 17)]

    def close(self):
        if self.server.get_object_id(self.oid) is self.obj:
            self.server.delete_object(self.obj)


PATHS = {"direct": Direct, "wire": Wire}


# ---- one execution of the real code ----------------------------------------------------------------------------------
class CtorFailure(Exception):
    pass


class Run:
    """one commandable object + access path, driven by Cmd.tla commands, projected after every step"""

    def __init__(self, name, mode, rdef, min_on=0, min_off=0, omit_pv=False):
        self.name, self.mode, self.kind = name, mode, KIND_OF[name]
        cls = klass(name)
        oid = (cls.objectType, 1)
        kw = dict(objectIdentifier=oid, objectName="o")
        default_ctor = (rdef == "d") or (self.kind == "binary" and rdef == "b" and (omit_pv or not (min_on or min_off)))
        vt.reset(0.0)
        try:
            if not default_ctor:
                kw.update(presentValue=py_value(self.kind, rdef), relinquishDefault=py_value(self.kind, rdef))
            if omit_pv:
                kw.update({k: v for k, v in (("minimumOnTime", min_on), ("minimumOffTime", min_off)) if v})
            elif min_on or min_off:
                kw.update(minimumOnTime=min_on, minimumOffTime=min_off)
            with watchdog(10):
                self.obj = cls(**kw)
        except Hang:
            raise
        except Exception as e:
            raise CtorFailure("%s(%s): %s: %s" % (name, ", ".join(sorted(k for k in kw if k not in ("objectIdentifier", "objectName"))),
                                                  type(e).__name__, e))
        self.tok = Tokens(name, default=self.obj.ReadProperty("relinquishDefault") if rdef == "d" else None)
        self.path = PATHS[mode](self.obj, oid)
        self.rdef, self.min_on, self.min_off = rdef, min_on, min_off
        self.note = None

    def timer(self):
        for e in vt.tm.tasks:
            if isinstance(e[2], MinOnOffTask) and e[2].binary_obj is self.obj:
                return e
        return None

    def proj(self):
        """what a client sees: presentValue and the 16 priorityArray slots as tokens (+ the hold timer's remaining time)"""
        e = self.timer()
        out = {"dl": NONE if e is None else int(round(e[0] - vt.now))}
        try:
            out["slot"] = [("?missing" if s is None else self.tok.slot(s)) for s in self.path.read_slots()]
        except Exception as err:
            out["slot"] = ["?unreadable"] * 16
            out["read_error"] = "priorityArray: %s: %s" % (type(err).__name__, err)
        try:
            out["pv"] = self.tok.pv(self.path.read_pv())
        except Exception as err:
            out["pv"] = "?unreadable"
            out["read_error"] = out.get("read_error", "") + " presentValue: %s: %s" % (type(err).__name__, err)
        return out

    def apply(self, op, p, v):
        """returns the event record (command + outcome + projected post-state)"""
        note = None
        res = "ok"
        if op == "write":
            res, note = self.path.write("presentValue", v, self.kind, priority=None if p == 0 else p)
        elif op == "relinquish":
            res, note = self.path.write("presentValue", NULL, self.kind, priority=None if p == 0 else p)
        elif op == "bad":
            if v == "idx0":
                res, note = self.path.write("priorityArray", None, self.kind, index=0, raw=5)
            else:
                res, note = self.path.write("presentValue", v, self.kind, priority=None if (v == "x" and p == 0) else p)
                if res is None:
                    return None
        elif op == "obs":
            # another feature starts watching the object (what ChangeOfValueServices does for the first subscription)
            from bacpypes.service.detect import DetectionAlgorithm

            class _Watch(DetectionAlgorithm):
                pv = None
                sf = None

                def execute(self):
                    pass
            w = _Watch()
            w.bind(pv=(self.obj, "presentValue"), sf=(self.obj, "statusFlags"))
            self.watchers = getattr(self, "watchers", []) + [w]
            pump()
        elif op == "unobs":
            ws = getattr(self, "watchers", [])
            if ws:
                ws.pop().unbind()                   # ... and stops (the last subscription ended)
            pump()
        elif op == "tick":
            vt.now = vt.now + p
        elif op == "expire":
            e = self.timer()
            if e is not None and e[0] <= vt.now:
                vt.run_one(e)
                pump()
            else:
                note = "no minimum-on/off timer is due"
        else:
            raise ValueError(op)
        ev = {"op": op, "p": p, "v": v, "res": res}
        ev.update(self.proj())
        if note:
            ev["note"] = note
        if vt.errors:
            ev["errors"] = [list(x) for x in vt.errors[:3]]
            vt.errors = []
        return ev

    def advance(self, d, race):
        """the clock moves by d seconds the way an event loop moves it: never past a due timer.  race=True leaves a
        timer that becomes due exactly at the end of the interval pending, so that the next command goes first."""
        evs = []
        left = d
        for _ in range(1000):
            e = self.timer()
            if e is not None and e[0] <= vt.now:
                if left == 0 and race:
                    break
                evs.append(self.apply("expire", 6, NULL))
                continue
            if left == 0:
                break
            step = left if e is None else min(left, int(round(e[0] - vt.now)))
            evs.append(self.apply("tick", step, NULL))
            left -= step
        return evs

    def close(self):
        self.path.close()


def run_ops(name, mode, rdef, min_on, min_off, ops, expect=None, omit_pv=False):
    """Executes a command list on a fresh object.  ops: (op, p, v) of Cmd.tla, or ("adv", d, race) which expands to
    tick / expire steps.  expect: optional list of spec states (R): the run stops at the first step whose projection
    differs from TLC's state.  Returns dict(st0, evs, diverged, ctor)."""
    out = {"st0": None, "evs": [], "diverged": None, "ctor": None, "hang": False}
    try:
        run = Run(name, mode, rdef, min_on, min_off, omit_pv)
    except CtorFailure as e:
        out["ctor"] = str(e)
        return out
    try:
        with watchdog(20):
            out["st0"] = run.proj()
        for i, (op, p, v) in enumerate(ops):
            try:
                with watchdog(10):
                    evs = run.advance(p, v) if op == "adv" else [run.apply(op, p, v)]
            except Hang:
                out["hang"] = True
                out["evs"].append({"op": op, "p": p, "v": v, "res": "hang"})
                break
            if evs == [None]:
                continue            # not expressible on this path (refusal without effect in the design: nothing to follow)
            out["evs"] += evs
            if expect is not None:
                x, ev = expect[i], evs[0]
                if (list(x["slot"]), x["pv"], x["dl"], x["res"]) != (ev["slot"], ev["pv"], ev["dl"], ev["res"]):
                    out["diverged"] = i + 1
                    break
    finally:
        run.close()
    return out


# ---- TLC configurations ---------------------------------------------------------------------------------------------
INVS = ["TypeOK", "PVIsHighest", "SlotIsLastCommand", "BadWriteRefused", "MinOnOffHold", "TimerIsHold"]


def tset(xs):
    return "{" + ", ".join(('"%s"' % x) if isinstance(x, str) else str(x) for x in xs) + "}"


def mc_cfg(c, dev=False, check=True):
    consts = {"Values": tset(c["values"]), "RDefs": tset(c["rdefs"]), "Prios": tset(c["prios"]), "BadPrios": tset(c["bad"]),
              "MinTimes": tset(c["mins"]), "Ticks": tset(c["ticks"]), "Dev_MinOnOffSwapped": "TRUE" if dev else "FALSE"}
    lines = ["SPECIFICATION Spec", "CHECK_DEADLOCK FALSE"]
    if check:
        lines += ["INVARIANT " + i for i in INVS] + ["PROPERTY BadWriteChangesNothing"]
    return consts, lines


CFG = {
    # D: exhaustive
    "plain":   dict(values="abc", rdefs="da", prios=[0, 1, 6, 8, 16], bad=[0, 17, 255], mins=[0], ticks=[]),
    "plain6":  dict(values="abc", rdefs="da", prios=[0, 1, 2, 6, 8, 15, 16], bad=[0, 17, 255], mins=[0], ticks=[]),
    "timers":  dict(values="ab", rdefs="ab", prios=[0, 1, 6, 8, 16], bad=[0, 17], mins=[0, 1, 2, 3], ticks=[1, 2, 3]),
    "plain16": dict(values="abc", rdefs="da", prios=list(range(17)), bad=[0, 17, 255], mins=[0], ticks=[]),   # simulation
    # R: graphs for replay
    "g_small": dict(values="ab", rdefs="da", prios=[0, 1, 8], bad=[0, 17], mins=[0], ticks=[]),
    "g_mid":   dict(values="abc", rdefs="da", prios=[0, 1, 8, 16], bad=[0, 17, 255], mins=[0], ticks=[]),
    "g_full":  dict(values="abc", rdefs="da", prios=[0, 1, 6, 8, 16], bad=[0, 17, 255], mins=[0], ticks=[]),
    "t_small": dict(values="ab", rdefs="b", prios=[0, 8], bad=[17], mins=[0, 1, 2], ticks=[1, 2]),
    "t_mid":   dict(values="ab", rdefs="ab", prios=[0, 1, 8], bad=[0, 17], mins=[0, 1, 2, 3], ticks=[1, 2, 3]),
}


def run_mc(chk, name, dev=False, expect_error=None, dump=None, timeout=600, simulate=None):
    consts, lines = mc_cfg(CFG[name], dev=dev, check=not (dev and expect_error is None))
    files, cfg = tlc.mc_wrapper("MCgen_Cmd_" + name, "Cmd", {}, lines, consts)
    kw = dict(simulate=simulate[0], depth=simulate[1], seed=simulate[2], workers=2) if simulate else {}
    res = tlc.run_tlc("MCgen_Cmd_" + name, cfg_text=cfg, files=files, timeout=timeout, dump_dot=dump,
                      name="Cmd/" + name + ("+Dev_MinOnOffSwapped" if dev else ""), **kw)
    if expect_error is None:
        chk.tlc(res)
        if res["error_kind"]:
            tlc.machinery_failure("design model %s violates %s\n%s" % (name, res["error"], res["output"][-2000:]))
    else:
        if res["error"] not in ((expect_error,) if isinstance(expect_error, str) else expect_error) and res["error_kind"] not in ("invariant", "action_property", "property", "temporal", "assert"):
            tlc.machinery_failure("sanity: config %s with the deviation should violate %s, got %r" % (name, expect_error, res["error"]))
        chk.extra.setdefault("sanity", []).append(
            "config %s with Dev_MinOnOffSwapped = TRUE violates %s as expected (counterexample of %d states)" % (
                name, expect_error, len(res["trace"])))
    return res


def apalache(chk):
    """best effort: PVIsHighest /\\ SlotIsLastCommand as an inductive invariant over ALL 16 priorities"""
    exe = shutil.which("apalache-mc")
    if not exe:
        chk.extra["apalache"] = "not installed"
        return
    wd = tlc.workdir("apa")
    try:
        shutil.copy(os.path.join(VERIF, "spec", "Cmd.tla"), wd)
        shutil.copy(os.path.join(VERIF, "spec", "MC_Cmd_ind.tla"), wd)
        out = {}
        t0 = time.time()
        for label, args in (("Init=>Ind", ["--init=Init", "--inv=Ind", "--length=0"]),
                            ("Ind/\\Next=>Ind'", ["--init=Ind", "--inv=Ind", "--length=1"])):
            try:
                p = subprocess.run(["timeout", "120", exe, "check", "--cinit=CInit", "--next=Next", "--out-dir=" + os.path.join(wd, "o"),
                                    "--run-dir=" + os.path.join(wd, "r")] + args + ["MC_Cmd_ind.tla"], cwd=wd,
                                   stdout=subprocess.PIPE, stderr=subprocess.STDOUT, timeout=150)
                txt = p.stdout.decode("utf-8", "replace")
                out[label] = "no error" if "The outcome is: NoError" in txt else (
                    "timeout" if p.returncode == 124 else "failed: " + txt[-300:])
            except subprocess.TimeoutExpired:
                out[label] = "timeout"
        out["wall_s"] = round(time.time() - t0, 1)
        chk.extra["apalache_inductive_16_priorities"] = out
    finally:
        shutil.rmtree(wd, ignore_errors=True)


# ---- R: spec -> code ---------------------------------------------------------------------------------------------------
def seqval(v):
    return tuple(v[k] for k in sorted(v)) if isinstance(v, dict) else tuple(v)


def quotient(nodes, edges):
    """TLC's graph has the `act` label inside the state; the transitions of the design are the distinct
    (observable pre-state, command, observable post-state) triples."""
    def key(st):
        return (seqval(st["slot"]), st["pv"], st["dl"], st["rdef"], st["minOn"], st["minOff"])
    keys = {n: key(st) for n, st in nodes.items()}
    succ = collections.defaultdict(dict)
    for u, v in edges:
        a = nodes[v]["act"]
        succ[keys[u]][(a["op"], a["p"], a["v"])] = (keys[v], nodes[v]["res"])
    inits = sorted(set(keys[n] for n, st in nodes.items() if st["act"]["op"] == "init"))
    return succ, inits


def cover_walks(succ, init, maxlen):
    """walks from `init` that together take every transition reachable from it at least once"""
    unused = {}
    seen = {init}
    dq = collections.deque([init])
    while dq:
        u = dq.popleft()
        unused[u] = sorted(succ[u].items(), reverse=True)
        for lab, (v, _) in succ[u].items():
            if v not in seen:
                seen.add(v)
                dq.append(v)
    left = sum(len(x) for x in unused.values())

    def nearest(src):
        if unused[src]:
            return []
        par = {src: None}
        dq = collections.deque([src])
        while dq:
            u = dq.popleft()
            for lab, (v, r) in succ[u].items():
                if v not in par:
                    par[v] = (u, lab, r)
                    if unused[v]:
                        path = []
                        while par[v] is not None:
                            u0, lab0, r0 = par[v]
                            path.append((lab0, v, r0))
                            v = u0
                        return path[::-1]
                    dq.append(v)
        return None
    walks = []
    while left:
        walk = list(nearest(init))
        u = walk[-1][1] if walk else init
        while len(walk) < maxlen:
            if unused[u]:
                lab, (v, r) = unused[u].pop()
                left -= 1
                walk.append((lab, v, r))
                u = v
                continue
            hop = nearest(u) if left else None
            if not hop or len(walk) + len(hop) >= maxlen:
                break
            walk += hop
            u = walk[-1][1]
        walks.append(walk)
    return walks


def graph_walks(chk, name, dev=False, maxlen=60):
    """-> list of (rdef, minOn, minOff, ops, expected states)"""
    wd = tlc.workdir("dot")
    dot = os.path.join(wd, "g")
    try:
        consts, lines = mc_cfg(CFG[name], dev=dev, check=False)
        files, cfg = tlc.mc_wrapper("MCgen_Cmd_" + name, "Cmd", {}, lines, consts)
        res = tlc.run_tlc("MCgen_Cmd_" + name, cfg_text=cfg, files=files, timeout=240, dump_dot=dot,
                          name="Cmd/" + name + ("+Dev_MinOnOffSwapped" if dev else "") + " (graph dump)")
        if res["error_kind"] or not res["finished"]:
            tlc.machinery_failure("graph dump %s: %s\n%s" % (name, res["error"], res["output"][-1500:]))
        if not dev:
            chk.tlc(res)
        nodes, edges, _ = tlaval.parse_dot(dot + ".dot")
    finally:
        shutil.rmtree(wd, ignore_errors=True)
    succ, inits = quotient(nodes, edges)
    out = []
    ntrans = 0
    for init in inits:
        for w in cover_walks(succ, init, maxlen):
            ops = [lab for lab, v, r in w]
            exp = [{"slot": v[0], "pv": v[1], "dl": v[2], "res": r} for lab, v, r in w]
            out.append((init[3], init[4], init[5], ops, exp))
    ntrans = sum(len(x) for x in succ.values())
    chk.extra.setdefault("replay_graphs", []).append(
        {"config": name, "dev": dev, "tlc_nodes": len(nodes), "tlc_edges": len(edges), "observable_states": len(succ),
         "transitions": ntrans, "walks": len(out), "steps_per_class_and_path": sum(len(o[3]) for o in out)})
    return out


# ---- jobs (optionally spread over worker processes) ---------------------------------------------------------------------
def _job(job):
    """job = (name, mode, [(tid, kind, rdef, minOn, minOff, ops, expect)]) -> list of trace dicts"""
    name, mode, items = job
    out = []
    hangs = 0
    for tid, kind, rdef, mn, mf, ops, expect in items:
        if hangs >= 3:
            break
        r = run_ops(name, mode, rdef, mn, mf, ops, expect)
        hangs += 1 if r["hang"] else 0
        r.update(tid=tid, kind=kind, cls=name, mode=mode, rdef=rdef, minOn=mn, minOff=mf, ops=[list(o) for o in ops])
        out.append(r)
    return out


def run_jobs(jobs, chunk=6000):
    """jobs: (class, path, items); split into pieces of about `chunk` steps so that the worker processes stay busy"""
    pieces = []
    for name, mode, items in jobs:
        cur, n = [], 0
        for it in items:
            cur.append(it)
            n += len(it[5])
            if n >= chunk:
                pieces.append((name, mode, cur))
                cur, n = [], 0
        if cur:
            pieces.append((name, mode, cur))
    jobs = pieces
    if IMPL_WORKERS <= 1 or len(jobs) <= 1:
        return [t for j in jobs for t in _job(j)]
    import multiprocessing as mp
    ctx = mp.get_context("fork")
    with ctx.Pool(min(IMPL_WORKERS, len(jobs))) as pool:
        res = pool.map(_job, sorted(jobs, key=lambda j: -sum(len(i[5]) for i in j[2])), chunksize=1)
    return [t for r in res for t in r]


# ---- T: code -> spec --------------------------------------------------------------------------------------------------
def random_ops(rng, kind, n, timed):
    toks = "ab" if kind == "binary" else "abc"
    ops = []
    hot = rng.sample(range(1, 17), 3)
    for _ in range(n):
        r = rng.random()
        p = rng.choice(hot) if rng.random() < 0.4 else rng.choice(range(0, 17))
        if timed and (p == 6):
            p = rng.choice([5, 7])          # priority 6 is reserved for the algorithm (Cmd.tla: UserMayCommand)
        if timed and r < 0.30:
            ops.append(("adv", rng.choice([0, 1, 1, 2, 3, 5, 8, 12]), rng.random() < 0.4))
        elif r < 0.62:
            ops.append(("write", p, rng.choice(toks)))
        elif r < 0.90:
            ops.append(("relinquish", p, NULL))
        elif r < 0.93:
            ops.append(("bad", 0, "idx0"))
        elif r < 0.96:
            ops.append(("bad", p, "x"))         # a valid priority, not a value of the datatype
        elif r < 0.975:
            ops.append((rng.choice(["obs", "unobs", "unobs"]), 0, NULL))
        else:
            ops.append(("bad", rng.choice([0, 17, 18, 255, 256, 100000]), rng.choice(toks + "n").replace("n", NULL)))
    return ops


def validate(chk, traces, label, dev=False):
    """traces: list of trace dicts with st0/evs.  Runs Trace_Cmd over them, returns {tid: verdict}."""
    verdicts = {}
    batch, size = [], 0
    batches = []
    for t in traces:
        batch.append(t)
        size += len(t["evs"]) + 1
        if size > 120000:
            batches.append(batch)
            batch, size = [], 0
    if batch:
        batches.append(batch)
    for bi, batch in enumerate(batches):
        wd = tlc.workdir("tr")
        tf = os.path.join(wd, "traces.ndjson")
        with open(tf, "w") as f:
            for t in batch:
                evs = [{k: e[k] for k in ("op", "p", "v", "res", "slot", "pv", "dl")} for e in t["evs"]]
                f.write(json.dumps({"tid": t["tid"], "rdef": t["rdef"], "minOn": t["minOn"], "minOff": t["minOff"],
                                    "st0": t["st0"], "evs": evs}) + "\n")
        cfg = ("CONSTANTS\n  Values = {}\n  RDefs = {}\n  Prios = {}\n  BadPrios = {}\n  MinTimes = {}\n  Ticks = {}\n"
               "  Dev_MinOnOffSwapped = %s\nSPECIFICATION TSpec\nCHECK_DEADLOCK FALSE\n" % ("TRUE" if dev else "FALSE"))
        try:
            res = tlc.run_tlc("Trace_Cmd", cfg_text=cfg, workers=min(8, int(os.environ.get("VERIF_TLC_WORKERS", "16"))),
                              timeout=1800, env={"TRACE_FILE": tf}, name="Trace_Cmd/%s/%d" % (label, bi))
        finally:
            shutil.rmtree(wd, ignore_errors=True)
        if res["error_kind"] or not res["finished"]:
            tlc.machinery_failure("trace validation run failed: %s\n%s" % (res["error"], res["output"][-3000:]))
        got = {v["tid"]: v for v in tlc.printed_values(res["output"])}
        if len(got) != len(batch):
            tlc.machinery_failure("trace validation returned %d verdicts for %d traces\n%s" % (len(got), len(batch), res["output"][-2000:]))
        verdicts.update(got)
        chk.extra["trace_validation_states"] = chk.extra.get("trace_validation_states", 0) + res["distinct"]
    return verdicts


MONITORS = ["PVIsHighest", "SlotIsLastCommand", "BadWriteChangesNothing", "BadWriteRefused", "MinOnOffHold"]


def count_monitors(chk, t):
    n = len(t["evs"])
    chk.monitor("PVIsHighest", n)
    chk.monitor("SlotIsLastCommand", sum(1 for e in t["evs"] if e["op"] in ("write", "relinquish")))
    nb = sum(1 for e in t["evs"] if e["op"] == "bad")
    chk.monitor("BadWriteChangesNothing", nb)
    chk.monitor("BadWriteRefused", nb)
    if t["minOn"] or t["minOff"]:
        chk.monitor("MinOnOffHold", sum(1 for e in t["evs"] if e["slot"][5] != NULL or e["op"] == "expire"))


def judge(chk, traces, label):
    """ctor failures, hangs, TLC verdicts -> violations / deviations / accepted traces"""
    seen_ctor = set()
    runnable = []
    for t in traces:
        rp = {"kind": "trace", "cls": t["cls"], "mode": t["mode"], "rdef": t["rdef"], "minOn": t["minOn"], "minOff": t["minOff"],
              "ops": t["ops"], "omit_pv": bool(t.get("omit_pv"))}
        t["replay"] = rp
        if t["ctor"]:
            case = "ctor" if not (t["minOn"] or t["minOff"]) else (
                "ctor_minonoff_without_present_value" if t.get("omit_pv") else "ctor_minonoff")
            if (t["cls"], case) not in seen_ctor:
                seen_ctor.add((t["cls"], case))
                chk.violation("InitConsistent", {"class": t["cls"], "case": case},
                              {"what": "the object cannot be constructed, so no command sequence can be run on it",
                               "error": t["ctor"]}, dict(rp, ops=[]))
            continue
        if t["hang"]:
            ev = t["evs"].pop()
            chk.violation("Terminates", {"class": t["cls"], "mode": t["mode"], "op": ev["op"]},
                          {"what": "no return within 10 s", "step": len(t["evs"]) + 1, "event": ev}, rp)
        runnable.append(t)
    if not runnable:
        return
    v0 = validate(chk, runnable, label)
    again = [t for t in runnable if v0[t["tid"]]["rej"] and (t["minOn"] or t["minOff"])]
    v1 = validate(chk, again, label + "+Dev_MinOnOffSwapped", dev=True) if again else {}
    for t in runnable:
        v = v0[t["tid"]]
        rp = t["replay"]
        count_monitors(chk, t)
        swapped = t["tid"] in v1 and not v1[t["tid"]]["rej"]
        if swapped:
            chk.extra["traces_conforming_to_Dev_MinOnOffSwapped_only"] = chk.extra.get("traces_conforming_to_Dev_MinOnOffSwapped_only", 0) + 1
        if v["viol"]:
            byname = {}
            for m, l in v["viol"]:
                byname.setdefault(m, []).append(l)
            for m, ls in sorted(byname.items()):
                l = min(ls)
                ev = t["evs"][l - 1] if l >= 1 else None
                pre = (t["evs"][l - 2] if l >= 2 else t["st0"]) if l >= 1 else None
                if m == "MinOnOffHold" and swapped:
                    sig = {"case": "minonoff_swapped"}
                elif m == "InitConsistent":
                    sig = {"class": t["cls"], "case": "init_minonoff_without_present_value" if t.get("omit_pv") else "init"}
                else:
                    sig = {"class": t["cls"], "mode": t["mode"], "op": ev["op"] if ev else "init"}
                detail = {"class": t["cls"], "mode": t["mode"], "rdef": t["rdef"], "minOn": t["minOn"], "minOff": t["minOff"],
                          "step": l, "event": ev, "state_before": {k: pre[k] for k in ("slot", "pv", "dl")} if pre else None,
                          "first_rejected_step_intended_design": v["rej"],
                          "conforms_to_design_with_Dev_MinOnOffSwapped": swapped,
                          "prefix": [[e["op"], e["p"], e["v"]] for e in t["evs"][:l]][-12:]}
                chk.violation(m, sig, detail, rp)
        elif v["rej"] and not swapped:
            l = v["rej"]
            chk.deviation({"class": t["cls"], "mode": t["mode"], "tid": t["tid"], "step": l, "event": t["evs"][l - 1],
                           "state_before": t["evs"][l - 2] if l >= 2 else t["st0"], "rdef": t["rdef"], "minOn": t["minOn"], "minOff": t["minOff"]})
        elif t["kind"] == "R" and t.get("diverged") and not v["rej"]:
            tlc.machinery_failure("replay of %s diverged from TLC's graph at step %d but Trace_Cmd accepts it: %r" % (
                t["cls"], t["diverged"], t["evs"][t["diverged"] - 1]))
        elif not v["rej"]:
            chk.traces_validated += 1


# ---------------------------------------------------------------------------------------------------------
def ctor_matrix(chk):
    """every class must be constructible the ways the commands need it (a class that cannot be instantiated has
    no command sequences at all)"""
    traces = []
    tid = 9000000
    for name, kind in CLASSES:
        combos = [("d", 0, 0), ("a", 0, 0)]
        if kind == "binary":
            combos = [("b", 0, 0), ("a", 0, 0), ("b", 5, 10), ("a", 5, 0)]
        for rdef, mn, mf in combos:
            tid += 1
            r = run_ops(name, "direct", rdef, mn, mf, [])
            chk.case(("ctor", name, rdef, mn, mf))
            r.update(tid=tid, kind="ctor", cls=name, mode="direct", rdef=rdef, minOn=mn, minOff=mf, ops=[])
            traces.append(r)
        if kind == "binary":
            # minimum times given, present value left to the class default (finding F12, second half)
            for mn, mf in ((5, 0), (0, 5), (5, 10)):
                tid += 1
                r = run_ops(name, "direct", "b", mn, mf, [], omit_pv=True)
                chk.case(("ctor", name, "default pv", mn, mf))
                r.update(tid=tid, kind="ctor", cls=name, mode="direct", rdef="b", minOn=mn, minOff=mf, ops=[], omit_pv=True)
                traces.append(r)
    return traces


def main(tier, seed):
    chk = Check(PID, tier, seed)
    stages = chk.extra.setdefault("stage_wall_s", {})
    clock = [time.time()]

    def stage(name):
        stages[name] = round(time.time() - clock[0], 1)
        clock[0] = time.time()
    rng = random.Random(seed)
    thorough = tier == "thorough"
    chk.rule = ("model: the complete reachable graph of Cmd.tla per configuration; implementation: one evaluation = one command "
                "(or clock step) executed on a real commandable object through one access path with presentValue and all 16 "
                "priorityArray slots read back; distinct = distinct (class, path, relinquish default, min times, projected "
                "pre-state, command) tuples; non-trivial = all of them (every step is compared with / validated against the spec)")
    chk.assumptions = [
        "virtual clock (task._time and TaskManager.get_time patched); client and device stacks on an in-process VLAN",
        "with a minimum on/off time configured the environment does not command priority 6 (reserved for the algorithm)",
        "objects are built with presentValue = relinquishDefault (or both left to the class default)",
        "abstract values a/b/c are three fixed typed values per datatype (rendering table KINDS in the driver)",
    ]
    # D: the design satisfies the properties
    run_mc(chk, "plain")
    if thorough:
        run_mc(chk, "plain6")
    run_mc(chk, "timers")
    run_mc(chk, "timers", dev=True, expect_error=("MinOnOffHold", "TimerIsHold"))     # whichever TLC's workers reach first
    run_mc(chk, "plain16", simulate=(700 if thorough else 100, 40, seed))      # traces per worker (2 workers)
    if os.environ.get("VERIF_APALACHE"):
        apalache(chk)
    else:
        chk.extra["apalache_inductive_16_priorities"] = (
            "not run (set VERIF_APALACHE=1): measured while building -- Init => Ind: no error in 7 s; Ind /\\ Next => Ind' "
            "(spec/MC_Cmd_ind.tla) does not finish under `timeout 120` (PVIsHighest alone: 2 of 6 symbolic transitions in "
            "15 min); all 16 priorities are covered by TLC simulation (plain16) and by the random traces instead")
    stage("D: model checking")
    # R: spec -> code
    tid = [0]
    jobs = collections.defaultdict(list)

    def add(name, mode, kind, rdef, mn, mf, ops, expect):
        tid[0] += 1
        jobs[(name, mode)].append((tid[0], kind, rdef, mn, mf, ops, expect))

    plain = {"direct": graph_walks(chk, "g_full" if thorough else "g_mid"),
             "wire": graph_walks(chk, "g_mid" if thorough else "g_small")}
    timed = graph_walks(chk, "t_mid" if thorough else "t_small")
    for name, kind in CLASSES:
        for mode in ("direct", "wire"):
            if kind == "binary":
                for rdef, mn, mf, ops, exp in timed:
                    add(name, mode, "R", rdef, mn, mf, ops, exp)
            else:
                for rdef, mn, mf, ops, exp in plain[mode]:
                    add(name, mode, "R", rdef, mn, mf, ops, exp)
    stage("R: graph dumps, covers")
    # T: code -> spec
    nrand = {"direct": 120 if thorough else 16, "wire": 30 if thorough else 3}
    for name, kind in CLASSES:
        for mode in ("direct", "wire"):
            for i in range(nrand[mode] * (2 if kind == "binary" else 1)):
                timed_run = kind == "binary" and i % 4 != 3
                rdef = rng.choice("ab") if kind == "binary" else rng.choice("dda")
                mn, mf = (rng.randint(0, 10), rng.randint(0, 10)) if timed_run else (0, 0)
                add(name, mode, "T", rdef, mn, mf, random_ops(rng, kind, 100, bool(mn or mf)), None)
    traces = ctor_matrix(chk)
    traces += run_jobs([(k[0], k[1], v) for k, v in jobs.items()])
    stage("R+T: executions on the implementation")
    # second pass for walks that left the intended design where a minimum time is involved: does the implementation
    # follow the design with the named deviation (F12)?  Then the whole graph is replayed along that design so that
    # the monitors see complete executions.
    div = [t for t in traces if t.get("diverged") and (t["minOn"] or t["minOff"])]
    if div:
        chk.extra["replay_walks_leaving_intended_design_at_a_hold"] = len(div)
        jobs2 = collections.defaultdict(list)
        for rdef, mn, mf, ops, exp in graph_walks(chk, "t_mid" if thorough else "t_small", dev=True):
            if mn != mf:
                for name in BINARY:
                    for mode in ("direct", "wire"):
                        tid[0] += 1
                        jobs2[(name, mode)].append((tid[0], "R+Dev_MinOnOffSwapped", rdef, mn, mf, ops, exp))
        traces += run_jobs([(k[0], k[1], v) for k, v in jobs2.items()])
        stage("R: second pass along the design with Dev_MinOnOffSwapped")
    nsample = 0
    for t in traces:
        pre = t["st0"]
        for e in t["evs"]:
            if "slot" in e:
                chk.case((t["cls"], t["mode"], t["rdef"], t["minOn"], t["minOff"], tuple(pre["slot"]), pre["pv"], pre["dl"],
                          e["op"], e["p"], e["v"]))
                pre = e
        if t["kind"] == "T" and t["evs"] and nsample < 4 and (nsample % 2 == 0) == (t["mode"] == "direct"):
            nsample += 1
            chk.sample({"class": t["cls"], "path": t["mode"], "rdef": t["rdef"], "minOn": t["minOn"], "minOff": t["minOff"],
                        "first_events": [{k: e[k] for k in ("op", "p", "v", "res", "pv", "dl")} for e in t["evs"][:8]],
                        "last_state": {k: t["evs"][-1][k] for k in ("slot", "pv", "dl")}})
    chk.extra["recorded_traces"] = collections.Counter("%s/%s" % (t["kind"], t["mode"]) for t in traces)
    chk.extra["replay_divergences"] = sum(1 for t in traces if t.get("diverged"))
    stage("accounting")
    judge(chk, traces, "all")
    stage("T: trace validation by TLC")
    return chk.finish()


def replay(path):
    body = json.load(open(path))
    rp = body["replay"]
    chk = Check(PID, "quick", body.get("seed", 0))
    ops = [tuple(o) for o in rp["ops"]]
    r = run_ops(rp["cls"], rp["mode"], rp["rdef"], rp["minOn"], rp["minOff"], ops, omit_pv=rp.get("omit_pv", False))
    r.update(tid=1, kind="replay", cls=rp["cls"], mode=rp["mode"], rdef=rp["rdef"], minOn=rp["minOn"], minOff=rp["minOff"],
             ops=[list(o) for o in ops], omit_pv=rp.get("omit_pv", False))
    for e in r["evs"][-6:]:
        print(json.dumps(e))
    if r["ctor"]:
        print(r["ctor"])
    judge(chk, [r], "replay")
    return chk.finish()
