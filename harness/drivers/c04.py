"""C04 -- A confirmed request ends in exactly one outcome, in bounded time, no residue.   (spec/TSM.tla, spec/IOQ.tla)

D  TLC exhaustive on TSM.tla: all interleavings and all placements of up to two faults of each kind for 1-3 x 0-3
   segments, response kinds ack / simple ack / error / abort, retries 0..3, slow application (AppDelay > Tapp).
   Invariants: AtMostOneOutcome, ExactlyOneAtQuiescence, OutcomeKind, NoResidue, BoundedTime; action properties:
   SilenceAfterOutcome, AbortOnlyAfterAllRetries, NoDoubleIndicationWhileBusy.
R  edge cover of a small configuration's state graph forced on the real code.
T  the real ClientSSM/ServerSSM pair under: every single fault at every frame (quick), every pair (thorough), random
   multi-fault sequences of unbounded length, total silence from every frame on; sizes on both sides of the
   segmentation boundary; windows 1..8; retries 0..3 -- each run validated by TLC (Trace_TSM.tla).
   The IOCB path (ApplicationIOController + IOQController) on full Application stacks over a lossy VLAN, validated
   against IOQ.tla.
"""
import json, random, itertools
from common import Check
import tlc, tsmlib
from c05 import on_verdict_factory, graph_scripts, single_fault_traces
import c05

C04_MONITORS = {"AtMostOneOutcome", "ExactlyOneAtQuiescence", "OutcomeKind", "NoResidue", "BoundedTime",
                "SilenceAfterOutcome", "AbortOnlyAfterAllRetries", "NoDoubleIndication", "Terminates"}


def main(tier, seed):
    chk = Check("C04", tier, seed)
    rng = random.Random(seed)
    thorough = tier == "thorough"
    chk.rule = ("model: every interleaving and fault placement of TSM.tla within the fault budget; implementation: one evaluation = "
                "one complete transaction on the real ClientSSM/ServerSSM pair (or IOCB through a full Application stack), validated "
                "by TLC; distinct = (configuration, faults, scheduler order); non-trivial = at least one fault or a segmented transfer")
    chk.assumptions = ["the medium is the harness (FIFO per direction, counted faults)",
                       "no application-side abort of an IOCB while its transaction is live (outside the property's quantifier)"]
    C = tsmlib.consts
    flags = tsmlib.CODE_FLAGS
    # ---- D ----
    tsmlib.run_mc(chk, "1x1_f222_r1", C(1, 1, maxdrop=2, maxdup=2, maxdelay=2))
    tsmlib.run_mc(chk, "1x0_f222_r2", C(1, 0, retries=2, maxdrop=2, maxdup=2, maxdelay=1))
    tsmlib.run_mc(chk, "2x2_f211", C(2, 2, maxdrop=2, maxdup=1, maxdelay=1))
    tsmlib.run_mc(chk, "1x1_err", C(1, 1, rk="error", maxdrop=2, maxdup=1, maxdelay=1))
    tsmlib.run_mc(chk, "2x1_abort", C(2, 1, rk="abort", maxdrop=2, maxdup=1, maxdelay=1))
    tsmlib.run_mc(chk, "1x2_slowapp", C(1, 2, app_delay=4, retries=1, maxdrop=1, maxdup=1))
    tsmlib.run_mc(chk, "1x1_r0", C(1, 1, retries=0, maxdrop=2, maxdup=2, maxdelay=2))
    if thorough:
        tsmlib.run_mc(chk, "3x3_f221", C(3, 3, maxdrop=2, maxdup=2, maxdelay=1), timeout=1500)
        tsmlib.run_mc(chk, "1x1_r3", C(1, 1, retries=3, maxdrop=2, maxdup=2, maxdelay=2, tapdu=3))
        tsmlib.run_mc(chk, "3x1_w1_f22", C(3, 1, pwc=1, pws=1, maxdrop=2, maxdup=2))
        tsmlib.run_mc(chk, "1x3_w8_f22", C(1, 3, pwc=8, pws=8, maxdrop=2, maxdup=2, maxdelay=1))
        tsmlib.run_mc(chk, "2x2_slowapp", C(2, 2, app_delay=4, retries=2, maxdrop=1, maxdup=1, maxdelay=1))
    # vacuity: the local no-response abort (antecedent of AbortOnlyAfterAllRetries) is reachable
    tsmlib.run_mc(chk, "dev_EarlyAbort", C(1, 1, retries=2, maxdrop=3, flags=dict(tsmlib.INTENDED)), extra_invs=["SanityNoLocalAbort"],
                  expect=["SanityNoLocalAbort"])
    # ---- R ----
    traces = []
    scripts = graph_scripts(chk, "R_1x2_f11", C(1, 2, maxdrop=1, maxdup=1, maxdelay=1 if thorough else 0, flags=flags),
                            limit=None if thorough else 500, rng=rng)
    rc_r = tsmlib.rig_cfg(seg=50, nq=1, nr=2)
    for sc in scripts:
        t = tsmlib.record(rc_r, script=sc)
        if t["stopped"] is not None:
            chk.deviation({"what": "spec step not enabled in the implementation", "script": sc[:t["stopped"] + 1]})
        traces.append(t)
        chk.case(("R", tuple(sc)), nontrivial=True)
    # ---- T ----
    shapes = [(1, 1), (1, 0), (2, 1), (1, 3), (3, 3)] if not thorough else [(1, 1), (1, 0), (2, 1), (1, 2), (1, 3), (3, 1), (3, 3), (2, 5)]
    for nq, nr in shapes:
        for rk in ("ack", "error", "abort"):
            if rk != "ack" and (nq, nr) not in ((1, 1), (2, 1)):
                continue
            for retries in ((0, 1, 3) if (nq, nr) == (1, 1) else (1,)):
                # (1 x 1: the settings come from a local device object, as in an application; else from the access point)
                rc = tsmlib.rig_cfg(seg=50, nq=nq, nr=nr, rk=rk, retries=retries, pwc=rng.choice([1, 2, 4, 8]), pws=rng.choice([1, 2, 3, 8]),
                                    maxsegs=None, via_device=(nq, nr) == (1, 1))
                base = single_fault_traces(rc)
                for t in base:
                    traces.append(t)
                    chk.case(("sf", nq, nr, rk, retries, tuple(t["faults"].items()), t["order"]), nontrivial=True)
                nfr = len(base[0]["frames"])
                # total silence from every frame on
                for k in range(1, nfr + 2):
                    traces.append(tsmlib.record(rc, silence_from=k))
                    chk.case(("silence", nq, nr, rk, retries, k), nontrivial=True)
                # pairs of faults
                pairs = list(itertools.combinations(range(1, nfr + 3), 2))
                if not thorough:
                    rng.shuffle(pairs)
                    pairs = pairs[:12]
                for a, b in pairs:
                    for ka, kb in (itertools.product(("drop", "dup", "delay"), repeat=2) if thorough else [(rng.choice(["drop", "dup", "delay"]), rng.choice(["drop", "dup", "delay"]))]):
                        traces.append(tsmlib.record(rc, faults={a: ka, b: kb}, order=rng.choice(["fifo", "timers"])))
                        chk.case(("pair", nq, nr, rk, retries, a, ka, b, kb), nontrivial=True)
    # what the client knows about the server changes hands while the transaction is open: a record filed by address only (or by an
    # earlier I-Am) is completed by the server's I-Am at every frame of the exchange -- the outcome still arrives, nothing is left
    for known in ("addr", True):
        for nq, nr in ((1, 1), (2, 1), (1, 3)):
            rc0 = tsmlib.rig_cfg(seg=50, nq=nq, nr=nr, maxsegs=None, known=known)
            nfr = len(tsmlib.record(rc0)["frames"])
            for k in range(1, nfr + 1):
                t = tsmlib.record(dict(rc0, iam_on_frame=k))
                traces.append(t)
                chk.case(("iam-during", known, nq, nr, k), nontrivial=True)
    # requests that cannot be sent at all (the client does not segment / the peer is known not to take segments / not that
    # many): refused on the spot with a local abort -- one outcome, and nothing is kept for them
    for rc in (tsmlib.rig_cfg(seg=50, nq=3, nr=1, c_seg="noSegmentation", refused=True),
               tsmlib.rig_cfg(seg=50, nq=3, nr=1, c_seg="segmentedReceive", refused=True),
               tsmlib.rig_cfg(seg=50, nq=3, nr=1, known=True, s_seg="noSegmentation", refused=True),
               tsmlib.rig_cfg(seg=50, nq=3, nr=1, known=True, s_seg="segmentedTransmit", refused=True),
               tsmlib.rig_cfg(seg=50, nq=4, nr=1, lq=44 * 3 + 22, known=True, known_maxsegs=2, refused=True),
               tsmlib.rig_cfg(seg=50, nq=3, nr=1, lq=44 * 2 + 22, known=True, known_maxsegs=2, refused=True, via_device=True)):
        traces.append(tsmlib.record(rc))
        chk.case(("refused", rc.get("c_seg"), rc.get("s_seg"), rc.get("known_maxsegs"), rc.get("via_device", False)), nontrivial=True)
    # sizes on both sides of every segmentation boundary, slow application
    for seg in (50, 128, 480, 1476):
        for L in (seg - 1, seg, seg + 1, 2 * seg, 2 * seg + 1):
            rc = tsmlib.rig_cfg(seg=seg, lq=L, lr=L, maxsegs=None)
            traces.append(tsmlib.record(rc, faults={rng.randint(1, 6): rng.choice(["drop", "dup", "delay"])}))
            chk.case(("size", seg, L), nontrivial=True)
    for app_delay in (2000, 3500, 7000):
        rc = tsmlib.rig_cfg(seg=50, nq=1, nr=2, app_delay=app_delay, retries=1)
        for t in single_fault_traces(rc, orders=("fifo",)):
            traces.append(t)
            chk.case(("slowapp", app_delay, tuple(t["faults"].items())), nontrivial=True)
    # random multi-fault sequences of unbounded length
    for n in range(1500 if thorough else 150):
        rc = tsmlib.rig_cfg(seg=rng.choice([50, 128]), nq=rng.randint(1, 4), nr=rng.randint(0, 4), pwc=rng.randint(1, 8), pws=rng.randint(1, 8),
                            retries=rng.randint(0, 3), rk=rng.choice(["ack", "ack", "ack", "error", "abort"]),
                            app_delay=rng.choice([0, 0, 0, 2000, 4000]), maxsegs=None, via_device=rng.random() < 0.5)
        nf = rng.randint(1, 12)
        faults = {rng.randint(1, 40): rng.choice(["drop", "dup", "delay"]) for _ in range(nf)}
        s = rng.randrange(1 << 30)
        t = tsmlib.record(rc, faults=faults, order="random", rng=random.Random(s), silence_from=rng.choice([None, None, None, rng.randint(1, 20)]))
        t["rng_seed"] = s
        traces.append(t)
        chk.case(("rnd", n), nontrivial=True)
    for i, t in enumerate(traces):
        t["tid"] = i + 1
    chk.sample({"cfg": traces[-1]["cfg"], "faults": traces[-1]["faults"], "outcomes": traces[-1]["outcomes"],
                "events": [(e["ev"], e["i"]) for e in traces[-1]["evs"]][:40]})
    tsmlib.validate(chk, traces, flags, on_verdict_factory(chk, "C04", C04_MONITORS))
    # the IOCB path
    import ioqcheck
    ioqcheck.run(chk, rng, thorough)
    return chk.finish()


def replay(path):
    body = json.load(open(path))
    if body.get("replay", {}).get("kind") == "iocb":
        import ioqcheck
        chk = Check("C04", "quick", body.get("seed", 0))
        ioqcheck.replay(chk, body["replay"])
        return chk.finish()
    return c05.replay(path, "C04", C04_MONITORS)
