"""X06 -- the in-process virtual network (vlan.py).   (spec/Vlan.tla, spec/MC_Vlan*.tla/.cfg, spec/Trace_Vlan.tla)

D  TLC exhaustive on the static configurations spec/MC_Vlan_*.cfg (one plain network with three attached and two spare
   nodes incl. a duplicate address, promiscuous / spoofing variants, two sends, every interleaving with deliveries, one
   membership change and one change of a sent PDU; the same with a raising receiver; lossy networks with the draws around
   the 1 % / 50 % / 100 % thresholds; two IP networks (10.0.0.0/25, 10.0.0.128/25) + IPRouter with two nodes each and a
   spare node with another broadcast address; three IP networks) against the 29 step formulas and 3 state formulas of
   Vlan.tla.  Each named deviation (SendByReference, BcastExcludesByAddress, RaiseCutsDelivery) must make TLC find a
   violation (vacuity check, six configurations).
R  TLC dumps the labelled state graph of further configurations, generated with the deviation flags OBSERVED on the tree
   under test (three probes); an edge cover of each graph is executed on real Network / Node / IPNetwork / IPNode /
   IPRouter objects: a recording client is bound on top of every node (bacpypes.comm.bind), the scheduled process_pdu calls
   run one at a time (vtime.run_one), the objects are projected after every step (Network.nodes, broadcast_address, the
   scheduled calls with the PDU each one holds, what every client got, what the traffic_log was called with, what the
   IPRouter was handed).  The recorded executions go through Trace_Vlan (conformance step by step + the step formulas
   evaluated by TLC on the logged states).
T  seeded random histories on random topologies (1-3 networks, plain or IP, up to 6 nodes each, an IPRouter between the IP
   networks, promiscuous / spoofing / raising nodes, duplicate addresses, lossy networks, spare nodes that join later,
   nodes that leave and come back, hundreds of sends, changes of PDUs on their way), recorded the same way and validated
   by TLC.  Recorded traces with one falsified field each must be flagged by the matching formula (binding self-test).

Every receiver empties and overwrites the PDU it was handed (what one receiver does to its copy is nobody else's
business); random.random inside bacpypes.vlan is the harness's die (draw / 8192, logged).
A monitor failure at a step that CONFORMS to the code-flagged model is a consequence of a named deviation; the signature
says which (case) -- anything else is reported with conformant_to_code_model = false.
VERIF_X06_ASSUME_KNOWN=<json> adds known-finding entries for one run (development aid; known_findings.json untouched).
"""
import os, sys, json, random, collections, time, shutil, re, copy
from common import Check, VERIF, WORK, Hang, watchdog
import tlc, tlaval
import vtime

vt = vtime.install()
import bacpypes.core as core
import bacpypes.vlan as vlan
from bacpypes.comm import Client, bind
from bacpypes.pdu import Address, LocalBroadcast, PDU
from bacpypes.vlan import Network, Node, IPNetwork, IPNode, IPRouter

IMPL_WORKERS = int(os.environ.get("VERIF_IMPL_WORKERS", "0") or 0) or max(1, min(6, (os.cpu_count() or 2) // 2))
STEP_MONITORS = ["UnicastToAddressed", "UnicastNotToOthers", "PromiscuousSeesOnce", "BroadcastToAllOthers",
                 "BroadcastNotToSender", "OnlyMembersReceive", "DroppedReachesNobody", "ReceptionOnlyOnDelivery",
                 "HistoryOnlyGrows", "CopyIsFrame", "OnlySentFramesArrive", "SourceIsSender", "PayloadIsWhatWasSent",
                 "AtMostOnce", "PerSenderFifo", "UnboundRefused", "SpoofRefusedUnlessEnabled", "RefusedSendsNothing",
                 "AcceptedSendInFlight", "OnlySendsAndForwardsEmit", "FlightKeepsPayload", "OldestFirst", "FlightWellFormed",
                 "WireLogsEveryFrame", "NoLoop", "ForwardToContainingNet", "AddOutcome", "RemoveOutcome",
                 "MembershipOnlyByAddRemove"]
FINAL_MONITORS = ["QuietAtEnd", "RoutedExactlyOnce", "EverySendOnItsOwnWire"]
DEVIATIONS = ["SendByReference", "BcastExcludesByAddress", "RaiseCutsDelivery"]
INTENDED = {k: False for k in DEVIATIONS}
STATIC_OK = ["lan", "raise", "lossy", "ip", "ipraise", "ip3"]
STATIC_DEV = [("dev_ref", "SendByReference"), ("dev_bcast", "BcastExcludesByAddress"), ("dev_bcast_ip", "BcastExcludesByAddress"),
              ("dev_raise", "RaiseCutsDelivery"), ("dev_raise_ip", "RaiseCutsDelivery"), ("dev_raise_route", "RaiseCutsDelivery")]
PORT = 47808
HANGS = [0]
RUNAWAY = 120                       # more scheduled deliveries than this at once: the history is cut short
# the formulas each named deviation can falsify (used to NAME the cause of a failure at a step that shows several of them)
CASE_MONITORS = {"sender_changed_pdu_after_request": ["FlightKeepsPayload", "PayloadIsWhatWasSent"],
                 "broadcast_withheld_by_source_address": ["BroadcastToAllOthers", "BroadcastNotToSender", "PromiscuousSeesOnce"],
                 "receiver_raised": ["UnicastToAddressed", "PromiscuousSeesOnce", "BroadcastToAllOthers", "RoutedExactlyOnce"]}


# ---- the die -------------------------------------------------------------------------------------------------------------------
class Dice(random.Random):
    """stands in for the module `random` inside bacpypes.vlan: random() returns the draw the harness armed (in 1/8192,
    exact in binary floating point) and remembers that it was asked"""

    def __init__(self):
        random.Random.__init__(self, 0)
        self.arm(-1)

    def arm(self, draw):
        self.script, self.calls, self.last = draw, 0, -1

    def random(self):
        self.calls += 1
        self.last = self.script if self.script is not None and self.script >= 0 else 4096
        return self.last / 8192.0

    def consumed(self):
        return self.last if self.calls == 1 else -1 if self.calls == 0 else -3


DICE = Dice()
vlan.random = DICE


# ---- abstract <-> concrete --------------------------------------------------------------------------------------------------------
def render_addr(a, style):
    """abstract address (list of integers) -> what the code is given: [] None; [k] station k / [0] the broadcast address of a
    plain network (integers, or pdu.Address objects with style 'addr'); [a,b,c,d,port] an (ip, port) tuple"""
    a = list(a)
    if not a:
        return None
    if len(a) == 5:
        return ("%d.%d.%d.%d" % tuple(a[:4]), a[4])
    if style == "addr":
        return LocalBroadcast() if a[0] == 0 else Address(a[0])
    return a[0]


def abstract_addr(x):
    try:
        if x is None:
            return []
        if isinstance(x, bool):
            return [-1]
        if isinstance(x, int):
            return [x] if 0 <= x < 2 ** 31 else [-1]
        if isinstance(x, tuple) and len(x) == 2 and isinstance(x[0], str):
            o = [int(p) for p in x[0].split(".")]
            return o + [int(x[1])] if len(o) == 4 else [-1]
        if isinstance(x, Address):
            if x.addrType == Address.localBroadcastAddr:
                return [0]
            if x.addrType == Address.localStationAddr and x.addrLen == 1:
                return [x.addrAddr[0]]
    except Exception:
        pass
    return [-1]


def ip_text(nc):
    return "%d.%d.%d.%d/%d:%d" % (nc["addr"][0], nc["addr"][1], nc["addr"][2], nc["addr"][3], nc["plen"], nc["addr"][4])


def rec_of(pdu):
    d = bytes(pdu.pduData)
    fid, pl = (d[0] * 256 + d[1], d[2]) if len(d) == 3 else (-1, -1)
    return {"id": fid, "src": abstract_addr(pdu.pduSource), "dst": abstract_addr(pdu.pduDestination), "pl": pl}


class Recorder(Client):
    """what is bound on top of a node: records what comes up, then wrecks its copy; may raise"""

    def __init__(self, rig, nid, raises, scrap):
        Client.__init__(self)
        self.rig, self.nid, self.raises, self.scrap = rig, nid, raises, scrap
        self.pdus = {}

    def confirmation(self, pdu):
        self.rig.got[self.nid - 1].append(rec_of(pdu))
        del pdu.pduData[:]
        pdu.pduData += b"\xff\xff\xff\xff"
        pdu.pduSource = self.scrap
        pdu.pduDestination = self.scrap
        if self.raises:
            self.rig.raised.append(self.nid)
            raise RuntimeError("x06: what is bound on node %d raises" % self.nid)


class WireLog:
    def __init__(self, rig, k):
        self.rig, self.k = rig, k

    def __call__(self, name, pdu):
        self.rig.wired[self.k - 1].append(rec_of(pdu)["id"])


class Rig:
    """the objects of one topology (Vlan.tla Top) and their projection"""

    def __init__(self, topo, style="int"):
        vt.reset(0.0)
        self.topo, self.style = topo, style
        N, M = len(topo["node"]), len(topo["net"])
        self.got = [[] for _ in range(N)]
        self.wired = [[] for _ in range(M)]
        self.raised, self.rins = [], []
        self.nets, self.nodes, self.clients = [], [None] * N, [None] * N
        self.node_id, self.net_id = {}, {}
        self.snd = {}              # id(task) -> (task, sending node): the harness's own bookkeeping of who called request()
        self.sent_pdu = {}         # frame id -> the PDU object handed to request()
        self.nsent = 0
        self.router = IPRouter() if topo["router"] else None
        for k, nc in enumerate(topo["net"], 1):
            if nc["ip"]:
                net = IPNetwork("net%d" % k)
                net.drop_percent = float(nc["drop"])
            else:
                net = Network("net%d" % k, broadcast_address=render_addr(nc["bcast"], style), drop_percent=float(nc["drop"]))
            net.traffic_log = WireLog(self, k)
            self.nets.append(net)
            self.net_id[id(net)] = k
        for k, members in enumerate(topo["member"], 1):
            for nid in members:
                self.make(nid, self.nets[k - 1])
        for nid in range(1, N + 1):
            if self.nodes[nid - 1] is None:
                self.make(nid, None)
        if self.router is not None:
            if [self.node_id[id(rn.node)] for rn in self.router.nodes] != list(topo["router"]):
                tlc.machinery_failure("topology: router order %r cannot be constructed" % (topo["router"],))
            orig = self.router.process_pdu

            def hook(rnode, pdu, orig=orig):
                before = [e[2] for e in vt.tm.tasks]
                entry = dict(rec_of(pdu), node=self.node_id.get(id(rnode.node), 0), new=[])
                self.rins.append(entry)
                try:
                    return orig(rnode, pdu)
                finally:
                    entry["new"] = [e[2] for e in vt.tm.tasks if not any(e[2] is b for b in before)]
            self.router.process_pdu = hook
        self.take()

    def make(self, nid, lan):
        nc = self.topo["node"][nid - 1]
        if nid in self.topo["router"]:
            assert nc["ip"] and nc["prom"] and nc["spoof"] and lan is not None
            self.router.add_network(Address(ip_text(nc)), lan)
            node = self.router.nodes[-1].node
        elif nc["ip"]:
            node = IPNode(Address(ip_text(nc)), lan, promiscuous=nc["prom"], spoofing=nc["spoof"])
            scrap = ("255.255.255.254", 1)
        else:
            node = Node(render_addr(nc["addr"], self.style), lan, promiscuous=nc["prom"], spoofing=nc["spoof"])
            scrap = 250 if self.style == "int" else Address(250)
        if nid not in self.topo["router"]:
            self.clients[nid - 1] = Recorder(self, nid, nc["raises"], scrap)
            bind(self.clients[nid - 1], node)
        self.nodes[nid - 1] = node
        self.node_id[id(node)] = nid

    # -- projection
    def net_of(self, nid):
        return self.net_id.get(id(self.nodes[nid - 1].lan), 0) if self.nodes[nid - 1].lan is not None else 0

    def scheduled(self):
        """the scheduled process_pdu calls, oldest first: [(task, frame)]"""
        out = []
        for when, n, task in sorted(vt.tm.tasks, key=lambda e: (e[0], e[1])):
            fr = {"id": -1, "net": 0, "snd": 0, "src": [-1], "dst": [-1], "pl": -1}
            try:
                f = type(task).__dict__["process_task"]
                cells = dict(zip(f.__code__.co_freevars, f.__closure__))
                fn, args = cells["fn"].cell_contents, cells["args"].cell_contents
                fr.update(rec_of(args[0]))
                fr["net"] = self.net_id.get(id(getattr(fn, "__self__", None)), 0)
                fr["snd"] = self.snd.get(id(task), (None, 0))[1]
            except Exception:
                pass
            out.append((task, fr))
        return out

    def take(self):
        got, wired = self.got, self.wired
        self.got = [[] for _ in got]
        self.wired = [[] for _ in wired]
        return got, wired

    def state(self, flight, rin):
        got, wired = self.take()
        return {"member": [[self.node_id.get(id(x), 0) for x in net.nodes] for net in self.nets],
                "bcast": [abstract_addr(net.broadcast_address) for net in self.nets],
                "flight": flight, "rin": rin, "got": got, "wired": wired}

    def event(self, op, flight=None, rin=(), **kw):
        ev = {"op": op, "n": 0, "net": 0, "dst": [], "src": [], "pl": 0, "res": "", "draw": -1, "id": 0}
        ev.update(kw)
        ev.update(self.state([fr for t, fr in self.scheduled()] if flight is None else flight, list(rin)))
        return ev

    # -- the actions
    def send(self, n, dst, claim, pl):
        fid = self.nsent + 1
        pdu = PDU(bytes([fid >> 8, fid & 255, pl]), destination=render_addr(dst, self.style))
        if claim:
            pdu.pduSource = render_addr(claim, self.style)
        before = [e[2] for e in vt.tm.tasks]
        k = self.net_of(n)
        res, why = "ok", ""
        try:
            with watchdog(10):
                self.clients[n - 1].request(pdu)
        except Exception as err:
            res, why = "refused", type(err).__name__
        if res == "ok":
            self.nsent = fid
            self.sent_pdu[fid] = pdu
            for e in vt.tm.tasks:
                if not any(e[2] is b for b in before):
                    self.snd[id(e[2])] = (e[2], n)
        return [self.event("send", n=n, net=k, dst=list(dst), src=list(claim), pl=pl, res=res, id=fid if res == "ok" else 0, why=why)]

    def deliver(self, draw):
        pre = self.scheduled()
        head = pre[0][1] if pre else {"id": 0, "net": 0, "snd": 0, "src": [], "dst": [], "pl": 0}
        DICE.arm(draw)
        self.rins, self.raised = [], []
        nerr = len(vt.errors)
        with watchdog(10):
            vt.run_one()
        errs = [e[1] for e in vt.errors[nerr:]]
        post = self.scheduled()
        hidden = []
        for r in self.rins:
            for t in r["new"]:
                lan = None
                try:
                    f = type(t).__dict__["process_task"]
                    lan = dict(zip(f.__code__.co_freevars, f.__closure__))["fn"].cell_contents.__self__
                except Exception:
                    pass
                rn = [self.node_id[id(x.node)] for x in self.router.nodes if x.node.lan is lan and lan is not None]
                self.snd[id(t)] = (t, rn[0] if rn else 0)
                hidden.append(t)
        post = self.scheduled()
        rin = [{k: r[k] for k in ("node", "id", "src", "dst", "pl")} for r in self.rins]

        def flight(hide):
            return [fr for t, fr in post if not any(t is h for h in hide)]
        evs = [self.event("deliver", flight=flight(hidden), rin=rin, n=head["snd"], net=head["net"], dst=head["dst"], src=head["src"],
                          pl=head["pl"], id=head["id"], draw=DICE.consumed(), raised=list(self.raised), errors=errs)]
        for i, r in enumerate(self.rins):
            hidden = [t for q in self.rins[i + 1:] for t in q["new"]]
            evs.append(self.event("forward", flight=flight(hidden), rin=rin[i + 1:], n=r["node"], net=self.net_of(r["node"]) if r["node"] else 0,
                                  dst=r["dst"], src=r["src"], pl=r["pl"], id=r["id"]))
        return evs

    def add(self, n, k, how=0):
        res, why = "ok", ""
        try:
            with watchdog(10):
                if how:
                    self.nodes[n - 1].bind(self.nets[k - 1])
                else:
                    self.nets[k - 1].add_node(self.nodes[n - 1])
        except ValueError as err:
            res, why = "mismatch", str(err)
        except Exception as err:
            res, why = "error", repr(err)
        return [self.event("add", n=n, net=k, res=res, why=why)]

    def remove(self, n):
        k = self.net_of(n)
        res, why = "ok", ""
        try:
            with watchdog(10):
                self.nets[k - 1].remove_node(self.nodes[n - 1])
        except Exception as err:
            res, why = "error", repr(err)
        return [self.event("remove", n=n, net=k, res=res, why=why)]

    def mutate(self, fid, pl):
        pre = [fr for t, fr in self.scheduled() if fr["id"] == fid]
        pdu = self.sent_pdu[fid]
        pdu.pduData[2] = pl                     # the sender writes into the PDU it has handed to request() earlier
        fr = pre[0] if pre else {"snd": 0, "net": 0}
        return [self.event("mutate", n=fr["snd"], net=fr["net"], pl=pl, id=fid)]

    def do(self, op):
        return getattr(self, op[0])(*op[1:])

    def applicable(self, op):
        """can the operation be carried out on the objects as they are?  (a walk of the model's graph stops where the
        implementation has left the graph: that step has been recorded and is judged)"""
        if op[0] == "deliver":
            return self.pending() > 0
        if op[0] == "add":
            return self.net_of(op[1]) == 0
        if op[0] == "remove":
            return self.net_of(op[1]) != 0
        if op[0] == "mutate":
            return op[1] in self.sent_pdu
        return True

    def pending(self):
        return len(vt.tm.tasks)


def run_ops(topo, style, ops, drain=True):
    """executes abstract operations on fresh objects; returns (events, hang?).  Every event carries the index of its operation."""
    rig = Rig(topo, style)
    evs = []
    try:
        for i, op in enumerate(ops):
            if not rig.applicable(tuple(op)):
                break
            for ev in rig.do(tuple(op)):
                ev["opi"] = i
                evs.append(ev)
        n = 0
        while drain and 0 < rig.pending() <= RUNAWAY and n < 50 + 4 * len(ops):   # (frames that circulate or multiply for ever
            n += 1                                                                  #  must not hang the check: QuietAtEnd reports)
            k = rig.scheduled()[0][1]["net"]
            lossy = 1 <= k <= len(topo["net"]) and topo["net"][k - 1]["drop"] > 0
            for ev in rig.deliver(8191 if lossy else -1):
                ev["opi"] = len(ops)
                evs.append(ev)
    except Hang:
        HANGS[0] += 1
        vt.reset(0.0)
        return evs, True
    return evs, False


# ---- python -> TLA+ text ---------------------------------------------------------------------------------------------------------
def tla(v):
    if isinstance(v, bool):
        return "TRUE" if v else "FALSE"
    if isinstance(v, int):
        return str(v)
    if isinstance(v, str):
        return '"%s"' % v
    if isinstance(v, dict):
        return "[" + ", ".join("%s |-> %s" % (k, tla(x)) for k, x in v.items()) + "]"
    if isinstance(v, (list, tuple)):
        return "<< " + ", ".join(tla(x) for x in v) + " >>"
    if isinstance(v, (set, frozenset)):
        return "{" + ", ".join(sorted(tla(x) for x in v)) + "}"
    raise TypeError(v)


def ipa(a, b, c, d):
    return (a, b, c, d, PORT)


def pn(a, prom=False, spoof=False, raises=False):
    return {"addr": [a], "plen": 0, "ip": False, "prom": prom, "spoof": spoof, "raises": raises}


def ipn(a, plen, prom=False, spoof=False, raises=False):
    return {"addr": list(a), "plen": plen, "ip": True, "prom": prom, "spoof": spoof, "raises": raises}


def topo_lan(p3=False, s1=False, r2=False, drop=0, order=(1, 2, 3)):
    return {"node": [pn(1, spoof=s1), pn(2, raises=r2), pn(3, prom=p3), pn(4, spoof=True), pn(2)],
            "net": [{"ip": False, "bcast": [0], "drop": drop}], "router": [], "member": [list(order)]}


def topo_ip(p3=False, s2=False, r2=False, a_order=(2, 1, 3), b_order=(4, 5, 6)):
    return {"node": [ipn(ipa(10, 0, 0, 1), 25, True, True), ipn(ipa(10, 0, 0, 2), 25, prom=r2, spoof=s2, raises=r2), ipn(ipa(10, 0, 0, 3), 25, prom=p3),
                     ipn(ipa(10, 0, 0, 129), 25, True, True), ipn(ipa(10, 0, 0, 130), 25), ipn(ipa(10, 0, 0, 131), 25),
                     ipn(ipa(10, 0, 0, 70), 27)],
            "net": [{"ip": True, "bcast": [], "drop": 0}, {"ip": True, "bcast": [], "drop": 0}], "router": [1, 4],
            "member": [list(a_order), list(b_order)]}


TOPO_IP3 = dict(topo_ip(p3=True), net=[{"ip": True, "bcast": [], "drop": 0}] * 3, router=[1, 4, 8], member=[[2, 1, 3], [4, 5, 6], [8, 9]])
TOPO_IP3["node"] = TOPO_IP3["node"] + [ipn(ipa(10, 0, 1, 1), 24, True, True), ipn(ipa(10, 0, 1, 2), 24)]


def mc_gen(name, topos, sendnodes, dests, claims, churn, draws=(), sends=2, nchurn=1, nmut=1, flags=INTENDED, props=False):
    body = "---- MODULE %s ----\nEXTENDS Vlan\n" % name
    body += "c_Topos == %s\nc_TopoAt(i) == c_Topos[i]\nc_Dests == %s\nc_Claims == %s\nc_Draws == %s\n====\n" % (
        tla(list(topos)), tla(set(tuple(d) for d in dests)), tla(set(tuple(c) for c in claims)), tla(set(draws)))
    lines = ["CONSTANTS", "  TopoAt <- c_TopoAt", "  NTopos = %d" % len(topos), "  SendNodes = %s" % tla(set(sendnodes)), "  Dests <- c_Dests", "  Claims <- c_Claims",
             "  Payloads = {7}", "  MutPayloads = {9}", "  ChurnNodes = %s" % tla(set(churn)), "  Draws <- c_Draws",
             "  MaxSends = %d" % sends, "  MaxChurn = %d" % nchurn, "  MaxMut = %d" % nmut]
    lines += ["  %s = %s" % (k, tla(bool(flags[k]))) for k in DEVIATIONS]
    lines += ["SPECIFICATION Spec", "CHECK_DEADLOCK FALSE", "INVARIANT Shape"]
    if props:
        lines += ["INVARIANT RoutedExactlyOnce", "INVARIANT EverySendOnItsOwnWire"] + ["PROPERTY P_" + m for m in STEP_MONITORS]
    return {name + ".tla": body}, "\n".join(lines) + "\n"


# ---- D ------------------------------------------------------------------------------------------------------------------------------
def run_static(chk, cfg, expect_dev=None, timeout=1500):
    res = tlc.run_tlc("MC_Vlan", cfg_file="MC_Vlan_%s.cfg" % cfg, timeout=timeout, name="Vlan/" + cfg)
    if expect_dev is None:
        chk.tlc(res)
        if res["error_kind"]:
            tlc.machinery_failure("design model %s violates %s\n%s" % (cfg, res["error"], res["output"][-3000:]))
    else:
        if res["error_kind"] not in ("invariant", "action_property", "property", "temporal"):
            tlc.machinery_failure("sanity: configuration %s (%s) should violate a formula, got %r\n%s" % (
                cfg, expect_dev, res["error"], res["output"][-2000:]))
        chk.extra.setdefault("sanity", []).append("config %s (%s = TRUE) violates %s as expected (%d states)" % (
            cfg, expect_dev, res["error"], res["distinct"]))
    return res


# ---- R: spec -> code ---------------------------------------------------------------------------------------------------------------
_node_re = re.compile(r'^(-?\d+) \[label="((?:[^"\\]|\\.)*)"(,style = filled)?[,\]]')
_edge_re = re.compile(r'^(-?\d+) -> (-?\d+) ')
_act_re = re.compile(r'/\\ act = (.*?)(?=\n/\\ |\Z)', re.S)
_topo_re = re.compile(r'/\\ topo = (\d+)')


def parse_graph(path):
    """the dumped graph, keeping only what the replay needs of every state: its action label and its topology"""
    nodes, edges = {}, []
    for line in open(path):
        m = _edge_re.match(line)
        if m:
            edges.append((m.group(1), m.group(2)))
            continue
        m = _node_re.match(line)
        if m:
            lab = m.group(2).replace('\\n', '\n').replace('\\\\', '\\').replace('\\"', '"')
            p = tlaval.P(_act_re.search(lab).group(1))
            nodes[m.group(1)] = (p.value(), int(_topo_re.search(lab).group(1)))
    return nodes, edges


def edge_cover(edges, init):
    succ = collections.defaultdict(list)
    for u, v in edges:
        succ[u].append(v)
    parent = {init: None}
    dq = collections.deque([init])
    while dq:
        u = dq.popleft()
        for v in succ[u]:
            if v not in parent:
                parent[v] = u
                dq.append(v)

    def path_to(u):
        p = []
        while parent[u] is not None:
            p.append(u)
            u = parent[u]
        return p[::-1]
    todo = {u: list(vs) for u, vs in succ.items() if u in parent}
    walks = []
    for start in sorted(todo, key=lambda u: len(path_to(u))):
        while todo[start]:
            walk = path_to(start)
            u = start
            while todo.get(u):
                v = todo[u].pop()
                walk.append(v)
                u = v
            walks.append(walk)
    return walks


def op_of(a):
    op = a["op"]
    if op == "send":
        return ["send", a["n"], list(a["dst"]), list(a["src"]), a["pl"]]
    if op == "deliver":
        return ["deliver", a["draw"]]
    if op == "add":
        return ["add", a["n"], a["net"]]
    if op == "remove":
        return ["remove", a["n"]]
    if op == "mutate":
        return ["mutate", a["id"], a["pl"]]
    return None                                 # forward: happens inside the delivery before it


def replay_graph(chk, name, topos, flags, style="int", **kw):
    """TLC dumps the state graph of a configuration; an edge cover of it becomes a list of (topology, style, operations)"""
    wd = tlc.workdir("dot")
    dot = os.path.join(wd, "g")
    try:
        files, cfg = mc_gen("MCgen_" + name, topos, flags=flags, **kw)
        res = tlc.run_tlc("MCgen_" + name, cfg_text=cfg, files=files, timeout=900, dump_dot=dot, name="Vlan/" + name)
        chk.tlc(res)
        if res["error_kind"] or not res["finished"]:
            tlc.machinery_failure("graph configuration %s: %s\n%s" % (name, res["error"], res["output"][-3000:]))
        nodes, edges = parse_graph(dot + ".dot")
    finally:
        shutil.rmtree(wd, ignore_errors=True)
    out, steps = [], 0
    inits = sorted(n for n, (a, ti) in nodes.items() if a["op"] == "init")
    for init in inits:
        for w in edge_cover(edges, init):
            ops = [o for o in (op_of(nodes[v][0]) for v in w) if o is not None]
            steps += len(ops)
            out.append((topos[nodes[init][1] - 1], style, ops))
    chk.extra.setdefault("replay", []).append({"config": name, "graph_nodes": len(nodes), "graph_edges": len(edges),
                                               "topologies": len(inits), "walks": len(out), "operations": steps})
    return out


def library_raised(err):
    """an exception that escaped from the code under test into the harness (the calls whose refusal is legitimate are
    wrapped): where it was raised, or None when the harness itself raised"""
    import traceback
    from common import SRC
    tb = traceback.extract_tb(err.__traceback__)
    if tb and os.path.abspath(tb[-1].filename).startswith(os.path.abspath(SRC)):
        return {"exception": repr(err), "raised_in": "%s:%s" % (os.path.basename(tb[-1].filename), tb[-1].name),
                "traceback": "".join(traceback.format_exception(type(err), err, err.__traceback__))[-1500:]}
    return None


def exec_walks(job):
    tid0, walks = job
    out = []
    for topo, style, ops in walks:
        if HANGS[0] >= 3:
            break
        crash = None
        try:
            evs, hang = run_ops(topo, style, ops)
        except Exception as err:
            crash = library_raised(err)
            if crash is None:
                raise
            evs, hang = [], False
        out.append({"tid": tid0 + len(out), "topo": topo, "evs": evs, "hang": hang, "crash": crash,
                    "replay": {"kind": "history", "topo": topo, "style": style, "ops": ops}})
    return out


def run_pool(fn, jobs):
    if IMPL_WORKERS <= 1 or len(jobs) <= 1:
        return [fn(j) for j in jobs]
    import multiprocessing as mp
    ctx = mp.get_context("fork")
    with ctx.Pool(min(IMPL_WORKERS, len(jobs))) as pool:
        return pool.map(fn, jobs, chunksize=1)


# ---- T: seeded random histories ---------------------------------------------------------------------------------------------------
def random_topo(rng):
    """1-3 networks (plain or IP), up to 6 nodes each, spare nodes, an IPRouter when there are two IP networks or more"""
    M = rng.choice([1, 1, 2, 2, 3])
    kinds = [rng.random() < 0.55 for _ in range(M)]               # True: IP
    if M >= 2 and rng.random() < 0.6:
        kinds[0] = kinds[1] = True
    nets, nodes, member, router = [], [], [], []
    ipnets = [k for k in range(M) if kinds[k]]
    routed = len(ipnets) >= 2 and rng.random() < 0.8
    drop = lambda: rng.choice([0, 0, 0, 0, 1, 10, 25, 50])
    plens = {}
    for k in range(M):
        nets.append({"ip": kinds[k], "bcast": [] if kinds[k] else [0], "drop": drop()})
        member.append([])
        if kinds[k]:
            plens[k] = rng.choice([16, 20, 23, 24, 25, 27, 28])
    used = {}

    def new_ip(k, plen=None):
        """a free host address in the subnet of network k: 10.(20+k).x.y with the host bits drawn"""
        plen = plens[k]
        base = (10 << 24) | ((20 + k) << 16) | (rng.randrange(256) << 8 if plen > 16 else 0)
        base &= ~((1 << (32 - plen)) - 1) & 0xffffffff
        base = used.setdefault(("base", k), base)
        while True:
            h = rng.randrange(1, (1 << (32 - plen)) - 1)
            if (k, h) not in used:
                used[(k, h)] = 1
                a = base | h
                return [(a >> 24) & 255, (a >> 16) & 255, (a >> 8) & 255, a & 255, PORT]
    for k in range(M):
        n_here = rng.randint(1, 6)
        rpos = rng.randrange(n_here) if (routed and kinds[k] and n_here > 1) else (0 if routed and kinds[k] else -1)
        for j in range(n_here):
            flags = dict(prom=rng.random() < 0.2, spoof=rng.random() < 0.25, raises=rng.random() < 0.08)
            if kinds[k]:
                if j == rpos:
                    nodes.append(ipn(new_ip(k), plens[k], True, True, False))
                    router.append(len(nodes))
                else:
                    nodes.append(ipn(new_ip(k), plens[k], **flags))
            else:
                a = rng.randint(1, 12) if rng.random() < 0.85 or not member[k] else nodes[rng.choice(member[k]) - 1]["addr"][0]
                nodes.append(pn(a, **flags))
            member[k].append(len(nodes))
    only_routers = all(n + 1 in router for n in range(len(nodes)))
    for _ in range(rng.choice([0, 1, 2, 3]) or (1 if only_routers else 0)):   # spare nodes: constructed, attached later (or never)
        k = rng.randrange(M)
        flags = dict(prom=rng.random() < 0.2, spoof=rng.random() < 0.3, raises=rng.random() < 0.05)
        if kinds[k]:
            odd = rng.random() < 0.3
            a = new_ip(k)
            nodes.append(ipn(a, rng.choice([p for p in (16, 22, 26, 29) if p != plens[k]]) if odd else plens[k], **flags))
        else:
            nodes.append(pn(rng.randint(1, 12), **flags))
    return {"node": nodes, "net": nets, "router": router, "member": member}


def t_history(job):
    """one random history: job = (tid, trace seed, number of sends).  The generator looks at which nodes are attached and at
    which frames are on their way (to pick what to deliver / change); nothing else of the implementation's state is used."""
    tid, tseed, nsends = job
    rng = random.Random(tseed)
    topo = random_topo(rng)
    style = rng.choice(["int", "addr"])
    try:
        rig = Rig(topo, style)
    except Exception as err:
        crash = library_raised(err)
        if crash is None:
            raise
        return {"tid": tid, "topo": topo, "evs": [], "hang": False, "crash": crash,
                "replay": {"kind": "history", "topo": topo, "style": style, "ops": []}}
    N, M = len(topo["node"]), len(topo["net"])
    endpoints = [n for n in range(1, N + 1) if n not in topo["router"]]
    addrs = [tuple(nc["addr"]) for nc in topo["node"]]
    evs, ops = [], []
    burst = rng.choice([1, 2, 4, 8])
    sends = 0

    def some_dest(n):
        nc = topo["node"][n - 1]
        r = rng.random()
        if nc["ip"]:
            ips = [a for a in addrs if len(a) == 5]
            if r < 0.45:
                return list(rng.choice(ips))
            if r < 0.8:                                                     # a broadcast address: the own network's, another one's
                m = rng.choice([x for x in range(N) if topo["node"][x]["ip"]])
                a, plen = topo["node"][m]["addr"], topo["node"][m]["plen"]
                v = ((a[0] << 24) | (a[1] << 16) | (a[2] << 8) | a[3]) | ((1 << (32 - plen)) - 1)
                return [(v >> 24) & 255, (v >> 16) & 255, (v >> 8) & 255, v & 255, a[4]]
            if r < 0.9:
                a = list(rng.choice(ips))
                a[3] ^= rng.choice([1, 2, 64, 128])
                return a
            return [rng.choice([10, 11, 192]), rng.randrange(256), rng.randrange(256), rng.randrange(256), PORT]
        if r < 0.5:
            return [rng.choice([a for a in addrs if len(a) == 1])[0]]
        if r < 0.85:
            return [0]
        return [rng.randint(1, 14)]

    def act(op):
        ops.append(list(op))
        for ev in rig.do(tuple(op)):
            ev["opi"] = len(ops) - 1
            evs.append(ev)

    def deliver_one():
        k = rig.scheduled()[0][1]["net"]
        lossy = 1 <= k <= M and topo["net"][k - 1]["drop"] > 0
        p = topo["net"][k - 1]["drop"] if lossy else 0
        edge = (p * 2048 + 24) // 25
        act(("deliver", rng.choice([rng.randrange(8192), rng.randrange(8192), edge, max(edge - 1, 0), 0, 8191]) if lossy else -1))
    try:
        while sends < nsends and HANGS[0] < 3 and rig.pending() <= RUNAWAY and len(evs) < 40 * nsends:
            r = rng.random()
            if r < 0.5:
                n = rng.choice(endpoints)
                same = [a for x, a in enumerate(addrs) if len(a) == len(addrs[n - 1])]
                claim = [] if rng.random() < 0.7 else list(rng.choice(same + [addrs[n - 1]]))
                act(("send", n, some_dest(n), claim, rng.randrange(200)))
                sends += 1
            elif r < 0.82:
                for _ in range(rng.randint(1, burst)):
                    if rig.pending():
                        deliver_one()
            elif r < 0.93:
                n = rng.choice(endpoints)
                if rig.net_of(n):
                    act(("remove", n))
                else:
                    ks = [k for k in range(1, M + 1) if topo["net"][k - 1]["ip"] == topo["node"][n - 1]["ip"]]
                    if ks:
                        act(("add", n, rng.choice(ks), rng.randrange(2)))
            else:
                cand = [fr for t, fr in rig.scheduled() if fr["id"] in rig.sent_pdu and rig.snd.get(id(t), (None, 0))[1] not in topo["router"]]
                if cand:
                    fr = rng.choice(cand)
                    act(("mutate", fr["id"], (fr["pl"] + 1 + rng.randrange(50)) % 256))
            if rng.random() < 0.1:
                vt.now = vt.now + rng.choice([0.001, 0.5, 3.0])
        budget = 50 + 4 * len(ops)
        while 0 < rig.pending() <= RUNAWAY and HANGS[0] < 3 and budget > 0:   # (frames that circulate or multiply for ever must not hang
                                                                              #  the check: QuietAtEnd reports them)
            budget -= 1
            deliver_one()
        hang = False
    except Hang:
        HANGS[0] += 1
        vt.reset(0.0)
        hang = True
    return {"tid": tid, "topo": topo, "evs": evs, "hang": hang, "crash": None,
            "replay": {"kind": "history", "topo": topo, "style": style, "ops": ops}}


# ---- what the tree under test does on the three named axes (only the conformance side of the validation uses it) -------------
def probe_flags():
    t = topo_lan(p3=False, s1=True, r2=False)
    e1, _ = run_ops(t, "int", [("send", 2, [3], [], 7), ("mutate", 1, 9)])
    byref = any(r["pl"] == 9 for ev in e1 for r in ev["got"][2])
    e2, _ = run_ops(t, "int", [("send", 1, [0], [2], 7)])
    byaddr = any(ev["got"][0] for ev in e2) or not any(ev["got"][1] for ev in e2)
    e3, _ = run_ops(topo_lan(r2=True), "int", [("send", 1, [0], [], 7)])
    cut = not any(ev["got"][2] for ev in e3)
    return {"SendByReference": byref, "BcastExcludesByAddress": byaddr, "RaiseCutsDelivery": cut}


# ---- trace validation ----------------------------------------------------------------------------------------------------------------
EV_KEYS = ("op", "n", "net", "dst", "src", "pl", "res", "draw", "id", "member", "bcast", "flight", "rin", "got", "wired")


def validate(chk, traces, label, flags):
    verdicts = {}
    batches, batch, size = [], [], 0
    for t in traces:
        batch.append(t)
        size += sum(8 + len(e["flight"]) + sum(len(g) for g in e["got"]) for e in t["evs"]) + 10
        if size > 150000:
            batches.append(batch)
            batch, size = [], 0
    if batch:
        batches.append(batch)
    body = "---- MODULE TRgen ----\nEXTENDS Trace_Vlan\nc_None == {}\n====\n"
    cfg = ("CONSTANTS\n  TopoAt <- tr_TopoAt\n  NTopos = 0\n  SendNodes <- c_None\n  Dests <- c_None\n  Claims <- c_None\n  Payloads <- c_None\n"
           "  MutPayloads <- c_None\n  ChurnNodes <- c_None\n  Draws <- c_None\n  MaxSends = 0\n  MaxChurn = 0\n  MaxMut = 0\n" +
           "".join("  %s = %s\n" % (k, tla(bool(flags[k]))) for k in DEVIATIONS) +
           "SPECIFICATION TSpec\nCHECK_DEADLOCK FALSE\n")
    for bi, batch in enumerate(batches):
        wd = tlc.workdir("tr")
        tf = os.path.join(wd, "traces.ndjson")
        with open(tf, "w") as f:
            for t in batch:
                evs = [{k: e[k] for k in EV_KEYS} for e in t["evs"]]
                f.write(json.dumps({"tid": t["tid"], "topo": t["topo"], "evs": evs}) + "\n")
        try:
            res = tlc.run_tlc("TRgen", cfg_text=cfg, files={"TRgen.tla": body},
                              workers=min(8, int(os.environ.get("VERIF_TLC_WORKERS", "16"))), timeout=1800,
                              env={"TRACE_FILE": tf}, name="Trace_Vlan/%s/%d" % (label, bi))
        finally:
            shutil.rmtree(wd, ignore_errors=True)
        if res["error_kind"] or not res["finished"]:
            tlc.machinery_failure("trace validation run failed: %s\n%s" % (res["error"], res["output"][-3000:]))
        got = {v["tid"]: v for v in tlc.printed_values(res["output"])}
        if len(got) != len(batch):
            tlc.machinery_failure("trace validation returned %d verdicts for %d traces\n%s" % (len(got), len(batch), res["output"][-2000:]))
        verdicts.update(got)
        chk.extra["trace_validation_states"] = chk.extra.get("trace_validation_states", 0) + res["distinct"]
    return verdicts


def pre_state(t, l):
    """member / bcast before event l (1-based)"""
    if l > 1:
        return t["evs"][l - 2]["member"], t["evs"][l - 2]["bcast"]
    tp = t["topo"]
    bc = []
    for k, nc in enumerate(tp["net"]):
        if not nc["ip"]:
            bc.append(nc["bcast"])
        elif tp["member"][k]:
            f = tp["node"][tp["member"][k][0] - 1]
            v = ((f["addr"][0] << 24) | (f["addr"][1] << 16) | (f["addr"][2] << 8) | f["addr"][3]) | ((1 << (32 - f["plen"])) - 1)
            bc.append([(v >> 24) & 255, (v >> 16) & 255, (v >> 8) & 255, v & 255, f["addr"][4]])
        else:
            bc.append([])
    return tp["member"], bc


def classify(t, m, l, v):
    """signature of a monitor failure: which named deviation the step shows (if any), and whether the step conforms to the
    model of the code; labelling only -- the verdict is TLC's"""
    evs = t["evs"]
    final = l > len(evs)
    conformant = (not v["rejs"]) if final else (l not in v["rejs"])
    sig = {"case": "other", "conformant_to_code_model": bool(conformant), "op": "end" if final else evs[l - 1]["op"]}
    tp = t["topo"]
    if final:
        if m == "RoutedExactlyOnce":
            cut = set(e["id"] for e in evs if e["op"] == "deliver" and e.get("raised"))
            if v["badroute"] and set(v["badroute"]) <= cut:
                sig["case"] = "receiver_raised"
        return sig
    ev = evs[l - 1]
    if ev["op"] == "mutate":
        sig["case"] = "sender_changed_pdu_after_request"
    elif ev["op"] == "deliver":
        changed = set(e["id"] for e in evs[:l - 1] if e["op"] == "mutate")
        member, bcast = pre_state(t, l)
        k = ev["net"]
        isb = 1 <= k <= len(bcast) and ev["dst"] == bcast[k - 1]
        own = tp["node"][ev["n"] - 1]["addr"] if 1 <= ev["n"] <= len(tp["node"]) else None
        twins = [x for x in (member[k - 1] if 1 <= k <= len(member) else []) if x != ev["n"] and tp["node"][x - 1]["addr"] == ev["src"]]
        cands = []                                                 # the named deviations this step shows
        if ev["id"] in changed:
            cands.append(("sender_changed_pdu_after_request", None))
        if ev.get("raised"):
            cands.append(("receiver_raised", None))
        if isb and (ev["src"] != own or twins):
            cands.append(("broadcast_withheld_by_source_address",
                          "router_forwarded_broadcast" if ev["n"] in tp["router"] else "claimed_source" if ev["src"] != own else "duplicate_address"))
        pick = [c for c in cands if m in CASE_MONITORS[c[0]]] or cands
        if pick:
            sig["case"] = pick[0][0]
            if pick[0][1]:
                sig["kind"] = pick[0][1]
    return sig


def group_key(m, sig):
    return (m,) + tuple(sorted((k, str(x)) for k, x in sig.items()))


def count_monitors(chk, t):
    tp = t["topo"]
    for l, e in enumerate(t["evs"], 1):
        op = e["op"]
        for m in ("HistoryOnlyGrows", "MembershipOnlyByAddRemove", "WireLogsEveryFrame", "ReceptionOnlyOnDelivery", "FlightWellFormed"):
            chk.monitor(m)
        if op == "send":
            chk.monitor("UnboundRefused", 1 if e["net"] == 0 else 0)
            chk.monitor("SpoofRefusedUnlessEnabled", 1 if e["net"] else 0)
            chk.monitor("RefusedSendsNothing", 1 if e["res"] != "ok" else 0)
            chk.monitor("AcceptedSendInFlight", 1 if e["res"] == "ok" else 0)
        elif op == "deliver":
            member, bcast = pre_state(t, l)
            k = e["net"]
            isb = 1 <= k <= len(bcast) and e["dst"] == bcast[k - 1]
            lossy = 1 <= k <= len(tp["net"]) and tp["net"][k - 1]["drop"] > 0
            dropped = lossy and e["draw"] >= 0 and e["draw"] * 25 < tp["net"][k - 1]["drop"] * 2048
            nrec = sum(len(g) for g in e["got"])
            for m in ("OldestFirst", "NoLoop", "OnlyMembersReceive", "CopyIsFrame"):
                chk.monitor(m)
            chk.monitor("DroppedReachesNobody", 1 if dropped else 0)
            if not dropped:
                chk.monitor("BroadcastToAllOthers" if isb else "UnicastToAddressed")
                chk.monitor("BroadcastNotToSender" if isb else "UnicastNotToOthers")
                chk.monitor("PromiscuousSeesOnce", 1 if any(tp["node"][x - 1]["prom"] for x in (member[k - 1] if 1 <= k <= len(member) else [])) else 0)
            for m in ("OnlySentFramesArrive", "SourceIsSender", "PayloadIsWhatWasSent", "AtMostOnce", "PerSenderFifo"):
                chk.monitor(m, nrec)
        elif op == "forward":
            chk.monitor("ForwardToContainingNet")
        elif op == "add":
            chk.monitor("AddOutcome")
            chk.monitor("OnlySendsAndForwardsEmit")
        elif op == "remove":
            chk.monitor("RemoveOutcome")
            chk.monitor("OnlySendsAndForwardsEmit")
        elif op == "mutate":
            chk.monitor("FlightKeepsPayload")
            chk.monitor("OnlySendsAndForwardsEmit")
    chk.monitor("EverySendOnItsOwnWire")
    chk.monitor("RoutedExactlyOnce", 1 if tp["router"] else 0)


def note_cases(chk, t):
    tp = t["topo"]
    shape = (len(tp["net"]), tuple(nc["ip"] for nc in tp["net"]), bool(tp["router"]))
    for l, e in enumerate(t["evs"], 1):
        if e["op"] == "forward":
            continue
        if e["op"] == "deliver":
            member, bcast = pre_state(t, l)
            k = e["net"]
            isb = 1 <= k <= len(bcast) and e["dst"] == bcast[k - 1]
            key = (shape, "deliver", isb, e["n"] in tp["router"], min(len(member[k - 1]) if 1 <= k <= len(member) else 0, 7),
                   tuple(sorted(len(g) for g in e["got"] if g)), len(e["rin"]), e["draw"] >= 0, bool(e.get("raised")), min(len(e["flight"]), 4))
        elif e["op"] == "send":
            key = (shape, "send", e["res"], bool(e["src"]), e["net"] != 0, len(e["dst"]), min(len(e["flight"]), 4))
        else:
            key = (shape, e["op"], e["res"], e["net"], min(len(e["flight"]), 4))
        chk.case(key, nontrivial=True)


def corrupted_copies(traces):
    """binding self-test: copies of recorded traces with one logged field falsified, and a monitor that must notice"""
    out = []

    def first(pred):
        for t in traces:
            if t["hang"]:
                continue
            for i, e in enumerate(t["evs"]):
                if pred(t, i, e):
                    return t, i
        return None, None

    def cut(t, i):
        c = copy.deepcopy(t)
        c["evs"] = c["evs"][:i + 1]
        c["base"] = t["tid"]
        return c
    t, i = first(lambda t, i, e: e["op"] == "deliver" and any(e["got"]))
    if t is not None:
        c = cut(t, i)
        g = [x for x in c["evs"][i]["got"] if x][0]
        g.append(dict(g[0]))
        out.append((c, "AtMostOnce"))
        c = cut(t, i)
        [x for x in c["evs"][i]["got"] if x][0].pop()
        out.append((c, None))                                   # one receiver less: a unicast / broadcast / promiscuous formula
        c = cut(t, i)
        [x for x in c["evs"][i]["got"] if x][0][0]["pl"] ^= 1
        out.append((c, "CopyIsFrame"))
        c = cut(t, i)
        [x for x in c["evs"][i]["got"] if x][0][0]["src"] = [99]
        out.append((c, "CopyIsFrame"))
    t, i = first(lambda t, i, e: e["op"] == "deliver" and any(len(t["evs"][j]["got"][n]) and e["got"][n] and
                                                              t["evs"][j]["n"] == e["n"] and t["evs"][j]["op"] == "deliver"
                                                              for j in range(i) for n in range(len(e["got"]))))
    if t is not None:                                           # an earlier frame of the same sender arrives again, later
        c = cut(t, i)
        e = c["evs"][i]
        for j in range(i):
            hit = [n for n in range(len(e["got"])) if c["evs"][j]["got"][n] and e["got"][n] and c["evs"][j]["n"] == e["n"]
                   and c["evs"][j]["op"] == "deliver"]
            if hit:
                n = hit[0]
                e["got"][n][0], c["evs"][j]["got"][n][0] = c["evs"][j]["got"][n][0], e["got"][n][0]
                break
        out.append((c, "PerSenderFifo"))
    t, i = first(lambda t, i, e: e["op"] == "send" and e["res"] == "refused")
    if t is not None:
        c = cut(t, i)
        c["evs"][i]["res"] = "ok"
        out.append((c, None))
    t, i = first(lambda t, i, e: e["op"] == "deliver" and any(e["wired"]))
    if t is not None:
        c = cut(t, i)
        c["evs"][i]["wired"] = [[] for _ in c["evs"][i]["wired"]]
        out.append((c, "WireLogsEveryFrame"))
    for k, (c, m) in enumerate(out):
        c["tid"] = 9000001 + k
    return out


def judge(chk, traces, label, seen, flags, selftest=False):
    """hangs, TLC verdicts -> violations / deviations / accepted traces"""
    for t in traces:
        if t["hang"]:
            chk.violation("Terminates", {"case": "hang"}, {"what": "no return within 10 s", "after_events": len(t["evs"]),
                                                           "last": [{k: e[k] for k in ("op", "n", "net", "id")} for e in t["evs"][-3:]]},
                          t["replay"])
        if t.get("crash"):
            chk.violation("LibraryRaised", {"case": "exception_escaped", "raised_in": t["crash"]["raised_in"]}, t["crash"], t["replay"])
    runnable = [t for t in traces if t["evs"]]
    if not runnable:
        return
    probes = corrupted_copies(runnable) if selftest else []
    verdicts = validate(chk, runnable + [c for c, m in probes], label, flags)
    for c, m in probes:
        got = sorted(set(x[0] for x in verdicts[c["tid"]]["viol"] if x[1] <= len(c["evs"])))
        base = sorted(set(x[0] for x in verdicts[c["base"]]["viol"] if x[1] <= len(c["evs"])))
        new = [x for x in got if x not in base]
        if (m is not None and m not in got) or (m is None and not new):
            tlc.machinery_failure("binding self-test: a trace with a falsified field (%s expected) was judged %r" % (m, got))
        chk.extra.setdefault("binding_selftest", []).append("falsified trace flagged by %s" % ", ".join(new or [m]))
    classes = chk.extra.setdefault("violation_classes", {})
    for t in runnable:
        v = verdicts[t["tid"]]
        count_monitors(chk, t)
        bad = False
        for m, l in sorted(v["viol"], key=lambda x: (x[1], x[0])):
            if t["hang"] and l > len(t["evs"]):
                continue                                        # a trace cut short by a hang is not quiet at its end
            bad = True
            sig = classify(t, m, l, v)
            gk = group_key(m, sig)
            ck = m + "/" + "/".join("%s=%s" % kv for kv in sorted(sig.items()))
            classes[ck] = classes.get(ck, 0) + 1
            if gk in seen:
                continue
            seen.add(gk)
            evs = t["evs"]
            ev = evs[l - 1] if l <= len(evs) else None
            detail = {"event": l, "first_step_rejected_by_code_model": v["rej"], "errors_logged_by_library": (ev or {}).get("errors", [])}
            if ev is not None:
                member, bcast = pre_state(t, l)
                detail.update({"action": {k: ev[k] for k in ("op", "n", "net", "dst", "src", "pl", "res", "draw", "id")},
                               "members_before": member, "broadcast_addresses_before": bcast,
                               "node_flags": {str(n + 1): {k: nc[k] for k in ("addr", "prom", "spoof", "raises")}
                                              for n, nc in enumerate(t["topo"]["node"]) if any(n + 1 in ms for ms in member)},
                               "received_in_this_step": {str(n + 1): g for n, g in enumerate(ev["got"]) if g},
                               "router_handed": ev["rin"], "raised": ev.get("raised", []), "in_flight_after": ev["flight"][:6],
                               "prefix": [[e["op"], e["n"], e["net"], e["dst"], e["src"], e["pl"], e["res"], e["id"]] for e in evs[max(0, l - 4):l]]})
            else:
                detail.update({"frames_not_routed_exactly_once": sorted(v["badroute"]), "router": t["topo"]["router"],
                               "in_flight_at_end": evs[-1]["flight"][:6] if evs else []})
            rp = dict(t["replay"], event=l)
            if ev is not None:
                rp["ops"] = rp["ops"][:ev["opi"] + 1]
            chk.violation(m, sig, detail, rp)
        if v["rejs"] and not bad:
            l = v["rej"]
            ev = t["evs"][l - 1]
            chk.deviation({"tid": t["tid"], "event": l, "action": {k: ev[k] for k in ("op", "n", "net", "dst", "src", "pl", "res", "draw", "id")},
                           "state_logged_after": {k: ev[k] for k in ("member", "bcast", "flight", "rin", "got", "wired")},
                           "replay": t["replay"]})
        elif not bad:
            chk.traces_validated += 1
        elif not v["rejs"] or all(classify(t, m, l, v)["conformant_to_code_model"] for m, l in v["viol"]):
            chk.extra["traces_conformant_to_code_model"] = chk.extra.get("traces_conformant_to_code_model", 0) + 1


def extra_findings(chk):
    """development aid: VERIF_X06_ASSUME_KNOWN=<json file with {"findings": [...]}> adds entries to the known findings of
    this run only (known_findings.json stays as it is)"""
    p = os.environ.get("VERIF_X06_ASSUME_KNOWN")
    if p:
        chk.findings = list(chk.findings) + json.load(open(p)).get("findings", [])
        chk.extra["assumed_known_findings_file"] = p


# ---------------------------------------------------------------------------------------------------------------------------------
def main(tier, seed):
    chk = Check("X06", tier, seed)
    extra_findings(chk)
    thorough = tier == "thorough"
    rng = random.Random(seed)
    chk.rule = ("model: every interleaving of Send / Deliver / Forward / AddNode / RemoveNode / Mutate of Vlan.tla within the "
                "budgets of the configuration; implementation: one evaluation = one call into the real objects (request() on a "
                "node, one scheduled process_pdu call, add_node / remove_node) followed by the projection of all objects; "
                "distinct = (shape of the topology, action, broadcast or not, sent by the router or not, members on the network, "
                "copies handed out, router input, lossy, a receiver raised, frames on their way [capped]) combinations")
    chk.assumptions = [
        "frames are bacpypes.pdu.PDU objects of three octets (frame number, payload token); addresses of plain networks are "
        "integers or (style 'addr') pdu.Address / LocalBroadcast objects, of IP networks (ip, port) tuples; IP nodes are built "
        "from Address('a.b.c.d/plen:port')",
        "a node is on at most one network; add_node is only called for a node that is on none, remove_node for one that is "
        "attached; the nodes of the IPRouter stay where they are; the subnets of the networks of one router are disjoint; "
        "membership does not change while a delivery is running",
        "which node called request() for a frame on its way, and which router node re-sent it, is the harness's bookkeeping "
        "(the PDU does not say); everything else of the projection is read off the objects (Network.nodes, broadcast_address, "
        "the arguments of the scheduled process_pdu calls, what the recording clients and the traffic_log were called with, "
        "what IPRouter.process_pdu was called with -- through a call-through wrapper set on the instance)",
        "one real delivery that hands a frame to the router is logged as a deliver event followed by a forward event (the "
        "frames the router scheduled are shown only in the second); in the code the router runs inside the delivery loop",
        "random.random inside bacpypes.vlan is replaced by the harness's die (module attribute bacpypes.vlan.random); "
        "drop_percent is an integer number of percent",
        "the members at delivery time are served (as the code does): a node that leaves loses the frames still on their way, "
        "one that joins gets them; a unicast is not withheld from its sender (a promiscuous sender hears its own unicast)",
        "the conformance side of the trace validation uses the deviation flags observed on the tree by three probes "
        "(recorded as code_flags_observed); the monitors do not depend on the flags",
        "TLC exhaustive within the stated budgets only; longer histories by trace validation of random runs"]
    phases = chk.extra.setdefault("phase_wall_s", {})

    def phase(name, t0=[time.time()]):
        phases[name] = round(time.time() - t0[0], 1)
        t0[0] = time.time()

    # D: the design satisfies the property; each deviation breaks it
    for cfg in (STATIC_OK if thorough else ["raise", "lossy", "ipraise", "ip3"]):
        run_static(chk, cfg)
    if not thorough:
        for name, kw in (("lan_q", dict(topos=[topo_lan(p3=True, s1=True)], sendnodes=[1, 2, 3, 4], dests=[[2], [3], [0], [9]],
                                        claims=[[], [2]], churn=[2, 4, 5])),
                         ("ip_q", dict(topos=[topo_ip(p3=True, s2=True)], sendnodes=[2, 5],
                                       dests=[ipa(10, 0, 0, 3), ipa(10, 0, 0, 130), ipa(10, 0, 0, 127), ipa(10, 0, 0, 255), ipa(10, 0, 1, 5)],
                                       claims=[[], ipa(10, 0, 0, 130)], churn=[6, 7]))):
            files, cfg = mc_gen("MCgen_" + name, props=True, **kw)
            res = tlc.run_tlc("MCgen_" + name, cfg_text=cfg, files=files, timeout=600, name="Vlan/" + name)
            chk.tlc(res)
            if res["error_kind"]:
                tlc.machinery_failure("design model %s violates %s\n%s" % (name, res["error"], res["output"][-3000:]))
    for cfg, dev in STATIC_DEV:
        run_static(chk, cfg, expect_dev=dev)
    phase("D_model_checking")

    flags = probe_flags()
    chk.extra["code_flags_observed"] = flags

    # R: edge cover of TLC's graphs (generated with the flags of the code), executed on the real objects
    seen = set()
    ops_seen = collections.Counter()
    tids = [1000000]

    def run_R(name, topos, **kw):
        t0 = time.time()
        walks = replay_graph(chk, name, topos, flags, **kw)
        t1 = time.time()
        for a in range(0, len(walks), 8000):                       # (chunks: the recorded projections are bulky)
            chunk = walks[a:a + 8000]
            per = max(50, len(chunk) // (IMPL_WORKERS * 4) + 1)
            jobs = []
            for c in range(0, len(chunk), per):
                jobs.append((tids[0], chunk[c:c + per]))
                tids[0] += per
            t2 = time.time()
            rtraces = [t for ts in run_pool(exec_walks, jobs) for t in ts]
            phases["R_execution"] = round(phases.get("R_execution", 0) + time.time() - t2, 1)
            for t in rtraces:
                note_cases(chk, t)
                for e in t["evs"]:
                    ops_seen[e["op"] + (":" + e["res"] if e["res"] else "")] += 1
            chk.extra["replay_events_recorded_on_impl"] = chk.extra.get("replay_events_recorded_on_impl", 0) + sum(len(t["evs"]) for t in rtraces)
            t3 = time.time()
            judge(chk, rtraces, name, seen, flags)
            phases["R_trace_validation"] = round(phases.get("R_trace_validation", 0) + time.time() - t3, 1)
        phases["R_graphs"] = round(phases.get("R_graphs", 0) + t1 - t0, 1)

    lan_c = [[], [2]]
    ip_d = [ipa(10, 0, 0, 3), ipa(10, 0, 0, 130), ipa(10, 0, 0, 127), ipa(10, 0, 0, 255), ipa(10, 0, 1, 5)]
    if thorough:
        run_R("R_lan", [topo_lan(p3=True, s1=True), topo_lan(p3=False, s1=False, order=(3, 1, 2))],
              sendnodes=[1, 3, 4], dests=[[2], [0], [9], [1]], claims=lan_c, churn=[2, 4, 5])
        run_R("R_lan_addr", [topo_lan(p3=True, s1=True)], style="addr",
              sendnodes=[1, 3], dests=[[2], [3], [0], [9]], claims=lan_c, churn=[2, 5], nmut=0)
        run_R("R_raise", [topo_lan(p3=True, r2=True), topo_lan(p3=True, r2=True, order=(2, 3, 1))],
              sendnodes=[1, 2, 3], dests=[[2], [3], [0], [9]], claims=[[]], churn=[2, 4], nmut=0)
        run_R("R_ip", [topo_ip(p3=True, s2=True), topo_ip(a_order=(1, 2, 3), b_order=(5, 6, 4))],
              sendnodes=[2, 5], dests=ip_d[1:] + [ipa(10, 0, 0, 129)], claims=[[], ipa(10, 0, 0, 130)], churn=[6, 7])
        run_R("R_ipraise", [topo_ip(p3=True, r2=True), topo_ip(p3=True, r2=True, a_order=(1, 3, 2))],
              sendnodes=[2, 3, 5], dests=ip_d, claims=[[]], churn=[6], nmut=0)
        run_R("R_ip3", [TOPO_IP3], sendnodes=[2, 9], dests=[ipa(10, 0, 0, 130), ipa(10, 0, 1, 2), ipa(10, 0, 1, 255), ipa(10, 0, 0, 127), ipa(10, 0, 2, 2)],
              claims=[[]], churn=[6], nmut=0)
    else:
        run_R("R_lan", [topo_lan(p3=True, s1=True)], sendnodes=[1, 3], dests=[[2], [0], [9]], claims=lan_c, churn=[2, 5])
        run_R("R_raise", [topo_lan(p3=True, r2=True)], sendnodes=[1, 3], dests=[[3], [0]], claims=[[]], churn=[2], nmut=0)
        run_R("R_ip", [topo_ip(p3=True, s2=True)], sendnodes=[2, 5], dests=[ipa(10, 0, 0, 130), ipa(10, 0, 0, 127), ipa(10, 0, 0, 255)],
              claims=[[], ipa(10, 0, 0, 130)], churn=[6], nmut=0)
    run_R("R_lossy", [topo_lan(p3=True, drop=50), topo_lan(drop=100), topo_lan(drop=1)],
          sendnodes=[1], dests=[[2], [0]], claims=[[]], churn=[], draws=[0, 81, 82, 4095, 4096, 8191], nchurn=0, nmut=0)
    run_R("R_join", [dict(topo_ip(), member=[[1], [4, 5]]), dict(topo_ip(), router=[], member=[[2], [5]])],
          sendnodes=[5], dests=[ipa(10, 0, 0, 127), ipa(10, 0, 0, 95)], claims=[[]], churn=[2, 7], sends=1, nchurn=3, nmut=0)
    phase("R_total")

    # T: seeded random histories on random topologies
    ntr, nsends = (120, 300) if thorough else (16, 150)
    jobs = [(i + 1, rng.randrange(2 ** 30), nsends) for i in range(ntr)]
    ttraces = run_pool(t_history, jobs)
    for t in ttraces:
        note_cases(chk, t)
    for t in ttraces[:3]:
        tp = t["topo"]
        chk.sample({"topology": {"networks": [{"ip": nc["ip"], "drop_percent": nc["drop"], "members": tp["member"][k]} for k, nc in enumerate(tp["net"])],
                                 "nodes": [{"addr": nc["addr"], "plen": nc["plen"], "flags": [f for f in ("prom", "spoof", "raises") if nc[f]]}
                                           for nc in tp["node"]], "router": tp["router"]},
                    "events": [{"action": [e["op"], e["n"], e["net"], e["dst"], e["src"], e["pl"], e["res"], e["draw"], e["id"]],
                                "received": {str(n + 1): g for n, g in enumerate(e["got"]) if g}, "router_handed": e["rin"],
                                "on_their_way": [f["id"] for f in e["flight"]]} for e in t["evs"][:6]]})
    chk.extra["random_history_events"] = sum(len(t["evs"]) for t in ttraces)
    phase("T_execution")
    judge(chk, ttraces, "T", seen, flags, selftest=True)
    phase("T_trace_validation")
    for t in ttraces:
        for e in t["evs"]:
            ops_seen[e["op"] + (":" + e["res"] if e["res"] else "")] += 1
    chk.extra["events"] = dict(sorted(ops_seen.items()))
    return chk.finish()


def replay(path):
    body = json.load(open(path))
    rp = body["replay"]
    chk = Check("X06", "quick", body.get("seed", 0))
    extra_findings(chk)
    flags = probe_flags()
    evs, hang = run_ops(rp["topo"], rp.get("style", "int"), [tuple(o) for o in rp["ops"]])
    t = {"tid": 1, "topo": rp["topo"], "evs": evs, "hang": hang, "crash": None, "replay": rp}
    for e in evs[-6:]:
        print(json.dumps({k: e[k] for k in ("op", "n", "net", "dst", "src", "pl", "res", "draw", "id", "got", "rin", "flight") if k in e})[:1500])
    judge(chk, [t], "replay", set(), flags)
    return chk.finish()
