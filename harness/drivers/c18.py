"""C18 -- Addresses parse, print, compare and hash coherently in every notation.   (spec/Addr.tla)

D  TLC evaluates the theorems of Addr.tla (print/parse round trip, two-sided range refusals, well-formedness,
   IPv4 consistency, the pool grouping is exactly the equivalence induced by Denotes) over the grids of
   MC_Addr.tla: all station numbers, networks at the range edges, IPv4 boundary octets x 33 masks x port
   boundaries, octet strings of length 1..7, a pool of equivalent spellings.
R  TLC writes one vector {d, Denotes(d), Printed(Denotes(d))} per grid point; a small renderer turns the notation
   descriptor d into the concrete argument(s); the real pdu.Address (and the typed constructors) is built,
   projected (type, net, octets, len, IP helper values), printed, re-parsed, compared, hashed.
T  seeded random spellings over the full ranges, random junk text and every pair of the pool are run through the
   real code as well.  All observations (R and T) are written as ndjson and validated by TLC (Trace_Addr.tla,
   Trace_AddrPool.tla): the monitors FieldsEqualDenotation, PrintParse, EqIsEquivalence, EqualImpliesHashEqual,
   RangeRefused are TLA+ formulas evaluated by TLC on each observation.
O  Addr.tla; the IPv4 values of the spec and of the implementation are additionally compared with the standard
   `ipaddress` module.  Trusted base: render() / build() / project() below.
"""
import os, sys, json, random, shutil, ipaddress, re
from common import Check, VERIF, Hang, watchdog
import tlc

import bacpypes.pdu as pdu
from bacpypes.pdu import Address, LocalStation, RemoteStation, LocalBroadcast, RemoteBroadcast, GlobalBroadcast
from bacpypes.settings import settings

pdu.netifaces = None            # interface-name notations are outside the property (and depend on the machine)
TYPES = {Address.localBroadcastAddr: "lb", Address.localStationAddr: "ls", Address.remoteBroadcastAddr: "rb",
         Address.remoteStationAddr: "rs", Address.globalBroadcastAddr: "gb", Address.nullAddr: "null"}
NONE = -1
CHUNK = 30000                   # observations per Trace_Addr run


# ---- trusted base: descriptor -> concrete argument(s) -> Address -> projection ---------------------------
def dotted(a):
    return ".".join(str(x) for x in a)


def hexs(d):
    s = "".join("%02x" % x for x in d["octets"])
    return s.upper() if d.get("uc") else s


def netp(d):
    return "" if d.get("net", NONE) == NONE else "0" * d.get("nlz", 0) + str(d["net"]) + ":"


def render(d):
    """the argument tuple for Address(*args) that spells descriptor d"""
    f = d["form"]
    if f == "station":
        return ("0" * d.get("lz", 0) + str(d["st"]),)
    if f == "station_int":
        return (d["st"],)
    if f == "net_station":
        return (netp(d) + "0" * d.get("lz", 0) + str(d["st"]),)
    if f == "net_bcast":
        return (netp(d) + "*",)
    if f == "local_bcast":
        return ("*",)
    if f == "global_bcast":
        return ("*:*",)
    if f == "ip":
        return (netp(d) + dotted(d["a"]) + ("" if d["mask"] == NONE else "/%d" % d["mask"]) + ("" if d["port"] == NONE else ":%d" % d["port"]),)
    if f == "hex":
        return (netp(d) + "0x" + hexs(d),)
    if f == "xquote":
        return (netp(d) + "X'" + hexs(d) + "'",)
    if f == "tuple":
        host = {"str": lambda: dotted(d["a"]), "int": lambda: int.from_bytes(bytes(d["a"]), "big"), "empty": lambda: ""}[d["spell"]]()
        return ((host, d["port"]),)
    if f == "raw":
        return (bytearray(d["octets"]) if d["spell"] == "bytearray" else bytes(d["octets"]),)
    if f == "ctor2":
        return (d["net"],) + render(d["arg"])
    if f == "junk":
        return (junk_value(d),)
    raise ValueError("no rendering for %r" % (d,))


def build(d):
    f = d["form"]
    if f == "LocalStation":
        return LocalStation(*render(d["arg"]))
    if f == "RemoteStation":
        return RemoteStation(d["net"], *render(d["arg"]))
    if f == "LocalBroadcast":
        return LocalBroadcast()
    if f == "RemoteBroadcast":
        return RemoteBroadcast(d["net"])
    if f == "GlobalBroadcast":
        return GlobalBroadcast()
    return Address(*render(d))


NO_OBS = {"type": "none", "has_net": False, "net": NONE, "has_octets": False, "octets": [], "len": NONE, "ip": {"has": False}}


def u32(x):
    if x is None:
        return []
    return list(x.to_bytes(4, "big")) if isinstance(x, int) and 0 <= x < 2 ** 32 else [-1]


def hostpart(s):
    if s == "":
        return []
    try:
        return list(ipaddress.IPv4Address(s).packed)
    except Exception:
        return [-1]


def intval(x):
    return x if isinstance(x, int) and not isinstance(x, bool) and abs(x) < 2 ** 31 else -2


def safe(f, default):
    """the value of f(), or `default` when the code under test raises"""
    try:
        return f()
    except Exception:
        return default


def project(a):
    return safe(lambda: project_(a), dict(NO_OBS, type="unprojectable"))


def project_(a):
    o = {"type": TYPES.get(a.addrType, "other"), "has_net": a.addrNet is not None, "net": intval(a.addrNet) if a.addrNet is not None else NONE,
         "has_octets": a.addrAddr is not None, "octets": list(a.addrAddr or b""),
         "len": NONE if a.addrLen is None else intval(a.addrLen), "ip": {"has": False}}
    if hasattr(a, "addrTuple"):
        t, b = a.addrTuple, getattr(a, "addrBroadcastTuple", None) or ("?", -2)
        o["ip"] = {"has": True, "tuple_ip": hostpart(t[0]), "tuple_port": intval(t[1]), "port": intval(getattr(a, "addrPort", None)),
                   "ip": u32(getattr(a, "addrIP", None)), "mask": u32(getattr(a, "addrMask", None)),
                   "subnet": u32(getattr(a, "addrSubnet", None)), "host": u32(getattr(a, "addrHost", None)),
                   "bcast_ip": hostpart(b[0]), "bcast_port": intval(b[1])}
    return o


NO_PR = {"printed": False, "raised": False, "eq": False, "eq_rev": False, "ne": True, "hasheq": False, "indict": False, "obs": NO_OBS}
HANGS = [0]


def observe(d):
    """one evaluation of the real code: construct, project, print, re-parse, compare, hash.  -> (record, Address|None)"""
    rec = {"d": d, "raised": False, "obs": NO_OBS, "pr": NO_PR}
    try:
        with watchdog(10):
            a = build(d)
    except Hang:
        HANGS[0] += 1
        rec["hang"] = True
        return rec, None
    except Exception as e:
        rec["raised"] = True
        rec["exc"] = type(e).__name__
        return rec, None
    rec["obs"] = project(a)
    pr = dict(NO_PR)
    try:
        text = str(a)
        pr["printed"], rec["text"] = True, text
    except Exception as e:
        rec["str_exc"] = "%s: %s" % (type(e).__name__, e)
        text = None
    if text is not None:
        try:
            with watchdog(10):
                b = Address(text)
            pr.update(obs=project(b), eq=safe(lambda: bool(a == b), False), eq_rev=safe(lambda: bool(b == a), False),
                      ne=safe(lambda: bool(a != b), True), hasheq=safe(lambda: hash(a) == hash(b), False),
                      indict=safe(lambda: {a: 1}.get(b) == 1, False))
        except Hang:
            HANGS[0] += 1
            rec["hang"] = True
        except Exception as e:
            pr["raised"] = True
            rec["reparse_exc"] = "%s: %s" % (type(e).__name__, e)
    rec["pr"] = pr
    return rec, a


# ---- junk: text (and other objects) outside every notation of the property ------------------------------------
VALID = "0123456789abcdefABCDEFxX'*:./"
FOREIGN = "ghijklmnopqrstuvwyzGHIJKLMNOPQRSTUVWYZ!#$%&()+,-;<=>?[]^_`{|}~\"\\"     # no '@' (routes), no white space
NONSTRINGS = {"None": None, "float": 5.0, "list": [1, 2], "tuple1": ("1.2.3.4",), "tuple3": ("1.2.3.4", 47808, 1),
              "tuple_bad_host": ([1, 2, 3, 4], 47808), "tuple_bad_ip": ("1.2.3.4.5", 47808), "tuple_bad_port": ("1.2.3.4", "x"),
              "dict": {}, "set": {1}, "complex": 1j}
TEMPLATES = [  # structural junk over the valid alphabet; {n} net, {s} station, {ip} dotted quad, {m} mask, {p} port, {h} hex pairs
    ("empty", ""), ("colon", ":"), ("colon", "::"), ("colon", "{n}:"), ("colon", ":{s}"), ("colon", "{n}:{s}:{s}"), ("colon", "{n}:{n}:{ip}"),
    ("dots", "{s}.{s}.{s}"), ("dots", "{ip}.{s}"), ("dots", "{s}..{s}.{s}.{s}"), ("dots", ".{ip}"), ("dots", "{ip}."), ("dots", "{s}.{s}"),
    ("mask", "{ip}/"), ("mask", "{ip}/{m}/{m}"), ("mask", "{ip}//{m}"), ("mask", "{s}/{m}"), ("mask", "{n}:{s}/{m}"), ("mask", "0x{h}/{m}"),
    ("mask", "*/{m}"), ("mask", "{ip}:{p}/{m}"),
    ("port", "{ip}:"), ("port", "{ip}:{p}:{p}"), ("port", "{ip}::{p}"), ("port", "{ip}:*"), ("port", "0x{h}:{p}x"),
    ("hex", "0x"), ("hex", "0x{h}{d}"), ("hex", "0x:{h}"), ("hex", "0X{h}"), ("hex", "{n}:0x"), ("hex", "{n}:0x{h}{d}"), ("hex", "0x{h}0x{h}"),
    ("xquote", "X'{h}"), ("xquote", "X{h}'"), ("xquote", "X''"), ("xquote", "x'{h}'"), ("xquote", "X'{h}{d}'"), ("xquote", "{n}:X'{h}''"),
    ("xquote", "'{h}'"), ("xquote", "X'{h}':{p}"),
    ("star", "**"), ("star", "*:"), ("star", ":*"), ("star", "*:*:*"), ("star", "{n}:*:*"), ("star", "{n}:*:{s}"), ("star", "{n}:**"),
    ("star", "*.{s}"), ("star", "*{s}"), ("star", "{s}*"), ("star", "*:*:{s}"),
    ("*:station", "*:{s}"), ("*:station", "*:0x{h}"), ("*:station", "*:{ip}"),
]


def junk_value(d):
    return NONSTRINGS[d["name"]] if d["cls"] == "nonstring" else "".join(chr(c) for c in d["cp"])


def junk_cases(rng, n):
    out = [{"form": "junk", "cls": "nonstring", "name": k} for k in sorted(NONSTRINGS)]

    def fill(t):
        h = "".join("%02x" % rng.randrange(256) for _ in range(rng.randint(1, 4)))
        return (t.replace("{n}", str(rng.choice([0, 1, 7, 65534]))).replace("{s}", str(rng.randrange(256)))
                .replace("{ip}", dotted([rng.randrange(256) for _ in range(4)])).replace("{m}", str(rng.randrange(33)))
                .replace("{p}", str(rng.choice([0, 47808, 47809, 65535]))).replace("{h}", h).replace("{d}", rng.choice("0123456789abcdef")))
    for cls, t in TEMPLATES:
        for _ in range(1 if "{" not in t else 3):
            out.append({"form": "junk", "cls": cls, "cp": [ord(c) for c in fill(t)]})
    for _ in range(n):
        k = rng.randint(1, 12)
        s = [rng.choice(VALID + FOREIGN[:20]) if rng.random() < 0.7 else rng.choice(FOREIGN) for _ in range(k)]
        s[rng.randrange(k)] = rng.choice(FOREIGN)          # at least one character that no notation contains
        out.append({"form": "junk", "cls": "foreign_char", "cp": [ord(c) for c in s]})
    # a valid spelling with one foreign character inserted
    for _ in range(n // 2):
        base = render(rand_local(rng, strings_only=True))[0]
        i = rng.randint(0, len(base))
        out.append({"form": "junk", "cls": "foreign_char", "cp": [ord(c) for c in base[:i] + rng.choice(FOREIGN) + base[i:]]})
    return out


# text that is not one of the listed notations but reads as the same number: recorded, not judged (see assumptions)
LENIENT = ["5\n", "1:5\n", "1.2.3.4\n", "١", "1:٥", "1.2.3.010", "010.1.1.1:47808", ("1.2.3", 47808), ("1.2.3.4", "47808"), True]


# ---- T: seeded random spellings ---------------------------------------------------------------------------
def r_octet(rng):
    return rng.choice([0, 1, 127, 128, 254, 255, rng.randrange(256), rng.randrange(256), rng.randrange(256)])


def r_net(rng):
    return rng.choice([0, 1, 2, 255, 256, 65534, 65535, 65536, 70000, rng.randrange(65535), rng.randrange(65535), rng.randrange(70001)])


def r_st(rng):
    return rng.choice([0, 1, 254, 255, 256, 257, 300, rng.randrange(256), rng.randrange(256), rng.randrange(256), rng.randrange(400)])


def r_port(rng):
    return rng.choice([NONE, 0, 1, 47807, 47808, 47809, 47823, 47824, 65535, 65536, 70000, rng.randrange(65536), rng.randrange(65536),
                       rng.randrange(47800, 47830), rng.randrange(70001)])


def r_mask(rng):
    return rng.choice([NONE, NONE, 0, 1, 7, 8, 9, 15, 16, 17, 23, 24, 25, 30, 31, 32, 33, rng.randrange(33), rng.randrange(33), rng.randrange(40)])


def r_ip(rng, valid=True):
    a = [r_octet(rng) for _ in range(4)]
    if not valid and rng.random() < 0.04:
        a[rng.randrange(4)] = rng.choice([256, 260, 300, 999])
    return a


def r_octs(rng):
    if rng.random() < 0.25:
        return r_ip(rng) + [186, rng.choice([191, 192, 193, 200, 207, 208])]
    return [r_octet(rng) for _ in range(rng.randint(1, 7))]


def rand_local(rng, strings_only=False):
    k = rng.choice(["station", "hex", "xquote", "ip", "local_bcast"] if strings_only else
                   ["station", "station_int", "raw", "hex", "xquote", "ip", "ip", "tuple", "local_bcast"])
    if k == "station":
        return {"form": k, "st": r_st(rng), "lz": rng.choice([0, 0, 1, 3])}
    if k == "station_int":
        return {"form": k, "st": rng.choice([r_st(rng), r_st(rng), -1])}
    if k == "raw":
        return {"form": k, "octets": r_octs(rng), "spell": rng.choice(["bytes", "bytearray"])}
    if k in ("hex", "xquote"):
        return {"form": k, "octets": r_octs(rng), "net": NONE, "uc": rng.randrange(2)}
    if k == "ip":
        return {"form": k, "a": r_ip(rng, valid=False), "mask": r_mask(rng), "port": r_port(rng), "net": NONE}
    if k == "tuple":
        sp = rng.choice(["str", "int"])
        d = {"form": k, "a": r_ip(rng, valid=(sp == "int")), "port": rng.choice([r_port(rng), 47808]), "spell": sp}
        if d["port"] == NONE:
            d["port"] = 47808
        if rng.random() < 0.05:
            d.update(a=[0, 0, 0, 0], spell="empty")
        return d
    return {"form": "local_bcast"}


def rand_desc(rng):
    k = rng.choice(["local", "local", "net_station", "net_bcast", "netted", "netted", "global_bcast", "ctor2", "ctor2", "ctor2",
                    "LocalStation", "RemoteStation", "LocalBroadcast", "RemoteBroadcast", "GlobalBroadcast"])
    if k == "local":
        return rand_local(rng)
    if k == "net_station":
        return {"form": k, "net": r_net(rng), "st": r_st(rng), "nlz": rng.choice([0, 0, 2]), "lz": rng.choice([0, 0, 2])}
    if k == "net_bcast":
        return {"form": k, "net": r_net(rng), "nlz": rng.choice([0, 0, 2])}
    if k == "netted":
        d = rand_local(rng, strings_only=True)
        while d["form"] in ("station", "local_bcast"):
            d = rand_local(rng, strings_only=True)
        d["net"] = r_net(rng)
        return d
    if k == "ctor2":
        arg = rand_local(rng) if rng.random() < 0.9 else rng.choice([{"form": "net_station", "net": 2, "st": 5}, {"form": "net_bcast", "net": 2},
                                                                  {"form": "global_bcast"}])
        return {"form": k, "net": rng.choice([r_net(rng)] * 9 + [-1]), "arg": arg}
    if k in ("LocalStation", "RemoteStation"):
        arg = rand_local(rng)
        while arg["form"] not in ("station_int", "raw"):
            arg = rand_local(rng)
        d = {"form": k, "arg": arg}
        if k == "RemoteStation":
            d["net"] = rng.choice([r_net(rng)] * 9 + [-1])
        return d
    if k == "RemoteBroadcast":
        return {"form": k, "net": rng.choice([r_net(rng)] * 9 + [-1])}
    return {"form": k}


# ---- D + R: TLC grids ---------------------------------------------------------------------------------------
def run_grid(chk, grid, thorough, wd, pool_file=None):
    out = os.path.join(wd, "vectors_%s.ndjson" % grid)
    cfg = ('CONSTANTS\n  Grid = "%s"\n  Thorough = %s\nINIT Init\nNEXT Next\nINVARIANT TheoremsHold\nINVARIANT PoolEquivalence\n'
           'CHECK_DEADLOCK FALSE\n' % (grid, "TRUE" if thorough else "FALSE"))
    env = {"OUT_FILE": out}
    if pool_file:
        env["POOL_FILE"] = pool_file
    res = tlc.run_tlc("MC_Addr", cfg_text=cfg, env=env, timeout=1200, name="MC_Addr/" + grid)
    chk.tlc(res)
    if res["error_kind"] or not res["finished"]:
        # the notation system itself violates a theorem / TLC did not finish: a defect of the model, not of the code
        tlc.machinery_failure("MC_Addr grid %s: %s\n%s" % (grid, res["error"], res["output"][-3000:]))
    vecs = [json.loads(l) for l in open(out)]
    if len(vecs) < res["distinct"]:
        tlc.machinery_failure("grid %s: %d vectors for %d cases" % (grid, len(vecs), res["distinct"]))
    return vecs


def ip_oracle(a, m):
    """subnet / host / directed broadcast / mask of a/m according to the standard ipaddress module"""
    i = ipaddress.ip_interface("%s/%d" % (dotted(a), m))
    return {"mask": list(i.netmask.packed), "subnet": list(i.network.network_address.packed),
            "host": list((int(i.ip) & int(i.hostmask)).to_bytes(4, "big")), "bcast_ip": list(i.network.broadcast_address.packed)}


def subset_diff(exp, got):
    """names of the expected fields that the observation does not show (expected: Denotes record; got: projection)"""
    bad = []
    if got["type"] != exp["type"]:
        bad.append("type")
    if got["has_net"] != (exp["net"] != NONE) or (exp["net"] != NONE and got["net"] != exp["net"]):
        bad.append("net")
    if got["has_octets"] != (exp["len"] != NONE) or got["octets"] != exp["octets"]:
        bad.append("octets")
    if got["len"] != exp["len"]:
        bad.append("len")
    bad += [k for k, v in exp["ip"].items() if k != "kind" and got["ip"].get(k) != v]
    return bad


def case_of(d, den, rec):
    """the stable part of a violation signature: which class of input this is"""
    inner = d.get("arg", {})
    if den["type"] == "refused":
        why = den["why"]
        if why == "net":
            return "net>65534" if d.get("net", 0) > 65534 else "net<0"
        if why == "station":
            return "station>255" if d.get("st", inner.get("st", 0)) > 255 else "station<0"
        if why == "port":
            return "port>65535" if d.get("port", inner.get("port", 0)) > 65535 else "port<0"
        if why == "junk":
            return d.get("cls", "junk")
        return {"mask": "mask>32", "ip_octet": "octet>255"}.get(why, why)
    if rec["raised"]:
        return "valid_notation_refused"
    return None


class Run:
    """collects observations, has TLC judge them, turns failing ones into violations (one per distinct signature)"""

    def __init__(self, chk, wd):
        self.chk, self.wd = chk, wd
        self.recs = []
        self.viol = {}

    def add(self, d, src, exp=None):
        if HANGS[0] >= 3:
            return None, None
        rec, a = observe(d)
        rec["id"] = len(self.recs) + 1
        rec["src"] = src
        self.recs.append((rec, exp))
        self.chk.case(json.dumps(d, sort_keys=True), nontrivial=True)
        if rec.get("hang"):
            self.note("Terminates", {"form": d["form"], "case": "hang"}, {"descriptor": d, "args": repr(render_safe(d))}, {"kind": "desc", "d": d})
        return rec, a

    def note(self, monitor, sig, detail, replay):
        k = (monitor, json.dumps(sig, sort_keys=True))
        if k not in self.viol:
            self.viol[k] = [monitor, sig, detail, replay, 0]
        self.viol[k][4] += 1

    def judge(self):
        """Trace_Addr over every observation: TLC evaluates the monitors, one verdict per failing record"""
        chk = self.chk
        cfg = "INIT Init\nNEXT Next\nCHECK_DEADLOCK FALSE\n"
        failing = {}
        chk.extra["trace_validation_states"] = 0
        keep = ("id", "d", "raised", "obs", "pr")           # what the monitors read
        for lo in range(0, len(self.recs), CHUNK):          # bounded memory per JVM: the records are deserialised at once
            part = self.recs[lo:lo + CHUNK]
            tf = os.path.join(self.wd, "observations_%d.ndjson" % lo)
            with open(tf, "w") as f:
                for rec, exp in part:
                    f.write(json.dumps({k: rec[k] for k in keep}) + "\n")
            res = tlc.run_tlc("Trace_Addr", cfg_text=cfg, env={"TRACE_FILE": tf}, timeout=1800, name="Trace_Addr/%d" % lo)
            os.remove(tf)
            if res["error_kind"] or not res["finished"]:
                tlc.machinery_failure("Trace_Addr: %s\n%s" % (res["error"], res["output"][-3000:]))
            if res["distinct"] != len(part):
                tlc.machinery_failure("Trace_Addr evaluated %d of %d observations" % (res["distinct"], len(part)))
            verdicts = tlc.printed_values(res["output"])
            if len(verdicts) != len(re.findall(r'<<\s*"@@",', res["output"])):
                tlc.machinery_failure("could not parse every verdict printed by Trace_Addr")
            chk.extra["trace_validation_states"] += res["distinct"]
            failing.update({v["id"]: v for v in verdicts})
        n_ok = 0
        for rec, exp in self.recs:
            d = rec["d"]
            v = failing.get(rec["id"])
            # vacuity accounting: a record that passes and raised was refused by the spec too; one that passes and did not
            # raise was accepted by both
            refused = (v["den"]["type"] == "refused") if v else rec["raised"]
            chk.monitor("RangeRefused" if refused else "FieldsEqualDenotation")
            if not refused and not rec["raised"]:
                chk.monitor("PrintParse")
                chk.monitor("EqualImpliesHashEqual", 1 if rec["pr"]["eq"] else 0)
            # cross-check: the TLC-emitted expectation, compared here field by field, must give the same verdict
            if exp is not None and not rec.get("hang"):
                mine = (exp["type"] == "refused") != rec["raised"] or (not rec["raised"] and bool(subset_diff(exp, rec["obs"])))
                theirs = bool(v) and bool(set(v["failing"]) & {"FieldsEqualDenotation", "RangeRefused"})
                if mine != theirs:
                    tlc.machinery_failure("verdict of Trace_Addr and direct comparison disagree on %r: %r vs %r" % (d, v, rec))
            if not v:
                n_ok += 1
                continue
            den = tlaval_to_json(v["den"])
            for mon in sorted(v["failing"]):
                case = case_of(d, den, rec)
                sig = {"form": d["form"], "case": case}
                detail = {"descriptor": d, "args": repr(render_safe(d)), "denotes": den, "raised": rec.get("exc"), "count": 0}
                if mon in ("FieldsEqualDenotation", "RangeRefused"):
                    if case is None:
                        bad = subset_diff(den, rec["obs"])
                        sig["case"] = "fields:" + ",".join(sorted(bad))
                        detail["expected"] = {k: (den["ip"].get(k) if k in den["ip"] else den.get(k)) for k in bad}
                        detail["got"] = {k: (rec["obs"]["ip"].get(k) if k in den["ip"] else rec["obs"].get(k)) for k in bad}
                    elif den["type"] == "refused":
                        detail["expected"] = "refusal (%s)" % den["why"]
                        detail["got"] = {"printed": rec.get("text"), "obs": rec["obs"]}
                else:
                    pr = rec["pr"]
                    sig["case"] = case or ("str_raises" if not pr["printed"] else "reparse_raises" if pr["raised"] else
                                           "reparse_differs" if mon == "PrintParse" else "hash_differs")
                    detail["printed"] = rec.get("text")
                    detail["reparse"] = {k: pr[k] for k in pr if k != "obs"}
                    detail["errors"] = [rec.get("str_exc"), rec.get("reparse_exc")]
                    if den["type"] == "refused":
                        continue        # already reported by RangeRefused / FieldsEqualDenotation
                self.note(mon, sig, detail, {"kind": "desc", "d": d})
        chk.traces_validated += n_ok
        return failing

    def flush(self):
        for monitor, sig, detail, replay, count in self.viol.values():
            detail["count"] = count
            self.chk.violation(monitor, sig, detail, replay)


def render_safe(d):
    try:
        if d["form"] in ("LocalStation", "RemoteStation", "LocalBroadcast", "RemoteBroadcast", "GlobalBroadcast"):
            return (d["form"], d.get("net"), render(d["arg"]) if "arg" in d else None)
        return render(d)
    except Exception as e:
        return "unrenderable: %s" % e


def tlaval_to_json(v):
    if isinstance(v, dict):
        return {k: tlaval_to_json(x) for k, x in v.items()}
    if isinstance(v, (tuple, list)):
        return [tlaval_to_json(x) for x in v]
    if isinstance(v, frozenset):
        return sorted(tlaval_to_json(x) for x in v)
    return v


def ip_crosscheck(chk, run, d, exp, rec):
    """spec and implementation against the standard ipaddress module (dotted text with mask only)"""
    if exp["type"] == "refused" or exp["ip"]["kind"] != "full":
        return
    m = 32 if d["mask"] == NONE else d["mask"]
    orc = ip_oracle(d["a"], m)
    for k, v in orc.items():
        if exp["ip"][k] != v:
            tlc.machinery_failure("Addr.tla disagrees with ipaddress on %r: %s = %r, ipaddress says %r" % (d, k, exp["ip"][k], v))
    chk.extra["ipaddress_crosschecks"] = chk.extra.get("ipaddress_crosschecks", 0) + 1
    if rec["raised"]:
        return
    bad = [k for k, v in orc.items() if rec["obs"]["ip"].get(k) != v]
    if bad:
        run.note("FieldsEqualDenotation", {"form": d["form"], "case": "fields:" + ",".join(sorted(bad)), "oracle": "ipaddress"},
                 {"descriptor": d, "args": repr(render(d)), "expected": {k: orc[k] for k in bad},
                  "got": {k: rec["obs"]["ip"].get(k) for k in bad}}, {"kind": "desc", "d": d})


def pool_check(chk, run, pool, wd):
    """every pair of the pool: ==, !=, hash, dict and set lookup on the real addresses; judged by Trace_AddrPool"""
    ds, addrs = [], []
    for p in pool:
        try:
            a = build(p["d"])
        except Exception:
            continue            # reported through its own observation
        ds.append(p["d"])
        addrs.append(a)
    # the stack is not route aware (settings.route_aware is False): the same address spelled with a route ("...@router") denotes
    # the same address -- it compares equal, hashes alike and finds the unrouted spelling in a dict
    twins = 0
    for d, a in list(zip(ds, addrs)):
        if twins >= 40:
            break
        try:
            ar = Address(str(a) + "@10.0.0.1")
        except Exception:
            continue
        ds.append(d)
        addrs.append(ar)
        twins += 1
    n = len(ds)
    M = {k: [[False] * n for _ in range(n)] for k in ("eq", "ne", "hasheq", "indict", "inset")}
    for i, a in enumerate(addrs):
        da, sa = safe(lambda: {a: i}, {}), safe(lambda: {a}, set())
        for j, b in enumerate(addrs):
            M["eq"][i][j] = safe(lambda: bool(a == b), False)
            M["ne"][i][j] = safe(lambda: bool(a != b), True)
            M["hasheq"][i][j] = safe(lambda: hash(a) == hash(b), False)
            M["indict"][i][j] = safe(lambda: da.get(b) == i, False)
            M["inset"][i][j] = safe(lambda: b in sa, False)
            chk.case(("pair", i, j), nontrivial=True)
    chk.monitor("EqIsEquivalence", n * n)
    chk.monitor("EqualImpliesHashEqual", sum(sum(r) for r in M["eq"]))
    tf = os.path.join(wd, "pool.ndjson")
    with open(tf, "w") as f:
        f.write(json.dumps(dict(ds=ds, **M)) + "\n")
    res = tlc.run_tlc("Trace_AddrPool", cfg_text="INIT Init\nNEXT Next\nCHECK_DEADLOCK FALSE\n", env={"TRACE_FILE": tf}, timeout=1800,
                      name="Trace_AddrPool")
    if res["error_kind"] or not res["finished"] or res["distinct"] != n:
        tlc.machinery_failure("Trace_AddrPool: %s\n%s" % (res["error"], res["output"][-3000:]))
    verdicts = tlc.printed_values(res["output"])
    if len(verdicts) != len(re.findall(r'<<\s*"@@",', res["output"])):
        tlc.machinery_failure("could not parse every verdict printed by Trace_AddrPool")
    bad_rows = set()
    for v in verdicts:
        i = v["row"] - 1
        bad_rows.add(i)
        for j in sorted(x - 1 for x in v["cols"])[:3]:
            forms = sorted([ds[i]["form"], ds[j]["form"]])
            run.note(v["failing"], {"form": "|".join(forms), "case": "pair"},
                     {"d1": ds[i], "d2": ds[j], "args1": repr(render_safe(ds[i])), "args2": repr(render_safe(ds[j])),
                      "eq": M["eq"][i][j], "eq_rev": M["eq"][j][i], "ne": M["ne"][i][j], "hash_equal": M["hasheq"][i][j],
                      "found_in_dict": M["indict"][i][j], "found_in_set": M["inset"][i][j],
                      "str1": safe(lambda: str(addrs[i]), "?"), "str2": safe(lambda: str(addrs[j]), "?")},
                     {"kind": "pair", "d1": ds[i], "d2": ds[j]})
    chk.traces_validated += n - len(bad_rows)
    # conformance only (not a clause of the property): the spec's HashKey is exactly (type, net, octets); unequal
    # addresses with equal hash() mean the implementation hashes on less than that
    coarse = [(i, j) for i in range(n) for j in range(i) if M["hasheq"][i][j] and not M["eq"][i][j] and not M["eq"][j][i]]
    if coarse:
        i, j = coarse[0]
        chk.deviation({"what": "unequal addresses have equal hash(): the hash is coarser than HashKey = (type, net, octets)",
                       "pairs": len(coarse), "first": [ds[i], ds[j]]})
    chk.extra["pool"] = {"members": n, "groups": len(set(p["g"] for p in pool)), "pairs": n * n,
                         "equal_pairs": sum(sum(r) for r in M["eq"])}


# ---------------------------------------------------------------------------------------------------------
def main(tier, seed):
    chk = Check("C18", tier, seed)
    rng = random.Random(seed)
    thorough = tier == "thorough"
    if settings.route_aware:
        tlc.machinery_failure("settings.route_aware must be False for C18")
    chk.rule = ("one evaluation = one notation descriptor (TLC grid point, or seeded random spelling, or junk text) rendered and "
                "given to the real pdu.Address / typed constructor, projected, printed, re-parsed, compared, hashed, and judged by "
                "TLC against Addr.tla; or one ordered pair of the pool of spellings. distinct = distinct descriptors / pairs; "
                "all are non-trivial (each is a different notation, number or boundary)")
    chk.assumptions = [
        "descriptor -> text/bytes/tuple rendering and Address -> field projection (render/build/project in c18.py, ~80 lines) are trusted base",
        "out of scope, not exercised: settings.route_aware=True (routes only as ignored suffixes of 40 pool addresses), interface names (pdu.netifaces is "
        "forced to None), the aa:bb:cc:dd:ee:ff notation, the Null address Address(), octet strings of length 0 or above 7",
        "network 0 is accepted as an ordinary network number (the property refuses only numbers above 65534); 65535 is refused in "
        "'n:*' / 'n:s' (the global broadcast is written '*:*')",
        "IP helper values are compared only where the notation denotes them: all of them for dotted text (default /32, port 47808), "
        "address/port/mask/broadcast for (host, port) tuples (addrHost/addrSubnet are None there), address and port for six raw "
        "octets given to Address(); none for 0x/X'' text and for LocalStation/RemoteStation",
        "a port that does not fit 16 bits must be refused (no six station octets denote it); judged by FieldsEqualDenotation",
        "IPv4 octets are written in plain decimal (leading zeros are read as octal by inet_aton: recorded under 'lenient', not judged); "
        "text with a trailing newline or non-ASCII decimal digits that reads as the same number is recorded under 'lenient', not judged",
        "junk = text containing a character no notation uses, or one of %d structural near-miss templates, or a non-string object; "
        "any exception type counts as refusal" % len(TEMPLATES),
    ]
    wd = tlc.workdir("c18")
    try:
        run = Run(chk, wd)
        pool_file = os.path.join(wd, "pool_groups.ndjson")
        # D + R: the grids
        for grid in ("stations", "nets", "ip", "octets", "pool"):
            vecs = run_grid(chk, grid, thorough, wd, pool_file if grid == "pool" else None)
            for i, v in enumerate(vecs):
                rec, a = run.add(v["d"], "grid:" + grid, exp=v["den"])
                if rec is None:
                    break
                if v["d"]["form"] == "ip":
                    ip_crosscheck(chk, run, v["d"], v["den"], rec)
                # conformance (not a property clause): the printed text is the spec's canonical spelling
                if rec.get("text") is not None and v["den"]["type"] != "refused" and rec["text"] != render(v["pr"])[0]:
                    chk.deviation({"what": "printed text differs from Printed(Denotes(d))", "descriptor": v["d"], "got": rec["text"],
                                   "spec": render(v["pr"])[0]})
                if i in (len(vecs) // 3, 2 * len(vecs) // 3):
                    chk.sample({"grid": grid, "descriptor": v["d"], "args": repr(render_safe(v["d"])), "denotes": v["den"],
                                "observed": rec["obs"], "printed": rec.get("text"), "raised": rec.get("exc")}, cap=10)
        pool = [json.loads(l) for l in open(pool_file)]
        # T: seeded random spellings and junk
        for _ in range(40000 if thorough else 4000):
            run.add(rand_desc(rng), "random")
        for d in junk_cases(rng, 4000 if thorough else 600):
            rec, a = run.add(d, "junk")
            if rec and d["cls"] == "*:station" and not rec["raised"]:
                chk.sample({"junk": junk_value(d), "accepted_as": rec.get("text"), "observed": rec["obs"]}, cap=11)
        chk.extra["lenient"] = []
        for s in LENIENT:
            try:
                a = Address(s)
                chk.extra["lenient"].append({"text": repr(s), "accepted_as": str(a), "octets": list(a.addrAddr or b""),
                                             "addrTuple": getattr(a, "addrTuple", None)})
            except Exception as e:
                chk.extra["lenient"].append({"text": repr(s), "refused": type(e).__name__})
        run.judge()
        if HANGS[0] < 3:
            pool_check(chk, run, pool, wd)
        chk.extra["observations"] = {"grid": sum(1 for r, e in run.recs if r["src"].startswith("grid")),
                                     "random": sum(1 for r, e in run.recs if r["src"] == "random"),
                                     "junk": sum(1 for r, e in run.recs if r["src"] == "junk"),
                                     "raised": sum(1 for r, e in run.recs if r["raised"])}
        run.flush()
    finally:
        shutil.rmtree(wd, ignore_errors=True)
    return chk.finish()


def replay(path):
    body = json.load(open(path))
    rp = body["replay"]
    chk = Check("C18", "quick", body.get("seed", 0))
    wd = tlc.workdir("c18r")
    try:
        run = Run(chk, wd)
        if rp["kind"] == "desc":
            rec, a = run.add(rp["d"], "replay")
            print("args:", repr(render_safe(rp["d"])))
            print("observation:", json.dumps(rec))
            run.judge()
        else:
            pool = [{"g": 0, "d": rp["d1"]}, {"g": 0, "d": rp["d2"]}]
            for p in pool:
                print("args:", repr(render_safe(p["d"])))
            pool_check(chk, run, pool, wd)
        run.flush()
    finally:
        shutil.rmtree(wd, ignore_errors=True)
    return chk.finish()
