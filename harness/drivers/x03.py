"""X03 -- AtomicReadFile / AtomicWriteFile on local file objects.   (spec/FileSvc.tla, spec/Trace_FileSvc.tla)

D  TLC exhaustive on FileSvc (two files: 1 stream, 2 record; read-only combinations; initial contents of 0/2/3 tokens,
   contents <= 4 tokens, positions -1..6, counts 0..5, writes of 0..3 tokens): every operation sequence up to the level
   bound (quick: 3 from 4 initial tables; thorough: spec/MC_FileSvc.cfg, 4 from all 36) against the step formulas
   RefusalIffInvalid, ReadIsSlice, EofExact, WriteExact, WriteThenRead, RefusalChangesNothing, ReadsChangeNothing,
   SizeTracksContent.  Each named deviation (RefuseStartAtEnd, EmptyIsUnknown, SizeNotMaintained) must make TLC find a
   violation (vacuity check).
R  TLC dumps the labelled state graph of further configurations (full alphabet to depth 1 from all 36 initial tables; a
   reduced alphabet to depth 2, thorough: wider and to depth 3); an edge cover of each graph is executed OVER THE WIRE: a
   real client stack sends AtomicReadFile / AtomicWriteFile requests to a real device stack (FileServices + the file
   objects below) over a VLAN, the answers are decoded, the content of every file is projected and File_Size /
   Record_Count are read back with ReadProperty after every step.  The recorded executions go through Trace_FileSvc
   (conformance step by step + the step formulas evaluated by TLC on the logged states).
T  seeded random histories on larger files (stream files of up to ~400 octets, record files of up to ~30 records of 0..12
   octets, read-only variants, empty files, both access methods on both kinds of file), positions and counts around
   every boundary (0, len-1, len, len+1, -1, beyond; count 0, exact, one more, 1000), an acknowledged write mostly followed
   by the read of the acknowledged range; recorded the same way and validated by TLC.  Five recorded traces with one
   falsified field each must be flagged by the matching formula (binding self-test; machinery failure otherwise).

Conformance uses the deviation flags OBSERVED on the tree under test (probe_flags: three requests), so that it stays
meaningful on a tree that has the reported defects as well as on a repaired one; the monitors never look at the flags.
VERIF_X03_ASSUME_KNOWN=<json> adds known-finding entries for one run (development aid; known_findings.json untouched).
"""
import os, sys, json, random, collections, time, shutil
from common import Check, VERIF, WORK, Hang, watchdog
import tlc, tlaval
import vtime

vt = vtime.install()
import bacpypes.core as core
from bacpypes.comm import bind
from bacpypes.pdu import Address, LocalBroadcast
from bacpypes.vlan import Network, Node
from bacpypes.app import Application
from bacpypes.appservice import StateMachineAccessPoint, ApplicationServiceAccessPoint
from bacpypes.netservice import NetworkServiceAccessPoint, NetworkServiceElement
from bacpypes.local.device import LocalDeviceObject
from bacpypes.local.file import LocalRecordAccessFileObject, LocalStreamAccessFileObject
from bacpypes.service.file import FileServices
from bacpypes.service.object import ReadWritePropertyServices
from bacpypes.primitivedata import Unsigned
from bacpypes.apdu import (AtomicReadFileRequest, AtomicReadFileRequestAccessMethodChoice,
                           AtomicReadFileRequestAccessMethodChoiceStreamAccess,
                           AtomicReadFileRequestAccessMethodChoiceRecordAccess, AtomicReadFileACK,
                           AtomicWriteFileRequest, AtomicWriteFileRequestAccessMethodChoice,
                           AtomicWriteFileRequestAccessMethodChoiceStreamAccess,
                           AtomicWriteFileRequestAccessMethodChoiceRecordAccess, AtomicWriteFileACK,
                           ReadPropertyRequest, ReadPropertyACK, Error, RejectPDU, AbortPDU, RejectReason, AbortReason)

IMPL_WORKERS = int(os.environ.get("VERIF_IMPL_WORKERS", "0") or 0) or max(1, min(6, (os.cpu_count() or 2) // 2))
MONITORS = ["RefusalIffInvalid", "ReadIsSlice", "EofExact", "WriteExact", "WriteThenRead", "RefusalChangesNothing",
            "ReadsChangeNothing", "SizeTracksContent"]
DEVIATIONS = ["RefuseStartAtEnd", "EmptyIsUnknown", "SizeNotMaintained"]


# ---- the file objects (an application's part: equivalents of samples/ReadWriteFileServer.py, in memory) -------------------
class StreamFile(LocalStreamAccessFileObject):
    """a stream file backed by a bytes buffer"""

    def __init__(self, data=b"", **kw):
        LocalStreamAccessFileObject.__init__(self, fileSize=len(data), **kw)
        self._data = bytes(data)

    def __len__(self):
        return len(self._data)

    def read_stream(self, start_position, octet_count):
        end_of_file = (start_position + octet_count) >= len(self._data)
        return end_of_file, self._data[start_position:start_position + octet_count]

    def write_stream(self, start_position, data):
        data = bytes(data)
        if start_position < 0:                              # append
            start_position = len(self._data)
            self._data += data
        elif start_position > len(self._data):              # beyond the end: pad with zero octets
            self._data += b"\x00" * (start_position - len(self._data))
            start_position = len(self._data)
            self._data += data
        else:
            self._data = self._data[:start_position] + data + self._data[start_position + len(data):]
        return start_position

    def content(self):
        return list(self._data)


class RecordFile(LocalRecordAccessFileObject):
    """a record file backed by a list of octet strings"""

    def __init__(self, records=(), **kw):
        LocalRecordAccessFileObject.__init__(self, recordCount=len(records), fileSize=sum(len(r) for r in records), **kw)
        self._records = [bytes(r) for r in records]

    def __len__(self):
        return len(self._records)

    def read_record(self, start_record, record_count):
        end_of_file = (start_record + record_count) >= len(self._records)
        return end_of_file, self._records[start_record:start_record + record_count]

    def write_record(self, start_record, record_count, record_data):
        record_data = [bytes(r) for r in record_data]
        if start_record < 0:                                # append
            start_record = len(self._records)
            self._records.extend(record_data)
        elif start_record > len(self._records):             # beyond the end: pad with empty records
            self._records.extend([b""] * (start_record - len(self._records)))
            start_record = len(self._records)
            self._records.extend(record_data)
        else:
            self._records[start_record:start_record + record_count] = record_data
        return start_record

    def content(self):
        return [list(r) for r in self._records]


# ---- the real stacks (helpers after c15.py) ----------------------------------------------------------------------------------
class _NSE(NetworkServiceElement):
    _startup_disabled = True


class _App(Application, FileServices, ReadWritePropertyServices):
    _startup_disabled = True

    def __init__(self, dev, vlan):
        Application.__init__(self, dev)
        self.address = Address(dev.objectIdentifier[1])
        self.asap = ApplicationServiceAccessPoint()
        self.smap = StateMachineAccessPoint(dev)
        self.smap.deviceInfoCache = self.deviceInfoCache
        self.nsap = NetworkServiceAccessPoint()
        self.nse = _NSE()
        bind(self.nse, self.nsap)
        bind(self, self.asap, self.smap, self.nsap)
        self.node = Node(self.address, vlan)
        self.nsap.bind(self.node)
        self.got = []

    def confirmation(self, apdu):
        self.got.append(apdu)


_net = {}


def network():
    if not _net:
        vt.reset(0.0)
        vlan = Network(broadcast_address=LocalBroadcast())

        def dev(n, i):
            return LocalDeviceObject(objectName=n, objectIdentifier=("device", i), maxApduLengthAccepted=1476,
                                     segmentationSupported="segmentedBoth", maxSegmentsAccepted=64, vendorIdentifier=999)
        _net["client"] = _App(dev("client", 10), vlan)
        _net["server"] = _App(dev("server", 20), vlan)
    return _net["client"], _net["server"]


def reason(enum, n):
    for k, v in enum.enumerations.items():
        if v == n:
            return k
    return str(n)


def res_of(k="none", am="", cls="", code="", eof=False, start=0, n=0, data=()):
    return {"k": k, "am": am, "cls": cls, "code": code, "eof": bool(eof), "start": start, "n": n, "data": list(data)}


def refusal(resp):
    if isinstance(resp, Error):
        return res_of("err", cls=str(resp.errorClass), code=str(resp.errorCode))
    if isinstance(resp, RejectPDU):
        return res_of("rej", code=reason(RejectReason, resp.apduAbortRejectReason))
    if isinstance(resp, AbortPDU):
        return res_of("abort", code=reason(AbortReason, resp.apduAbortRejectReason))
    if resp is None:
        return res_of("none")
    return res_of("other", code=type(resp).__name__)


def small(n):
    """numbers go to TLC as JSON: keep them inside 32 bits"""
    return n if isinstance(n, int) and -2 ** 31 < n < 2 ** 31 else -999999


class Rig:
    """the device under test: real file objects in a real server stack, operated by a real client stack over the VLAN"""

    def __init__(self, files):
        """files: [{"access": "stream"|"record", "ro": bool, "content": [...]}], file f is ('file', f) (f = 1..n)"""
        self.client, self.server = network()
        self.objs = []
        for i, fd in enumerate(files, 1):
            kw = dict(objectIdentifier=("file", i), objectName="file-%d" % i, fileType="x03", readOnly=bool(fd["ro"]),
                      archive=False)
            if fd["access"] == "stream":
                obj = StreamFile(bytes(fd["content"]), **kw)
            else:
                obj = RecordFile([bytes(r) for r in fd["content"]], **kw)
            self.server.add_object(obj)
            self.objs.append(obj)
        self.calls = 0

    def close(self):
        srv = self.server
        for obj in self.objs:
            for table in (srv.objectName, srv.objectIdentifier):
                for k in [k for k, v in table.items() if v is obj]:
                    del table[k]
            ol = srv.localDevice.objectList if srv.localDevice is not None else None
            try:
                while ol is not None and obj.objectIdentifier in ol:
                    ol.remove(obj.objectIdentifier)
            except Exception:
                pass
            obj._app = None
        self.objs = []

    def call(self, req):
        req.pduDestination = self.server.address
        self.calls += 1
        self.client.got = []
        self.client.request(req)
        with watchdog(10):
            vt.step_all()
        if len(self.client.got) > 1:
            raise RuntimeError("more than one response: %r" % (self.client.got,))
        return self.client.got[0] if self.client.got else None

    # -- the four operations; everything in the result is decoded from the answer PDU
    def read(self, op, f, start, count):
        if op == "rs":
            am = AtomicReadFileRequestAccessMethodChoice(streamAccess=AtomicReadFileRequestAccessMethodChoiceStreamAccess(
                fileStartPosition=start, requestedOctetCount=count))
        else:
            am = AtomicReadFileRequestAccessMethodChoice(recordAccess=AtomicReadFileRequestAccessMethodChoiceRecordAccess(
                fileStartRecord=start, requestedRecordCount=count))
        resp = self.call(AtomicReadFileRequest(fileIdentifier=("file", f), accessMethod=am))
        if not isinstance(resp, AtomicReadFileACK):
            return refusal(resp)
        a = resp.accessMethod
        if a is not None and a.streamAccess is not None:
            d = bytes(a.streamAccess.fileData)
            return res_of("rack", "stream", eof=resp.endOfFile, start=small(a.streamAccess.fileStartPosition), n=len(d),
                          data=list(d))
        if a is not None and a.recordAccess is not None:
            recs = [list(bytes(r)) for r in (a.recordAccess.fileRecordData or [])]
            return res_of("rack", "record", eof=resp.endOfFile, start=small(a.recordAccess.fileStartRecord),
                          n=small(a.recordAccess.returnedRecordCount), data=recs)
        return res_of("other", code="AtomicReadFileACK without access method")

    def write(self, op, f, start, data):
        if op == "ws":
            am = AtomicWriteFileRequestAccessMethodChoice(streamAccess=AtomicWriteFileRequestAccessMethodChoiceStreamAccess(
                fileStartPosition=start, fileData=bytes(data)))
        else:
            am = AtomicWriteFileRequestAccessMethodChoice(recordAccess=AtomicWriteFileRequestAccessMethodChoiceRecordAccess(
                fileStartRecord=start, recordCount=len(data), fileRecordData=[bytes(r) for r in data]))
        resp = self.call(AtomicWriteFileRequest(fileIdentifier=("file", f), accessMethod=am))
        if not isinstance(resp, AtomicWriteFileACK):
            return refusal(resp)
        if resp.fileStartPosition is not None and resp.fileStartRecord is None:
            return res_of("wack", "stream", start=small(resp.fileStartPosition))
        if resp.fileStartRecord is not None and resp.fileStartPosition is None:
            return res_of("wack", "record", start=small(resp.fileStartRecord))
        return res_of("other", code="AtomicWriteFileACK with %s" % (
            "both positions" if resp.fileStartPosition is not None else "no position"))

    def size_property(self, f):
        """File_Size of a stream file / Record_Count of a record file as ReadProperty shows it (-1: not readable)"""
        obj = self.objs[f - 1]
        pid = "fileSize" if isinstance(obj, StreamFile) else "recordCount"
        resp = self.call(ReadPropertyRequest(objectIdentifier=("file", f), propertyIdentifier=pid))
        if isinstance(resp, ReadPropertyACK):
            try:
                return small(resp.propertyValue.cast_out(Unsigned)), ""
            except Exception as e:
                return -1, "undecodable: %s" % type(e).__name__
        r = refusal(resp)
        return -1, "%s:%s:%s" % (r["k"], r["cls"], r["code"])

    def files(self):
        return [{"access": "stream" if isinstance(o, StreamFile) else "record", "ro": bool(o.readOnly), "content": o.content()}
                for o in self.objs]

    def sizes(self):
        out = [self.size_property(f) for f in range(1, len(self.objs) + 1)]
        return [s for s, why in out], [why for s, why in out]

    def step(self, op, f, start, count, data):
        if op in ("rs", "rr"):
            res = self.read(op, f, start, count)
        else:
            res = self.write(op, f, start, data)
        size, why = self.sizes()
        return {"op": op, "f": f, "start": start, "count": count, "data": data, "res": res, "files": self.files(),
                "size": size, "sizewhy": why}


HANGS = [0]


# ---- python -> TLA+ text -------------------------------------------------------------------------------------------------
def tla(v):
    if isinstance(v, bool):
        return "TRUE" if v else "FALSE"
    if isinstance(v, int):
        return str(v)
    if isinstance(v, str):
        return '"%s"' % v
    if isinstance(v, (list, tuple)):
        return "<<" + ", ".join(tla(x) for x in v) + ">>"
    if isinstance(v, (set, frozenset)):
        return "{" + ", ".join(sorted(tla(x) for x in v)) + "}"
    raise TypeError(v)


INTENDED = {"RefuseStartAtEnd": False, "EmptyIsUnknown": False, "SizeNotMaintained": False}
ALL_RO = [(False, False), (True, False), (False, True), (True, True)]
CONTENTS = [(), (1, 2), (2, 1, 1)]
FULL = dict(positions=list(range(-1, 7)), counts=list(range(0, 6)), data=[(), (1,), (2, 1), (1, 2, 2)])


def files0_expr(tables):
    """initial tables: file 1 stream, file 2 record; tables = [((ro1, ro2), (content1, content2))]"""
    return ("{[g \\in {1, 2} |-> [access |-> IF g = 1 THEN \"stream\" ELSE \"record\", ro |-> x[1][g], content |-> x[2][g]]] : "
            "x \\in %s}" % tla(set((tuple(r), tuple(tuple(c) for c in cs)) for r, cs in tables)))


def product(ros, contents):
    return [(r, c) for r in ros for c in contents]


def mc_files(name, tables, positions, counts, data, maxlevel, flags=INTENDED, maxlen=4, props=True):
    body = "---- MODULE %s ----\nEXTENDS FileSvc\n" % name
    body += "c_Files0 == %s\n" % files0_expr(tables)
    body += "c_Positions == %s\nc_Counts == %s\nc_Data == %s\n====\n" % (tla(set(positions)), tla(set(counts)), tla(set(data)))
    lines = ["CONSTANTS", "  F = {1, 2}", "  Files0 <- c_Files0", "  Positions <- c_Positions", "  Counts <- c_Counts",
             "  Data <- c_Data", "  PadS = 0", "  PadR = 0", "  MaxLen = %d" % maxlen, "  MaxLevel = %d" % maxlevel]
    lines += ["  %s = %s" % (k, tla(bool(flags[k]))) for k in DEVIATIONS]
    lines += ["SPECIFICATION Spec", "CHECK_DEADLOCK FALSE", "INVARIANT Shape"]
    if props:
        lines += ["PROPERTY P_" + m for m in MONITORS]
    return {name + ".tla": body}, "\n".join(lines) + "\n"


def run_mc(chk, name, expect_error=None, dump=None, timeout=900, static=False, **kw):
    if static:
        res = tlc.run_tlc("MC_FileSvc", cfg_file="MC_FileSvc.cfg", timeout=timeout, name="FileSvc/" + name)
    else:
        files, cfg = mc_files("MCgen_" + name, **kw)
        res = tlc.run_tlc("MCgen_" + name, cfg_text=cfg, files=files, timeout=timeout, dump_dot=dump, name="FileSvc/" + name)
    if expect_error is None:
        chk.tlc(res)
        if res["error_kind"]:
            tlc.machinery_failure("design model %s violates %s\n%s" % (name, res["error"], res["output"][-3000:]))
    else:
        if res["error_kind"] not in ("invariant", "action_property", "property", "temporal", "assert"):
            tlc.machinery_failure("sanity: deviation config %s should violate %s, got %r\n%s" % (
                name, expect_error, res["error"], res["output"][-2000:]))
        chk.extra.setdefault("sanity", []).append("config %s violates %s as expected (%d states)" % (
            name, res["error"], res["distinct"]))
    return res


# ---- R: spec -> code -----------------------------------------------------------------------------------------------------
def edge_cover(nodes, edges, init):
    succ = collections.defaultdict(list)
    for u, v in edges:
        succ[u].append(v)
    parent = {init: None}
    dq = collections.deque([init])
    while dq:
        u = dq.popleft()
        for v in succ[u]:
            if v not in parent:
                parent[v] = u
                dq.append(v)

    def path_to(u):
        p = []
        while parent[u] is not None:
            p.append(u)
            u = parent[u]
        return p[::-1]
    todo = collections.defaultdict(list)
    for u, v in edges:
        if u in parent:
            todo[u].append(v)
    walks = []
    for start in sorted(todo, key=lambda u: len(path_to(u))):
        while todo[start]:
            walk = path_to(start)
            u = start
            while todo[u]:
                v = todo[u].pop()
                walk.append(v)
                u = v
            walks.append(walk)
    return walks


def render_tokens(am, toks):
    """abstract tokens -> concrete content: octet t of a stream file, record of t octets t of a record file (token 0 is
    the padding: octet 0 / the empty record)"""
    return [int(t) for t in toks] if am == "stream" else [[int(t)] * int(t) for t in toks]


def render_files(spec_files):
    fs = spec_files if isinstance(spec_files, (list, tuple)) else [spec_files[k] for k in sorted(spec_files)]
    return [{"access": f["access"], "ro": bool(f["ro"]), "content": render_tokens(f["access"], f["content"])} for f in fs]


def render_act(a):
    am = "stream" if a["op"] in ("rs", "ws") else "record"
    return (a["op"], a["f"], a["start"], a["count"], render_tokens(am, a["data"]))


def replay_graph(chk, name, **kw):
    """TLC dumps the state graph of a configuration; an edge cover of it becomes a list of walks (initial table, ops)"""
    wd = tlc.workdir("dot")
    dot = os.path.join(wd, "g")
    try:
        run_mc(chk, name, dump=dot, props=False, **kw)
        nodes, edges, init0 = tlaval.parse_dot(dot + ".dot")
    finally:
        shutil.rmtree(wd, ignore_errors=True)
    inits = sorted(n for n, st in nodes.items() if st["act"]["op"] == "init")
    out = []
    steps = 0
    for init in inits:
        files0 = render_files(nodes[init]["files"])
        for w in edge_cover(nodes, edges, init):
            ops = [render_act(nodes[v]["act"]) for v in w]
            steps += len(ops)
            out.append((files0, ops))
    chk.extra.setdefault("replay", []).append({"config": name, "graph_nodes": len(nodes), "graph_edges": len(edges),
                                               "initial_tables": len(inits), "walks": len(out), "steps": steps})
    return out


# ---- execution of walks / histories on the real stacks -----------------------------------------------------------------------
def exec_walks(job):
    """job = (tid0, [(files0, ops)]): executes each walk from its initial table.  The device is reused for the next walk
    when its projection (contents and size properties) equals that walk's initial table on a fresh device."""
    tid0, walks = job
    out = []
    rig, fresh = None, {}
    try:
        for files0, ops in walks:
            if HANGS[0] >= 3:
                break
            key = json.dumps(files0)
            if rig is not None and key in fresh and (json.dumps(rig_files), rig_size) == (key, fresh[key][0]):
                size0, why0 = fresh[key]
            else:
                if rig is not None:
                    rig.close()
                rig = Rig(files0)
                size0, why0 = rig.sizes()
                fresh[key] = (size0, why0)
                rig_files = rig.files()
            evs = []
            for op, f, start, count, data in ops:
                try:
                    evs.append(rig.step(op, f, start, count, data))
                except Hang:
                    HANGS[0] += 1
                    evs.append({"hang": True, "op": op, "f": f, "start": start, "count": count, "data": data})
                    vt.reset(vt.now)
                    rig.close()
                    rig = None
                    break
            if rig is not None and evs:
                rig_files, rig_size = evs[-1]["files"], evs[-1]["size"]
            elif rig is not None:
                rig_size = size0
            out.append({"tid": tid0 + len(out), "files": rig_files0(files0), "size": size0, "sizewhy0": why0, "evs": evs,
                        "replay": {"kind": "history", "files": files0, "ops": [list(o) for o in ops]}})
    finally:
        if rig is not None:
            rig.close()
    return out


def rig_files0(files0):
    return [{"access": f["access"], "ro": bool(f["ro"]), "content": f["content"]} for f in files0]


def run_pool(fn, jobs):
    if IMPL_WORKERS <= 1 or len(jobs) <= 1:
        return [fn(j) for j in jobs]
    import multiprocessing as mp
    ctx = mp.get_context("fork")
    with ctx.Pool(min(IMPL_WORKERS, len(jobs))) as pool:
        return pool.map(fn, jobs, chunksize=1)


# ---- T: seeded random histories -----------------------------------------------------------------------------------------------
def random_files(rng):
    files = []
    for i in range(2):
        access = rng.choice(["stream", "record"]) if i else rng.choice(["stream", "stream", "record"])
        ro = rng.random() < 0.2
        if access == "stream":
            n = rng.choice([0, 1, 2, 7, 64, rng.randint(3, 300), 300])
            content = [rng.randrange(256) for _ in range(n)]
        else:
            n = rng.choice([0, 1, 3, rng.randint(2, 20), 20])
            content = [[rng.randrange(256) for _ in range(rng.choice([0, 1, 4, 12]))] for _ in range(n)]
        files.append({"access": access, "ro": ro, "content": content})
    return files


def t_history(job):
    """one random history: job = (tid, trace seed, number of operations).  The generator looks at the current length of
    the file it addresses (to aim at the boundaries); nothing else of the implementation's state is used."""
    tid, tseed, nops = job
    rng = random.Random(tseed)
    files0 = random_files(rng)
    rig = Rig(files0)
    try:
        size0, why0 = rig.sizes()
        evs, ops = [], []
        follow = None
        for _ in range(nops):
            if HANGS[0] >= 3:
                break
            f = rng.choice([1, 1, 2])
            obj = rig.objs[f - 1]
            am = "stream" if isinstance(obj, StreamFile) else "record"
            n = len(obj)
            if rng.random() < 0.12:
                am = "record" if am == "stream" else "stream"          # the wrong access method for this file
            if follow is not None and rng.random() < 0.6:
                op = follow                                           # read back the range just acknowledged
            elif rng.random() < 0.5:
                start = rng.choice([0, 0, 1, n - 1, n, n, n + 1, n + 7, -1, -3, rng.randint(0, max(n, 1)), n // 2])
                left = max(n - start, 0)
                count = rng.choice([0, 1, left - 1, left, left, left + 1, 1000, rng.randint(0, max(left, 1)), 2])
                op = ("rs" if am == "stream" else "rr", f, start, max(count, 0), [])
            else:
                pos = rng.choice([-1, -1, 0, n - 1, n, n, n + 1, n + 5, rng.randint(0, max(n, 1)), n // 2])
                pos = max(pos, -1)
                if am == "stream":
                    k = rng.choice([0, 1, 1, 3, rng.randint(0, 40)]) if n < 400 else rng.choice([0, 1])
                    if n >= 400:
                        pos = min(pos, n)
                    data = [rng.randrange(256) for _ in range(k)]
                    op = ("ws", f, pos, len(data), data)
                else:
                    k = rng.choice([0, 1, 1, 2, 3]) if n < 30 else rng.choice([0, 1])
                    if n >= 30:
                        pos = min(pos, n)
                    data = [[rng.randrange(256) for _ in range(rng.choice([0, 1, 5, 12]))] for _ in range(k)]
                    op = ("wr", f, pos, len(data), data)
            ops.append(op)
            try:
                ev = rig.step(*op)
            except Hang:
                HANGS[0] += 1
                evs.append({"hang": True, "op": op[0], "f": op[1], "start": op[2], "count": op[3], "data": op[4]})
                vt.reset(vt.now)
                break
            evs.append(ev)
            follow = None
            if ev["res"]["k"] == "wack":
                follow = ("rs" if op[0] == "ws" else "rr", f, ev["res"]["start"], len(op[4]), [])
        return {"tid": tid, "files": rig_files0(files0), "size": size0, "sizewhy0": why0, "evs": evs,
                "replay": {"kind": "history", "files": files0, "ops": [list(o) for o in ops]}}
    finally:
        rig.close()


# ---- what the tree under test does on the three named axes (only the conformance side of the validation uses it) -------------
def probe_flags():
    t = exec_walks((0, [([{"access": "stream", "ro": False, "content": [1, 2]}, {"access": "stream", "ro": False, "content": []}],
                         [("rs", 1, 2, 1, []), ("ws", 2, -1, 1, [7]), ("ws", 1, -1, 1, [7])])]))[0]
    e = t["evs"]
    if any(x.get("hang") for x in e) or len(e) < 3:
        return dict(INTENDED)
    return {"RefuseStartAtEnd": e[0]["res"]["k"] == "err" and e[0]["res"]["code"] == "invalidFileStartPosition",
            "EmptyIsUnknown": e[1]["res"]["k"] == "err" and e[1]["res"]["code"] == "unknownObject",
            "SizeNotMaintained": e[2]["res"]["k"] == "wack" and e[2]["size"][0] == t["size"][0]}


# ---- trace validation ----------------------------------------------------------------------------------------------------------
EV_KEYS = ("op", "f", "start", "count", "data", "res", "files", "size")


def validate(chk, traces, label, flags):
    verdicts = {}
    batches, batch, size = [], [], 0
    for t in traces:
        batch.append(t)
        size += len(t["evs"]) + 1
        if size > 30000:
            batches.append(batch)
            batch, size = [], 0
    if batch:
        batches.append(batch)
    body = "---- MODULE TRgen ----\nEXTENDS Trace_FileSvc\nc_PadR == <<>>\nc_None == {}\n====\n"
    cfg = ("CONSTANTS\n  F = {1, 2}\n  Files0 <- c_None\n  Positions <- c_None\n  Counts <- c_None\n  Data <- c_None\n"
           "  PadS = 0\n  PadR <- c_PadR\n  MaxLen = 0\n  MaxLevel = 0\n" +
           "".join("  %s = %s\n" % (k, tla(bool(flags[k]))) for k in DEVIATIONS) +
           "SPECIFICATION TSpec\nCHECK_DEADLOCK FALSE\n")
    for bi, batch in enumerate(batches):
        wd = tlc.workdir("tr")
        tf = os.path.join(wd, "traces.ndjson")
        with open(tf, "w") as f:
            for t in batch:
                evs = [{k: e[k] for k in EV_KEYS} for e in t["evs"]]
                f.write(json.dumps({"tid": t["tid"], "files": t["files"], "size": t["size"], "evs": evs}) + "\n")
        try:
            res = tlc.run_tlc("TRgen", cfg_text=cfg, files={"TRgen.tla": body},
                              workers=min(8, int(os.environ.get("VERIF_TLC_WORKERS", "16"))), timeout=1800,
                              env={"TRACE_FILE": tf}, name="Trace_FileSvc/%s/%d" % (label, bi))
        finally:
            shutil.rmtree(wd, ignore_errors=True)
        if res["error_kind"] or not res["finished"]:
            tlc.machinery_failure("trace validation run failed: %s\n%s" % (res["error"], res["output"][-3000:]))
        got = {v["tid"]: v for v in tlc.printed_values(res["output"])}
        if len(got) != len(batch):
            tlc.machinery_failure("trace validation returned %d verdicts for %d traces\n%s" % (len(got), len(batch), res["output"][-2000:]))
        verdicts.update(got)
        chk.extra["trace_validation_states"] = chk.extra.get("trace_validation_states", 0) + res["distinct"]
    return verdicts


def posclass(p, n):
    return "append" if p == -1 else "negative" if p < 0 else "inside" if p < n else "at_end" if p == n else "beyond"


def answer(r):
    return r["k"] if r["k"] in ("rack", "wack") else ":".join(x for x in (r["k"], r["cls"], r["code"]) if x)


def classify(m, ev, pre):
    """signature of a monitor failure: the class of the request (operation, addressed file empty or not, position class,
    right or wrong access method, read-only), and the answer"""
    if m == "SizeTracksContent":
        bad = [g for g in range(len(ev["files"])) if ev["size"][g] != len(ev["files"][g]["content"])]
        g = bad[0] if bad else 0
        fl = ev["files"][g]
        return {"access": fl["access"], "len": "empty" if not fl["content"] else "nonempty",
                "case": "size_property_unreadable" if ev["size"][g] == -1 else "size_property_differs_from_content_length",
                "why": ev["sizewhy"][g]}
    fl = pre[ev["f"] - 1]
    n = len(fl["content"])
    am = "stream" if ev["op"] in ("rs", "ws") else "record"
    sig = {"op": ev["op"], "len": "empty" if n == 0 else "nonempty", "pos": posclass(ev["start"], n),
           "method": "right" if fl["access"] == am else "wrong", "ro": bool(fl["ro"]), "answer": answer(ev["res"])}
    sig["case"] = ("empty_file_answered_unknownObject" if (n == 0 and sig["answer"] == "err:object:unknownObject") else
                   "read_starting_at_end_refused" if (ev["op"] in ("rs", "rr") and sig["pos"] == "at_end" and sig["method"] == "right"
                                                      and sig["answer"] == "err:services:invalidFileStartPosition") else
                   "other")
    return sig


def group_key(m, sig):
    """violations are reported once per (monitor, case, read/write[, access]); cases the driver has no name for: per signature"""
    if sig.get("case", "other") != "other":
        return (m, sig["case"], sig.get("access") or ("read" if sig["op"] in ("rs", "rr") else "write"))
    return (m,) + tuple(sorted(sig.items()))


def count_monitors(chk, t):
    prev = None
    for e in t["evs"]:
        if e.get("hang"):
            break
        rd = e["op"] in ("rs", "rr")
        k = e["res"]["k"]
        chk.monitor("RefusalIffInvalid")
        chk.monitor("SizeTracksContent")
        chk.monitor("ReadIsSlice", 1 if rd and k == "rack" else 0)
        chk.monitor("EofExact", 1 if rd and k == "rack" else 0)
        chk.monitor("WriteExact", 1 if not rd and k == "wack" else 0)
        chk.monitor("RefusalChangesNothing", 0 if k in ("rack", "wack") else 1)
        chk.monitor("ReadsChangeNothing", 1 if rd else 0)
        w = (prev is not None and prev["res"]["k"] == "wack" and rd and e["f"] == prev["f"] and
             (e["op"] == "rs") == (prev["op"] == "ws") and e["start"] == prev["res"]["start"] and e["count"] == len(prev["data"]))
        chk.monitor("WriteThenRead", 1 if w else 0)
        prev = e


def note_cases(chk, t):
    pre = t["files"]
    for e in t["evs"]:
        if e.get("hang"):
            break
        sig = classify("", e, pre)
        n = len(pre[e["f"] - 1]["content"])
        chk.case((sig["op"], sig["pos"], sig["method"], sig["ro"], sig["answer"], min(n, 6), min(e["count"], 6),
                  min(max(n - e["start"], -1), 6)), nontrivial=True, n=1 + len(e["files"]))
        pre = e["files"]


def corrupted_copies(traces):
    """binding self-test: copies of recorded traces with one logged field falsified, and the monitor that must notice"""
    import copy
    out = []

    def first(pred):
        for t in traces:
            for i, e in enumerate(t["evs"]):
                if not e.get("hang") and pred(e):
                    return t, i
        return None, None
    t, i = first(lambda e: e["res"]["k"] == "rack")
    if t is not None:
        c = copy.deepcopy(t)
        c["evs"] = c["evs"][:i + 1]
        c["evs"][i]["res"]["eof"] = not c["evs"][i]["res"]["eof"]
        out.append((c, "EofExact"))
    t, i = first(lambda e: e["res"]["k"] == "rack" and e["res"]["data"])
    if t is not None:
        c = copy.deepcopy(t)
        c["evs"] = c["evs"][:i + 1]
        c["evs"][i]["res"]["data"] = c["evs"][i]["res"]["data"][:-1]
        c["evs"][i]["res"]["n"] -= 1
        out.append((c, "ReadIsSlice"))
    t, i = first(lambda e: e["op"] in ("rs", "rr") and e["files"][e["f"] - 1]["content"])
    if t is not None:
        c = copy.deepcopy(t)
        c["evs"] = c["evs"][:i + 1]
        c["evs"][i]["files"][c["evs"][i]["f"] - 1]["content"].pop()
        out.append((c, "ReadsChangeNothing"))
    t, i = first(lambda e: e["res"]["k"] == "wack" and e["data"])
    if t is not None:
        c = copy.deepcopy(t)
        c["evs"] = c["evs"][:i + 1]
        c["evs"][i]["res"]["start"] += 1
        out.append((c, "WriteExact"))
    t, i = first(lambda e: e["res"]["k"] == "err" and e["op"] in ("ws", "wr"))
    if t is not None:
        c = copy.deepcopy(t)
        c["evs"] = c["evs"][:i + 1]
        fl = c["evs"][i]["files"][c["evs"][i]["f"] - 1]
        fl["content"] = fl["content"] + ([0] if fl["access"] == "stream" else [[]])
        out.append((c, "RefusalChangesNothing"))
    for k, (c, m) in enumerate(out):
        c["tid"] = 9000001 + k
    return out


def judge(chk, traces, label, seen, flags, selftest=False):
    """hangs, TLC verdicts -> violations / deviations / accepted traces"""
    runnable = []
    for t in traces:
        if t["evs"] and t["evs"][-1].get("hang"):
            ev = t["evs"].pop()
            chk.violation("Terminates", {"op": ev["op"]}, {"what": "no answer within 10 s", "step": len(t["evs"]) + 1, "event": ev},
                          t["replay"])
        runnable.append(t)
    if not runnable:
        return
    probes = corrupted_copies(runnable) if selftest else []
    verdicts = validate(chk, runnable + [c for c, m in probes], label, flags)
    for c, m in probes:
        got = sorted(set(x[0] for x in verdicts[c["tid"]]["viol"]))
        if m not in got:
            tlc.machinery_failure("binding self-test: a trace with a falsified field (%s expected) was judged %r" % (m, got))
        chk.extra.setdefault("binding_selftest", []).append("falsified trace flagged by %s as expected (also: %s)" % (
            m, ", ".join(x for x in got if x != m) or "-"))
    classes = chk.extra.setdefault("violation_classes", {})
    for t in runnable:
        v = verdicts[t["tid"]]
        count_monitors(chk, t)
        if v["viol"]:
            for m, l in sorted(v["viol"], key=lambda x: (x[1], x[0])):
                ev = t["evs"][l - 1]
                pre = t["evs"][l - 2]["files"] if l > 1 else t["files"]
                sig = classify(m, ev, pre)
                gk = group_key(m, sig)
                ck = "/".join(str(x) for x in gk) if sig.get("case", "other") != "other" else m + "/" + "/".join(
                    "%s=%s" % kv for kv in sorted(sig.items()))
                classes[ck] = classes.get(ck, 0) + 1
                if gk in seen:
                    continue
                seen.add(gk)
                lo = max(0, l - 3)
                detail = {"step": l, "content_before": [f["content"] for f in pre][ev["f"] - 1][:40],
                          "file": pre[ev["f"] - 1]["access"] + ("/read-only" if pre[ev["f"] - 1]["ro"] else ""),
                          "request": [ev["op"], ev["f"], ev["start"], ev["count"], ev["data"][:12]],
                          "answer": {k: x for k, x in ev["res"].items() if x not in ("", [], 0, False) or k == "k"},
                          "content_after": ev["files"][ev["f"] - 1]["content"][:40],
                          "size_property_before": (t["evs"][l - 2]["size"] if l > 1 else t["size"]), "size_property_after": ev["size"],
                          "size_property_note": [w for w in ev["sizewhy"] if w],
                          "first_step_rejected_by_design": v["rej"],
                          "prefix": [[e["op"], e["f"], e["start"], e["count"], e["data"][:6], answer(e["res"])] for e in t["evs"][lo:l]]}
                if m == "SizeTracksContent":
                    bad = [g for g in range(len(ev["files"])) if ev["size"][g] != len(ev["files"][g]["content"])]
                    detail["files_whose_size_property_is_wrong"] = [
                        {"file": g + 1, "access": ev["files"][g]["access"], "content_length": len(ev["files"][g]["content"]),
                         "size_property": ev["size"][g], "note": ev["sizewhy"][g]} for g in bad]
                chk.violation(m, sig, detail, dict(t["replay"], step=l))
        elif v["rej"]:
            l = v["rej"]
            ev = t["evs"][l - 1]
            chk.deviation({"tid": t["tid"], "step": l, "event": {k: ev[k] for k in ("op", "f", "start", "count", "res", "size")},
                           "files_before": (t["evs"][l - 2]["files"] if l > 1 else t["files"]), "replay": t["replay"]})
        else:
            chk.traces_validated += 1


def extra_findings(chk):
    """development aid: VERIF_X03_ASSUME_KNOWN=<json file with {"findings": [...]}> adds entries to the known findings of
    this run only (known_findings.json stays as it is), to see what else a tree does once the reported defects are set aside"""
    p = os.environ.get("VERIF_X03_ASSUME_KNOWN")
    if p:
        chk.findings = list(chk.findings) + json.load(open(p)).get("findings", [])
        chk.extra["assumed_known_findings_file"] = p


# ---------------------------------------------------------------------------------------------------------------------------------
def main(tier, seed):
    chk = Check("X03", tier, seed)
    extra_findings(chk)
    thorough = tier == "thorough"
    rng = random.Random(seed)
    chk.rule = ("model: every sequence of ReadStream / ReadRecord / WriteStream / WriteRecord of FileSvc.tla up to the level "
                "bound; implementation: one evaluation = one request/response exchange decoded from the wire (the operation, "
                "and the ReadProperty of File_Size / Record_Count of every file after it); distinct = (operation, position "
                "class, access method right/wrong, read-only, answer, content length, count, distance to the end [each capped at "
                "6]) combinations")
    chk.assumptions = [
        "the file objects are the driver's own in-memory subclasses of bacpypes.local.file.Local{Stream,Record}AccessFileObject "
        "(equivalents of samples/ReadWriteFileServer.py with its Python-3 str/bytes slips repaired): a write beyond the end "
        "pads with zero octets / empty records; their read_*/write_* bodies are application code, FileServices, the PDU "
        "codecs and the stacks are the library's",
        "the content of the files is projected from the server-side objects; File_Size (stream) / Record_Count (record) are "
        "read with ReadProperty over the wire after every step; objects are created with those properties set to the "
        "initial length",
        "write positions are >= -1 (the standard gives no meaning to other negative positions); recordCount of a write "
        "always equals the number of records sent",
        "the conformance side of the trace validation uses the deviation flags observed on the tree by three probe requests "
        "(recorded as code_flags_observed); the monitors do not depend on the flags",
        "TLC exhaustive up to the stated level bound only; longer histories by trace validation of random runs"]
    phases = chk.extra.setdefault("phase_wall_s", {})

    def phase(name, t0=[time.time()]):
        phases[name] = round(time.time() - t0[0], 1)
        t0[0] = time.time()

    # D: the design satisfies the property
    if thorough:
        run_mc(chk, "exhaustive4", static=True, timeout=2400)
    else:
        run_mc(chk, "full3", tables=[(ALL_RO[0], ((), (1, 2))), (ALL_RO[1], ((1, 2), (2, 1, 1))), (ALL_RO[2], ((2, 1, 1), ())),
                                      (ALL_RO[0], ((2, 1, 1), (1, 2)))], maxlevel=3, **FULL)
    small_alpha = dict(positions=[-1, 0, 2, 3], counts=[0, 1, 2], data=[(), (1,), (2, 1)])
    pairs = [(a, b) for a in CONTENTS for b in CONTENTS]
    for dev, expect in (("RefuseStartAtEnd", "RefusalIffInvalid"), ("EmptyIsUnknown", "RefusalIffInvalid"),
                        ("SizeNotMaintained", "SizeTracksContent")):
        run_mc(chk, "dev_" + dev, expect_error=expect, tables=product(ALL_RO[:1], pairs), maxlevel=2,
               flags=dict(INTENDED, **{dev: True}), **small_alpha)
    phase("D_model_checking")

    # R: edge cover of TLC's graphs, executed over the wire
    walks = replay_graph(chk, "R_full1", tables=product(ALL_RO, pairs), maxlevel=1, **FULL)
    if thorough:
        walks += replay_graph(chk, "R_pairs", tables=product(ALL_RO[:3], [((1, 2), (2, 1, 1)), ((), ())]), maxlevel=2,
                              positions=[-1, 0, 1, 2, 3, 5], counts=[0, 1, 2, 4], data=[(), (1,), (2, 1)])
        walks += replay_graph(chk, "R_triples", tables=[(ALL_RO[0], ((1, 2), (2, 1, 1)))], maxlevel=3,
                              positions=[-1, 0, 2, 4], counts=[0, 2], data=[(1,), (2, 1)], maxlen=5)
    else:
        walks += replay_graph(chk, "R_pairs", tables=[(ALL_RO[0], ((1, 2), (2, 1, 1)))], maxlevel=2,
                              positions=[-1, 0, 2, 3, 5], counts=[0, 1, 2], data=[(), (1,), (2, 1)])
    phase("R_graphs")
    flags = probe_flags()
    chk.extra["code_flags_observed"] = flags
    per = max(50, len(walks) // (IMPL_WORKERS * 4) + 1)
    jobs = [(1000000 + a, walks[a:a + per]) for a in range(0, len(walks), per)]
    rtraces = [t for ts in run_pool(exec_walks, jobs) for t in ts]
    for t in rtraces:
        note_cases(chk, t)
    chk.extra["replay_steps_executed_on_impl"] = sum(len(t["evs"]) for t in rtraces)
    phase("R_execution")
    seen = set()
    judge(chk, rtraces, "R", seen, flags)
    phase("R_trace_validation")

    # T: seeded random histories on larger files
    ntr, nops = (600, 80) if thorough else (80, 40)
    jobs = [(i + 1, rng.randrange(2 ** 30), nops) for i in range(ntr)]
    ttraces = run_pool(t_history, jobs)
    for t in ttraces:
        note_cases(chk, t)
    for t in ttraces[:2]:
        chk.sample({"files": [{"access": f["access"], "ro": f["ro"], "length": len(f["content"])} for f in t["files"]],
                    "events": [{"request": [e["op"], e["f"], e["start"], e["count"], e["data"][:8]], "answer": answer(e["res"]),
                                "returned": e["res"]["data"][:8], "eof": e["res"]["eof"], "start": e["res"]["start"],
                                "lengths_after": [len(f["content"]) for f in e["files"]], "size_properties": e["size"]}
                               for e in t["evs"][:4] if not e.get("hang")]})
    phase("T_execution")
    judge(chk, ttraces, "T", seen, flags, selftest=True)
    phase("T_trace_validation")
    answers = collections.Counter()
    for t in rtraces + ttraces:
        for e in t["evs"]:
            if not e.get("hang"):
                answers[e["op"] + " -> " + answer(e["res"])] += 1
    chk.extra["answers"] = dict(sorted(answers.items()))
    return chk.finish()


def replay(path):
    body = json.load(open(path))
    rp = body["replay"]
    chk = Check("X03", "quick", body.get("seed", 0))
    extra_findings(chk)
    flags = probe_flags()
    ops = [tuple(o) for o in rp["ops"]]
    if rp.get("step"):
        ops = ops[:rp["step"]]
    t = exec_walks((1, [(rp["files"], ops)]))[0]
    for e in t["evs"][-4:]:
        print(json.dumps({k: e[k] for k in ("op", "f", "start", "count", "data", "res", "size") if k in e})[:1500])
    judge(chk, [t], "replay", set(), flags)
    return chk.finish()
