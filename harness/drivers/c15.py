"""C15 -- Property reads and writes over the wire are consistent, typed, all-or-nothing.   (spec/ObjStore.tla)

D  TLC exhaustive on the abstract 2-object x 5-property store (writable scalar, read-only scalar, writable array, writable
   list, optional property without a value; tokens a, b of the right type, w of a wrong type, d = padding element,
   lengths, sequences; objects / properties the device does not have; indexes none, 0..3): the FULL closure -- every
   reachable store and every Read / Write / RPM / Scan of the alphabet from each of them, i.e. operation sequences of
   any length (states identified by the store, VIEW ViewVal) -- against the step formulas ReadYourWrite,
   RefusalChangesNothing, MatchingError, ArrayIndexing, RPMEqualsRP and the invariants Shape / Typed / ReadOnlyStable.
   The named deviation Dev_ValidateAfterAssign must violate RefusalChangesNothing (vacuity check).
R  the same model instantiated with the schema of a REAL object class (StoreObject below, schema and tokens regenerated
   from the working tree): TLC enumerates the stores reachable within 1 (quick) / 2 (thorough) operations with one
   operation path each; from every such store the operations of the alphabet (about 1000) are executed on a real device
   over the wire (edge cover of the store graph), full read-back after every operation; the recorded executions go
   through Trace_ObjStore (conformance with the design step by step + the monitors).
T  seeded random sequences of writes / reads / RPMs / array walks over EVERY registered object type (vendor 0) as
   declared, and over an all-writable twin of each class (same datatypes, every property mutable: the way an application
   makes properties writable), two instances per device (the second is a bystander), properties initialised with
   values generated from their datatypes, values for writes generated from each property's datatype (atomic, enumerated,
   bit strings, arrays, fixed-length arrays, lists, sequences, choices), wrong-typed values, all index classes (none, 0,
   1..n, n+1, large), priorities none / 1..16, objects and properties the device does not have.  A real client stack
   talks to a real device stack over a VLAN; every request / response is decoded from the wire, tokenised (hex of the
   encoded tag list per element) and validated by TLC (Trace_ObjStore) against the schema regenerated from the working
   tree on every run.
"""
import os, sys, json, random, collections, itertools, time, shutil, zlib
from common import Check, VERIF, WORK, Hang, watchdog
import tlc, tlaval
import vtime

vt = vtime.install()
import bacpypes.core as core
from bacpypes.comm import bind
from bacpypes.pdu import Address, LocalBroadcast, PDUData
from bacpypes.vlan import Network, Node
from bacpypes.app import Application
from bacpypes.appservice import StateMachineAccessPoint, ApplicationServiceAccessPoint
from bacpypes.netservice import NetworkServiceAccessPoint, NetworkServiceElement
from bacpypes.local.device import LocalDeviceObject
from bacpypes.service.object import ReadWritePropertyServices, ReadWritePropertyMultipleServices
from bacpypes.apdu import (ReadPropertyRequest, ReadPropertyACK, WritePropertyRequest, ReadPropertyMultipleRequest,
                           ReadPropertyMultipleACK, ReadAccessSpecification, PropertyReference, SimpleAckPDU, Error,
                           RejectPDU, AbortPDU, RejectReason, AbortReason)
from bacpypes.primitivedata import (Atomic, Null, Boolean, Unsigned, Integer, Real, Double, OctetString, CharacterString,
                                    BitString, Enumerated, Date, Time, ObjectIdentifier, Tag, TagList)
from bacpypes.constructeddata import Any, AnyAtomic, Array, ArrayOf, List, ListOf, Sequence, Choice
import bacpypes.constructeddata as cd
import bacpypes.object as bo
from bacpypes.errors import ExecutionError
from bacpypes.basetypes import PropertyIdentifier, DateRange
from bacpypes.object import (Object, Property, OptionalProperty, ReadableProperty, WritableProperty, register_object_type)

IMPL_WORKERS = int(os.environ.get("VERIF_IMPL_WORKERS", "0") or 0) or max(1, min(6, (os.cpu_count() or 2) // 2))
NOIDX, BIGIDX = -1, 1000000
SELECTORS = ("all", "required", "optional")
APP_TAG = {0: "null", 1: "boolean", 2: "unsigned", 3: "integer", 4: "real", 5: "double", 6: "octetString",
           7: "characterString", 8: "bitString", 9: "enumerated", 10: "date", 11: "time", 12: "objectIdentifier"}
# how a value of the wrong datatype may be refused (documented set; the strict design ObjStore.tla uses it, the monitor
# MatchingError accepts ANY refusal for this class):
#   Reject invalidTag               primitivedata: an atomic decoder handed a tag of another type (Any.cast_out)
#   Reject invalidParameterDatatype Property.WriteProperty: value not valid for the datatype (e.g. Null)
#   Reject missingRequiredParameter Sequence.decode: a constructed value does not start with its required element
#   Error  property:valueOutOfRange Property.WriteProperty: a fixed-length array asked to change its length
#   Error  property:invalidDataType (not raised today; the code a BACnet device would use)
#   Error  device:operationalProblem Application.indication's catch-all: Any.cast_out raises DecodingError (a
#                                   ValueError, not a RejectException) for an empty value / too many components /
#                                   an incomplete cast / a fixed-length array of the wrong length
WRONG_TYPE_REFUSALS = [("rej", "invalidTag"), ("rej", "invalidParameterDatatype"), ("rej", "missingRequiredParameter"),
                       ("err", "property:valueOutOfRange"), ("err", "property:invalidDataType"),
                       ("err", "device:operationalProblem")]
MONITORS = ["ReadYourWrite", "RefusalChangesNothing", "MatchingError", "ArrayIndexing", "RPMEqualsRP"]


# ---- python -> TLA+ text ---------------------------------------------------------------------------------------------
def tla(v):
    if isinstance(v, bool):
        return "TRUE" if v else "FALSE"
    if isinstance(v, int):
        return str(v)
    if isinstance(v, str):
        return '"%s"' % v
    if isinstance(v, (list, tuple)):
        return "<<" + ", ".join(tla(x) for x in v) + ">>"
    if isinstance(v, (set, frozenset)):
        return "{" + ", ".join(sorted(tla(x) for x in v)) + "}"
    if isinstance(v, dict):
        if not v:
            return "<<>>"
        return "(" + " @@ ".join("%s :> %s" % (tla(k), tla(x)) for k, x in v.items()) + ")"
    raise TypeError(v)


# ---- the real stacks ---------------------------------------------------------------------------------------------------
class _NSE(NetworkServiceElement):
    _startup_disabled = True


class _App(Application, ReadWritePropertyServices, ReadWritePropertyMultipleServices):
    """a complete application stack on a VLAN node (own code; nothing imported from the repository's tests)"""
    _startup_disabled = True

    def __init__(self, dev, vlan):
        Application.__init__(self, dev)
        self.address = Address(dev.objectIdentifier[1])
        self.asap = ApplicationServiceAccessPoint()
        self.smap = StateMachineAccessPoint(dev)
        self.smap.deviceInfoCache = self.deviceInfoCache
        self.nsap = NetworkServiceAccessPoint()
        self.nse = _NSE()
        bind(self.nse, self.nsap)
        bind(self, self.asap, self.smap, self.nsap)
        self.node = Node(self.address, vlan)
        self.nsap.bind(self.node)
        self.got = []

    def confirmation(self, apdu):
        self.got.append(apdu)


_net = {}


def network():
    if not _net:
        vt.reset(0.0)
        vlan = Network(broadcast_address=LocalBroadcast())

        def dev(n, i):
            return LocalDeviceObject(objectName=n, objectIdentifier=("device", i), maxApduLengthAccepted=1476,
                                     segmentationSupported="segmentedBoth", maxSegmentsAccepted=64, vendorIdentifier=999)
        _net["client"] = _App(dev("client", 10), vlan)
        _net["server"] = _App(dev("server", 20), vlan)
    return _net["client"], _net["server"]


def hexof(tags):
    """hex of the encoding of a list of tags"""
    pdu = PDUData()
    for t in tags:
        t.encode(pdu)
    return bytes(pdu.pduData).hex()


def tags_of(elem):
    """tag list of one element (an Atomic instance, a constructed instance or an Any)"""
    a = Any()
    a.cast_in(elem)
    return list(a.tagList)


def tytag(dt):
    if issubclass(dt, AnyAtomic):
        return "anyAtomic"
    if issubclass(dt, Atomic):
        return APP_TAG[dt._app_tag]
    return dt.__name__


def is_atomicish(dt):
    return issubclass(dt, (Atomic, AnyAtomic))


def sub_of(dt):
    return dt.subtype if issubclass(dt, (Array, List)) else dt


def kind_of(dt):
    return "array" if issubclass(dt, Array) else "list" if issubclass(dt, List) else "scalar"


def reason(enum, n):
    for k, v in enum.enumerations.items():
        if v == n:
            return k
    return str(n)


NORES = {"k": "none", "c": "", "e": [], "n": -1}
ACK = {"k": "ack", "c": "", "e": [], "n": -1}
RPMACK = {"k": "rpmack", "c": "", "e": [], "n": -1}
NOVAL = {"e": [], "ty": "none", "n": -1}


def refusal(resp):
    if isinstance(resp, Error):
        return {"k": "err", "c": "%s:%s" % (resp.errorClass, resp.errorCode), "e": [], "n": -1}
    if isinstance(resp, RejectPDU):
        return {"k": "rej", "c": reason(RejectReason, resp.apduAbortRejectReason), "e": [], "n": -1}
    if isinstance(resp, AbortPDU):
        return {"k": "abort", "c": reason(AbortReason, resp.apduAbortRejectReason), "e": [], "n": -1}
    if resp is None:
        return dict(NORES)
    return {"k": "other", "c": type(resp).__name__, "e": [], "n": -1}


def split_elements(taglist, dt):
    """element tokens of the value of a property of datatype dt, as shown on the wire"""
    tags = list(taglist)
    kind = kind_of(dt)
    if kind == "scalar":
        return [hexof(tags)]
    sub = dt.subtype
    if is_atomicish(sub):
        return [hexof([t]) for t in tags]
    whole = hexof(tags)
    try:
        helper = dt()
        helper.decode(TagList(tags[:]))
        items = list(helper.value[1:]) if kind == "array" else list(helper.value)
        toks = [hexof(tags_of(x)) for x in items]
        if "".join(toks) == whole:
            return toks
    except Exception:
        pass
    return ["?" + whole]


def value_result(any_value, dt, idx):
    """abstract result of an acknowledged read of (a property of datatype dt, index idx)"""
    tags = list(any_value.tagList)
    if dt is not None and idx == 0 and issubclass(dt, Array):
        if len(tags) == 1 and tags[0].tagClass == Tag.applicationTagClass and tags[0].tagNumber == Tag.unsignedAppTag:
            n = Unsigned(tags[0]).value
            if n < 2 ** 31:
                return {"k": "len", "c": "", "e": [], "n": n}
        return {"k": "val", "c": "", "e": ["?" + hexof(tags)], "n": -1}
    if dt is None or idx != NOIDX:
        return {"k": "val", "c": "", "e": [hexof(tags)], "n": -1}
    return {"k": "val", "c": "", "e": split_elements(tags, dt), "n": -1}


class GV:
    """a value to be written: elements (encodable instances), type tag, the number an unsigned denotes"""

    def __init__(self, elems, ty, n=-1, raw_any=None):
        self.elems, self.ty, self.n = list(elems), ty, n
        self.toks = [hexof(tags_of(e)) for e in self.elems]

    def abstract(self):
        return {"e": list(self.toks), "ty": self.ty, "n": self.n}

    def any(self):
        a = Any()
        for e in self.elems:
            a.cast_in(e)
        return a


class Device:
    """the device under test: real objects in a real server stack, operated by a real client stack over the VLAN"""

    def __init__(self):
        self.client, self.server = network()
        self.objs = collections.OrderedDict()       # abstract name -> (object identifier, object)
        self.alias = {}                             # abstract name of an object the device does not have -> identifier
        self.snap = None
        self.calls = 0

    def install(self, named):
        self.clear()
        for name, obj in named:
            self.server.add_object(obj)
            self.objs[name] = (obj.objectIdentifier, obj)
        self.snap = None

    def clear(self):
        """take the objects out of the server again (by identity: a defective device may have let a client change an
        object's name or identifier, which Application.delete_object would then not find)"""
        srv = self.server
        for name, (oid, obj) in list(self.objs.items()):
            for table in (srv.objectName, srv.objectIdentifier):
                for k in [k for k, v in table.items() if v is obj]:
                    del table[k]
            ol = srv.localDevice.objectList if srv.localDevice is not None else None
            for ident in (oid, obj._values.get("objectIdentifier")):
                try:
                    while ol is not None and ident in ol:
                        ol.remove(ident)
                except Exception:
                    pass
            obj._app = None
        self.objs.clear()

    def oid(self, name):
        return self.objs[name][0] if name in self.objs else self.alias[name]

    def datatype(self, name, pid):
        if name in self.objs:
            prop = self.objs[name][1]._properties.get(pid)
            return prop.datatype if prop else None
        return None

    def call(self, req):
        req.pduDestination = self.server.address
        self.calls += 1
        self.client.got = []
        self.client.request(req)
        with watchdog(10):
            vt.step_all()
        if len(self.client.got) > 1:
            raise RuntimeError("more than one response: %r" % (self.client.got,))
        return self.client.got[0] if self.client.got else None

    # -- the three services, in the abstract vocabulary
    def rp(self, o, p, i):
        req = ReadPropertyRequest(objectIdentifier=self.oid(o), propertyIdentifier=p)
        if i != NOIDX:
            req.propertyArrayIndex = i
        resp = self.call(req)
        if isinstance(resp, ReadPropertyACK):
            return value_result(resp.propertyValue, self.datatype(o, p), i)
        return refusal(resp)

    def wp(self, o, p, i, gv, pr):
        req = WritePropertyRequest(objectIdentifier=self.oid(o), propertyIdentifier=p)
        req.propertyValue = gv.any()
        if i != NOIDX:
            req.propertyArrayIndex = i
        if pr:
            req.priority = pr
        resp = self.call(req)
        if isinstance(resp, SimpleAckPDU):
            return dict(ACK)
        return refusal(resp)

    def rpm(self, refs):
        """refs: [(o, p, i)].  Consecutive references to the same object share one ReadAccessSpecification; a selector
        closes its specification (so that the elements of the answer can be attributed to the references: within one
        specification the k specific references own the first k elements, the selector the rest)."""
        specs = []
        for g, (o, p, i) in enumerate(refs, 1):
            if not specs or specs[-1][0] != o or specs[-1][2]:
                specs.append([o, [], False])
            specs[-1][1].append((g, p, i))
            if p in SELECTORS:
                specs[-1][2] = True
        req = ReadPropertyMultipleRequest(listOfReadAccessSpecs=[
            ReadAccessSpecification(objectIdentifier=self.oid(o), listOfPropertyReferences=[
                PropertyReference(propertyIdentifier=p, propertyArrayIndex=None if i == NOIDX else i) for g, p, i in rs])
            for o, rs, _ in specs])
        resp = self.call(req)
        if not isinstance(resp, ReadPropertyMultipleACK):
            return refusal(resp), []
        out = []
        results = list(resp.listOfReadAccessResults)
        for si, (o, rs, _) in enumerate(specs):
            if si >= len(results):
                break
            els = list(results[si].listOfResults or [])
            for ei, el in enumerate(els):
                g = rs[min(ei, len(rs) - 1)][0]
                pid = el.propertyIdentifier
                idx = NOIDX if el.propertyArrayIndex is None else el.propertyArrayIndex
                if el.readResult.propertyValue is not None:
                    r = value_result(el.readResult.propertyValue, self.datatype(o, pid), idx)
                elif el.readResult.propertyAccessError is not None:
                    e = el.readResult.propertyAccessError
                    r = {"k": "err", "c": "%s:%s" % (e.errorClass, e.errorCode), "e": [], "n": -1}
                else:
                    r = dict(NORES)
                oname = o if tuple(results[si].objectIdentifier) == tuple(self.oid(o)) else "?%s_%s" % tuple(results[si].objectIdentifier)
                out.append({"g": g, "o": oname, "p": str(pid), "i": idx, "r": r})
        for el in out:                      # what ReadProperty answers for the very same reference
            el["rp"] = self.rp(el["o"], el["p"], el["i"]) if not el["o"].startswith("?") else dict(NORES)
        return dict(RPMACK), out

    def scan(self, o, p):
        out = [{"g": 0, "o": o, "p": p, "i": 0, "r": self.rp(o, p, 0)}]
        r0 = out[0]["r"]
        if r0["k"] == "len" and r0["n"] <= 40:
            n = r0["n"]
            for j in list(range(1, n + 2)) + [BIGIDX]:
                out.append({"g": 0, "o": o, "p": p, "i": j, "r": self.rp(o, p, j)})
        for el in out:
            el["rp"] = el["r"]
        return self.rp(o, p, NOIDX), out

    # -- projection: one ReadProperty per declared property of every object of the device
    def readback(self):
        st = {}
        for name, (oid, obj) in self.objs.items():
            cells = {}
            for pid in obj._properties:
                r = self.rp(name, pid, NOIDX)
                if r["k"] == "val":
                    cells[pid] = {"st": "val", "e": r["e"]}
                elif r["k"] == "err" and r["c"] == "property:unknownProperty":
                    cells[pid] = {"st": "abs", "e": []}
                else:
                    cells[pid] = {"st": "err", "e": [r["k"], r["c"]]}
            st[name] = cells
        return st

    def flush(self, ev):
        """full read-back; the cells that differ from the previous one are logged with event ev"""
        calls0 = self.calls
        new = self.readback()
        for o in new:
            for p in new[o]:
                if new[o][p] != self.snap[o][p]:
                    ev["ch"].append({"o": o, "p": p, "c": new[o][p]})
        self.snap = new
        ev["nx"] += self.calls - calls0
        self.pending = None

    def step(self, op, lazy=False):
        """execute one abstract operation, return the event (operation, answers, store differences).
        lazy: the full read-back after a run of consecutive read-type operations (read / rpm / scan) is made once, after
        the last of them (before the next write, or at the end of the trace) and logged with that last operation."""
        if lazy and getattr(self, "pending", None) is not None and op["op"] == "write":
            self.flush(self.pending)
        ev = {"op": op["op"], "o": op.get("o", ""), "p": op.get("p", ""), "i": op.get("i", NOIDX), "x": dict(NOVAL),
              "pr": op.get("pr", 0), "refs": [], "res": dict(NORES), "rb": dict(NORES), "out": [], "ch": []}
        calls0 = self.calls
        if op["op"] == "read":
            ev["res"] = self.rp(op["o"], op["p"], op["i"])
        elif op["op"] == "write":
            gv = op["gv"]
            ev["x"] = gv.abstract()
            ev["res"] = self.wp(op["o"], op["p"], op["i"], gv, op.get("pr", 0))
            if ev["res"]["k"] == "ack":
                ev["rb"] = self.rp(op["o"], op["p"], op["i"])
        elif op["op"] == "rpm":
            ev["refs"] = [{"o": o, "p": p, "i": i} for o, p, i in op["refs"]]
            ev["res"], ev["out"] = self.rpm(op["refs"])
        elif op["op"] == "scan":
            ev["res"], ev["out"] = self.scan(op["o"], op["p"])
        else:
            raise ValueError(op)
        ev["nx"] = self.calls - calls0          # request/response exchanges of this step (operation + read-backs)
        if lazy and op["op"] != "write":
            self.pending = ev
        else:
            self.flush(ev)
        return ev

    def start(self):
        self.pending = None
        self.snap = self.readback()
        return self.snap

    def schema(self):
        return {name: schema_of(obj) for name, (oid, obj) in self.objs.items()}


def default_token(dt):
    """token of the element ArrayOf.fix_length pads a growing array with"""
    sub = dt.subtype
    try:
        if dt.prototype is not None:
            proto = dt.prototype
            return hexof(tags_of(sub(proto) if issubclass(sub, Atomic) else proto))
        if issubclass(sub, Atomic):
            return hexof(tags_of(sub(sub().value)))
        return hexof(tags_of(sub()))
    except Exception:
        return "?unencodable"


def schema_of(obj):
    """the declared schema of an object, in the vocabulary of ObjStore.tla -- read off the working tree's classes"""
    d = collections.OrderedDict()
    for pid, prop in obj._properties.items():
        dt = prop.datatype
        kind = kind_of(dt)
        d[str(pid)] = {"kind": kind, "ty": tytag(sub_of(dt)), "opt": bool(prop.optional), "mut": bool(prop.mutable),
                       "fix": dt.fixed_length if (kind == "array" and dt.fixed_length is not None) else -1,
                       "dflt": default_token(dt) if kind == "array" else ""}
    return {"order": [str(p) for p in obj._properties], "d": d}


# ---- value generation from datatype classes (rendering layer: small value tables, no oracle) -----------------------------
ATOMS = {
    "Boolean": [True, False], "Unsigned": [0, 1, 2, 3, 7], "Integer": [0, 1, -1, 5], "Real": [0.0, 1.5, -2.0],
    "Double": [0.0, 2.5], "OctetString": [b"", b"\x01\x02"], "CharacterString": ["", "a", "bc"],
    "BitString": [[], [1, 0, 1]], "Date": [(120, 6, 15, 1), (99, 12, 31, 5)], "Time": [(12, 30, 0, 0), (1, 2, 3, 4)],
    "ObjectIdentifier": [("analogValue", 1), ("device", 2)], "Null": [()],
}
BASIC = [Real, Unsigned, CharacterString, Boolean, Integer]


class GenFail(Exception):
    pass


def gen_atomic(dt, rng):
    if issubclass(dt, Enumerated):
        names = sorted(k for k in dt.enumerations if isinstance(k, str))
        return dt(rng.choice(names[:8])) if names else dt(rng.choice([0, 1, 2]))
    if issubclass(dt, BitString) and getattr(dt, "bitLen", None):
        return dt([rng.randint(0, 1) for _ in range(dt.bitLen)])
    for base in dt.__mro__:
        if base.__name__ in ATOMS:
            return dt(rng.choice(ATOMS[base.__name__]))
    raise GenFail("no value table for %s" % dt.__name__)


def raw(elem, klass):
    """the representation bacpypes keeps for an element of type klass inside objects / sequences"""
    if issubclass(klass, Atomic) and not issubclass(klass, AnyAtomic):
        return elem.value
    return elem


def gen_elem(dt, rng, depth=0):
    """one encodable instance of datatype dt"""
    if depth > 5:
        raise GenFail("too deep")
    if issubclass(dt, AnyAtomic):
        return gen_atomic(rng.choice(BASIC), rng)
    if issubclass(dt, Atomic):
        return gen_atomic(dt, rng)
    if dt is Any or issubclass(dt, Any):
        return Any(gen_atomic(rng.choice(BASIC), rng))
    if issubclass(dt, Array):
        n = dt.fixed_length if dt.fixed_length is not None else rng.randint(0, 2)
        return dt([raw(gen_elem(dt.subtype, rng, depth + 1), dt.subtype) for _ in range(n)])
    if issubclass(dt, List) or dt in cd._sequence_of_classes:
        return dt([raw(gen_elem(dt.subtype, rng, depth + 1), dt.subtype) for _ in range(rng.randint(0, 2))])
    if issubclass(dt, Choice):
        els = list(dt.choiceElements)
        if depth >= 3:
            els = [e for e in els if is_atomicish(e.klass)] or els
        el = rng.choice(els)
        inst = dt()
        setattr(inst, el.name, field(el.klass, rng, depth))
        return inst
    if issubclass(dt, Sequence):
        inst = dt()
        for el in dt.sequenceElements:
            if el.optional and (depth >= 2 or rng.random() < 0.6):
                continue
            setattr(inst, el.name, field(el.klass, rng, depth))
        return inst
    raise GenFail("cannot generate %s" % dt.__name__)


def field(klass, rng, depth):
    v = gen_elem(klass, rng, depth + 1)
    if (klass in cd._sequence_of_classes) or (klass in cd._list_of_classes):
        return v.value
    return raw(v, klass)


def roundtrips(elem, dt):
    """does the library's own codec reproduce the encoding of this element (C03's business; only filters inputs)"""
    try:
        tags = tags_of(elem)
        h = hexof(tags)
        a = Any()
        a.tagList.extend(tags)
        back = a.cast_out(dt)
        if issubclass(dt, AnyAtomic):
            return True
        if issubclass(dt, Atomic):
            back = dt(back)
        return hexof(tags_of(back)) == h
    except Exception:
        return False


def gen_valid_elem(dt, rng):
    for _ in range(8):
        try:
            e = gen_elem(dt, rng)
        except GenFail:
            raise
        except Exception:
            continue
        tags = tags_of(e) if roundtrips(e, dt) else None
        if tags is None:
            continue
        if len(tags) == 1 and tags[0].tagClass == Tag.applicationTagClass and tags[0].tagNumber == Tag.nullAppTag:
            continue        # a bare Null is the "relinquish" marker of WriteProperty, not a value
        return e
    raise GenFail("no round-tripping value for %s" % dt.__name__)


def first_tags(dt, depth=0):
    """(application tag numbers a non-empty encoding of dt can start with ('*' = any), can the encoding be empty)"""
    if depth > 8:
        return {"*"}, True
    if issubclass(dt, AnyAtomic):
        return {"*"}, False
    if issubclass(dt, Atomic):
        return {dt._app_tag}, False
    if dt is Any or (isinstance(dt, type) and issubclass(dt, Any)):
        return {"*"}, True
    if issubclass(dt, (Array, List)) or dt in cd._sequence_of_classes:
        return first_tags(dt.subtype, depth + 1)[0], True
    if issubclass(dt, Choice):
        tags = set()
        for el in dt.choiceElements:
            if el.context is None:
                tags |= first_tags(el.klass, depth + 1)[0]
        return tags, False
    if issubclass(dt, Sequence):
        tags = set()
        for el in dt.sequenceElements:
            if el.context is not None:
                if not el.optional:
                    return tags, False
                continue
            t, emp = first_tags(el.klass, depth + 1)
            tags |= t
            if not el.optional and not emp:
                return tags, False
        return tags, True
    return {"*"}, True


WRONG_POOL = [Real(1.5), CharacterString("w"), Unsigned(7), Boolean(True), Integer(-3), Null(), Date((120, 6, 15, 1)),
              OctetString(b"\x09"), ObjectIdentifier(("binaryValue", 3)), Enumerated(1), Double(2.5)]


def wrong_atomic(sub, rng, want_unsigned_slot=False):
    """an atomic value that certainly is not an encoding of datatype sub (its application tag cannot start one)"""
    tags, _ = ({Tag.unsignedAppTag}, False) if want_unsigned_slot else first_tags(sub)
    if "*" in tags:
        cands = [Null()] if (issubclass(sub, AnyAtomic) or want_unsigned_slot) else []
    else:
        cands = [w for w in WRONG_POOL if w._app_tag not in tags]
    if not cands:
        return None
    return rng.choice(cands)


def surplus_is_wrong(sub):
    """a constructed scalar type behind whose value an extra application-tagged value cannot belong to it: a Choice, or a
    Sequence whose last element is required and atomic (an optional or Any tail could legitimately take it in)"""
    try:
        if issubclass(sub, Choice):
            return True
        if issubclass(sub, Sequence) and sub.sequenceElements:
            last = sub.sequenceElements[-1]
            return (not last.optional) and isinstance(last.klass, type) and issubclass(last.klass, Atomic) \
                and not issubclass(last.klass, (Any, AnyAtomic))
    except Exception:
        pass
    return False


class Gen:
    """generator of operations for one device content (objects o1 [under test] and o2 [bystander] of one class)"""

    def __init__(self, dev, rng, names):
        self.dev, self.rng, self.names = dev, rng, names
        self.obj = dev.objs[names[0]][1]
        self.props = list(self.obj._properties.items())
        self.pids = [str(p) for p, _ in self.props]
        self.unknown_props = [k for k in sorted(k for k in PropertyIdentifier.enumerations if isinstance(k, str))
                              if k not in self.obj._properties and k not in SELECTORS]
        t, n = names[0].rsplit("_", 1)
        self.unknown_obj = "%s_%d" % (t, 4000)
        dev.alias[self.unknown_obj] = (self.obj.objectIdentifier[0], 4000)
        self.arrays = [str(p) for p, pr in self.props if issubclass(pr.datatype, Array)]
        self.mutable = [str(p) for p, pr in self.props if pr.mutable]
        self.nogen = set()

    def length(self, o, p):
        c = self.dev.snap.get(o, {}).get(p)
        return len(c["e"]) if c and c["st"] == "val" else 0

    def pick_obj(self):
        r = self.rng.random()
        return self.unknown_obj if r < 0.05 else self.names[1] if (r < 0.17 and len(self.names) > 1) else self.names[0]

    def pick_prop(self, prefer=None):
        r = self.rng.random()
        if r < 0.06 and self.unknown_props:
            return self.rng.choice(self.unknown_props)
        if prefer and r < 0.7:
            return self.rng.choice(prefer)
        return self.rng.choice(self.pids)

    def pick_index(self, o, p):
        dt = self.dev.datatype(o, p)
        r = self.rng.random()
        if dt is not None and issubclass(dt, Array):
            n = self.length(o, p)
            if r < 0.30:
                return NOIDX
            if r < 0.45:
                return 0
            if r < 0.75 and n:
                return self.rng.randint(1, n)
            if r < 0.88:
                return n + 1
            return self.rng.choice([BIGIDX, n + 2, 255, 65536])
        if r < 0.85:
            return NOIDX
        return self.rng.choice([0, 1, 2, BIGIDX])

    def value(self, o, p, i):
        """a value for a write to (o, p, i): mostly of the right datatype, sometimes wrong in one of several ways"""
        rng = self.rng
        dt = self.dev.datatype(o, p) if o in self.dev.objs else self.dev.datatype(self.names[0], p)
        if dt is None:
            return GV([gen_atomic(rng.choice(BASIC), rng)], "none")
        kind, sub = kind_of(dt), sub_of(dt)
        ty = tytag(sub)

        def elem():
            e = gen_valid_elem(sub, rng)
            return e, (APP_TAG[e._app_tag] if issubclass(sub, AnyAtomic) else ty)
        wrong = rng.random() < 0.3
        slot0 = kind == "array" and i == 0
        try:
            if not wrong:
                if slot0:
                    n = dt.fixed_length if (dt.fixed_length is not None and rng.random() < 0.5) else rng.randint(0, 4)
                    return GV([Unsigned(n)], "unsigned", n)
                if kind == "scalar" or (kind == "array" and i != NOIDX):
                    e, t = elem()
                    return GV([e], t)
                n = dt.fixed_length if (kind == "array" and dt.fixed_length is not None) else rng.randint(0, 3)
                es = [elem() for _ in range(n)]
                if len(set(t for e, t in es)) > 1:      # AnyAtomic elements of different types: keep them homogeneous
                    es = [es[0]] * len(es)
                return GV([e for e, t in es], es[0][1] if es else "none")
            how = rng.random()
            w = wrong_atomic(sub, rng, want_unsigned_slot=slot0)
            single = slot0 or kind == "scalar" or (kind == "array" and i != NOIDX)
            if single:
                if how < 0.6 and w is not None:
                    return GV([w], APP_TAG[w._app_tag])
                if how < 0.8 and is_atomicish(sub) and not slot0:
                    e, t = elem()
                    e2, t2 = elem()
                    return GV([e, e2], t)                       # too many components
                if how < 0.85 and w is not None and not slot0 and surplus_is_wrong(sub):
                    e, t = elem()
                    return GV([e, w], t)                        # a well-formed value of the type, then a surplus component
                if how < 0.9 and is_atomicish(sub):
                    return GV([], "none")                       # no component at all
                return GV([Null()], "null")
            if kind == "array" and dt.fixed_length is not None and how < 0.4:
                n = rng.choice([x for x in range(0, dt.fixed_length + 2) if x != dt.fixed_length][-3:])
                es = [elem() for _ in range(n)]
                return GV([e for e, t in es], es[0][1] if es else "none")     # fixed-length array of another length
            if w is None or isinstance(w, Null) and how < 0.5:
                return GV([Null()], "null")
            n = dt.fixed_length if (kind == "array" and dt.fixed_length is not None) else rng.randint(1, 3)
            # an element of the wrong type -- in FIRST position: its application tag cannot start an element, whereas
            # behind an element it could be taken for an optional trailing component of that element (e.g. NameValue)
            es = [w] + [elem()[0] for _ in range(n - 1)]
            return GV(es, "mixed" if len(es) > 1 else APP_TAG[w._app_tag])
        except GenFail:
            self.nogen.add(p)
            w = wrong_atomic(sub, rng) or Null()
            return GV([w], APP_TAG[w._app_tag])

    def op(self):
        rng = self.rng
        r = rng.random()
        if r < 0.50:
            o = self.pick_obj()
            p = self.pick_prop(prefer=self.mutable)
            i = self.pick_index(o if o in self.dev.objs else self.names[0], p)
            gv = self.value(o, p, i)
            pr = rng.choice([0, 0, 0] + list(range(1, 17)))
            return {"op": "write", "o": o, "p": p, "i": i, "gv": gv, "pr": pr}
        if r < 0.68:
            o = self.pick_obj()
            p = self.pick_prop(prefer=self.arrays if rng.random() < 0.6 else None)
            return {"op": "read", "o": o, "p": p, "i": self.pick_index(o if o in self.dev.objs else self.names[0], p)}
        if r < 0.86 or not self.arrays:
            refs = []
            for _ in range(rng.randint(1, 4)):
                o = self.pick_obj()
                if rng.random() < 0.3:
                    refs.append((o, rng.choice(SELECTORS), rng.choice([NOIDX] * 8 + [0, 1])))
                else:
                    p = self.pick_prop(prefer=self.arrays if rng.random() < 0.4 else None)
                    refs.append((o, p, self.pick_index(o if o in self.dev.objs else self.names[0], p)))
            return {"op": "rpm", "refs": refs}
        present = [p for p in self.arrays if self.dev.snap[self.names[0]][p]["st"] != "abs"]
        return {"op": "scan", "o": self.names[0], "p": rng.choice(present or self.arrays)}


# ---- objects --------------------------------------------------------------------------------------------------------------
FROZEN = ("objectIdentifier", "objectName", "objectType")
_twins = {}


def twin_of(cls):
    """the class with every property (but the identifying ones) declared mutable: same datatypes, same optionality"""
    if cls not in _twins:
        props = [Property(p.identifier, p.datatype, default=p.default, optional=p.optional, mutable=True)
                 for pid, p in cls._properties.items()
                 if pid not in FROZEN and type(p) in (OptionalProperty, ReadableProperty, WritableProperty, Property)]
        t = type(cls.__name__ + "W", (cls,), {"properties": props})
        register_object_type(t, vendor_id=999)
        _twins[cls] = t
    return _twins[cls]


def populate(cls, inst, rng, fill):
    """an instance whose properties hold generated values (a fraction `fill` of them; the rest stays without value)"""
    obj = cls(objectIdentifier=(cls.objectType, inst), objectName="%s-%d" % (cls.__name__, inst))
    notes = []
    for pid, prop in cls._properties.items():
        if pid in FROZEN or rng.random() >= fill:
            continue
        dt = prop.datatype
        try:
            kind, sub = kind_of(dt), sub_of(dt)
            if kind == "scalar":
                v = raw(gen_valid_elem(dt, rng), dt)
            else:
                n = dt.fixed_length if (kind == "array" and dt.fixed_length is not None) else rng.randint(0, 3)
                items = [raw(gen_valid_elem(sub, rng), sub) for _ in range(n)]
                v = dt(items) if kind == "array" else items
            setattr(obj, pid, v)
        except GenFail as e:
            notes.append((str(pid), "nogen: %s" % e))
        except Exception as e:
            notes.append((str(pid), "init: %s: %s" % (type(e).__name__, e)))
    return obj, notes


def settle(dev, notes_out, label):
    """first read-back; a generated initial value that cannot be read back is withdrawn (reported as an observation)"""
    st = dev.start()
    again = False
    for o, cells in st.items():
        for p, c in cells.items():
            if c["st"] == "err" or (c["st"] == "val" and any(t.startswith("?") for t in c["e"])):
                notes_out.append((label, p, "initial value not readable: %s" % (c["e"],)))
                dev.objs[o][1]._values[p] = None
                again = True
    if again:
        st = dev.start()
    return st


# ---- recording ------------------------------------------------------------------------------------------------------------
HANGS = [0]


def record(dev, ops_iter, maxlen=100000, lazy=False):
    """ops_iter yields abstract operations (it may look at dev.snap); returns the events"""
    evs = []
    for op in ops_iter:
        if HANGS[0] >= 3 or len(evs) >= maxlen:
            break
        try:
            evs.append(dev.step(op, lazy))
        except Hang:
            HANGS[0] += 1
            evs.append({"hang": True, "op": op["op"], "o": op.get("o", ""), "p": op.get("p", ""), "i": op.get("i", NOIDX)})
            vt.reset(vt.now)
            break
    else:
        if lazy and dev.pending is not None:
            with watchdog(60):
                dev.flush(dev.pending)
    return evs


def t_trace(job):
    """one random trace over one class: job = (tid, class name, twin?, trace seed, number of operations)"""
    tid, cname, twin, tseed, nops = job
    rng = random.Random(tseed)
    cls = [c for (t, v), c in bo.registered_object_types.items() if v == 0 and c.__name__ == cname][0]
    use = twin_of(cls) if twin else cls
    dev = Device()
    notes = []
    try:
        o1, n1 = populate(use, 1, rng, 0.8)
        o2, n2 = populate(use, 2, rng, 0.5)
    except Exception as e:
        return {"tid": tid, "cls": cname, "twin": twin, "ctor": "%s: %s" % (type(e).__name__, e), "evs": [], "notes": []}
    t = str(cls.objectType)
    names = ["%s_1" % t, "%s_2" % t]
    try:
        dev.install([(names[0], o1), (names[1], o2)])
        st0 = settle(dev, notes, cname)
        schema = dev.schema()
        gen = Gen(dev, rng, names)

        def ops():
            for p in gen.arrays:                            # prologue: walk over every array that has a value
                if dev.snap[names[0]][p]["st"] != "abs":
                    yield {"op": "scan", "o": names[0], "p": p}
            for _ in range(nops):
                yield gen.op()
        evs = record(dev, ops(), lazy=True)
        notes += [(cname, p, n) for p, n in n1 + n2] + [(cname, p, "nogen") for p in sorted(gen.nogen)]
    finally:
        dev.clear()
    return {"tid": tid, "cls": cname, "twin": twin, "ctor": None, "schema": schema, "st0": st0, "evs": evs,
            "notes": sorted(set(notes)), "replay": {"kind": "T", "cls": cname, "twin": twin, "tseed": tseed, "nops": nops}}


def run_pool(fn, jobs):
    if IMPL_WORKERS <= 1 or len(jobs) <= 1:
        return [fn(j) for j in jobs]
    import multiprocessing as mp
    ctx = mp.get_context("fork")
    with ctx.Pool(min(IMPL_WORKERS, len(jobs))) as pool:
        return pool.map(fn, jobs, chunksize=1)


# ---- the small store on a real device (R) ---------------------------------------------------------------------------------
class ComputedProperty(Property):
    """a property whose value is computed by its ReadProperty (the pattern of the library's own protocolServicesSupported /
    activeCovSubscriptions and of its RandomAnalogValue samples): nothing is kept in the object's value table"""

    def __init__(self, identifier, datatype, token):
        Property.__init__(self, identifier, datatype, default=None, optional=True, mutable=False)
        self.token = token

    def ReadProperty(self, obj, arrayIndex=None):
        if arrayIndex is not None:
            raise ExecutionError(errorClass="property", errorCode="propertyIsNotAnArray")
        return self.token


@register_object_type(vendor_id=999)
class StoreObject(Object):
    """realises the kinds of the abstract store with real bacpypes datatypes: writable scalar, read-only scalar
    (objectName), writable array, writable fixed-length array, writable list, optional property without value"""
    objectType = 300
    properties = [
        WritableProperty("description", CharacterString),
        WritableProperty("stateText", ArrayOf(CharacterString)),
        WritableProperty("eventMessageTexts", ArrayOf(CharacterString, 2)),
        WritableProperty("subordinateAnnotations", ListOf(CharacterString)),
        WritableProperty("dateList", ArrayOf(DateRange)),          # an array of constructed elements
        OptionalProperty("deviceType", CharacterString),
        ComputedProperty("profileName", CharacterString, "a"),    # read-only, optional, computed on every read
    ]


def store_objects():
    out = []
    for inst in (1, 2):
        o = StoreObject(objectIdentifier=(300, inst), objectName="store-%d" % inst, description="a",
                        stateText=ArrayOf(CharacterString)(["a", "b"]),
                        eventMessageTexts=ArrayOf(CharacterString, 2)(["a", "a"]), subordinateAnnotations=["a"],
                        dateList=ArrayOf(DateRange)([DateRange(startDate=(120, 1, 1, 3), endDate=(120, 1, 31, 5))]))
        for prop in [p for pid, p in list(o._properties.items())
                     if pid in ("auditLevel", "auditableOperations", "tags", "profileLocation")]:
            o.delete_property(prop)         # keep the store small (Object.delete_property is the library's own API)
        out.append(("s%d" % inst, o))
    return out


def store_device():
    dev = Device()
    dev.install(store_objects())
    dev.alias["s9"] = (300, 9)
    return dev


class RAlphabet:
    """the operation alphabet of the R configuration, with the concrete values behind the tokens"""

    def __init__(self, schema):
        cs = lambda s: CharacterString(s)
        self.values = [GV([cs("a")], "characterString"), GV([cs("b")], "characterString"), GV([Real(1.5)], "real"),
                       GV([], "none"), GV([cs("b"), cs("a")], "characterString"), GV([Unsigned(0)], "unsigned", 0),
                       GV([Unsigned(3)], "unsigned", 3), GV([Null()], "null")]
        self.by_key = {json.dumps(g.abstract(), sort_keys=True): g for g in self.values}
        self.objs = ["s1", "s9"]
        self.props = list(schema["s1"]["order"]) + ["units"]
        self.idx = [NOIDX, 0, 1, 2, 3]
        o, u = "s1", "s9"
        single = [(o, "description", NOIDX), (o, "stateText", NOIDX), (o, "stateText", 0), (o, "stateText", 1),
                  (o, "stateText", 3), (o, "deviceType", NOIDX), (o, "units", NOIDX), (o, "description", 1),
                  (o, "propertyList", NOIDX), (o, "subordinateAnnotations", NOIDX), (o, "subordinateAnnotations", 1),
                  (u, "description", NOIDX), (o, "all", NOIDX), (o, "required", NOIDX), (o, "optional", NOIDX),
                  (u, "all", NOIDX), ("s2", "all", NOIDX), (o, "all", 0), (o, "optional", 1)]
        self.refs = [[r] for r in single] + [
            [(o, "description", NOIDX), (o, "stateText", 2)], [(o, "stateText", 1), (o, "all", NOIDX)],
            [(o, "required", NOIDX), (o, "optional", NOIDX)], [(o, "units", NOIDX), (u, "required", NOIDX), (o, "stateText", 0)],
            [(o, "all", NOIDX), ("s2", "stateText", NOIDX), ("s2", "deviceType", NOIDX)]]
        self.schema = schema

    def acts(self):
        """every operation of the alphabet as an act record of ObjStore.tla"""
        def act(op, o="", p="", i=NOIDX, x=None, pr=0, refs=()):
            return {"op": op, "o": o, "p": p, "i": i, "x": x or dict(NOVAL), "pr": pr,
                    "refs": [{"o": a, "p": b, "i": c} for a, b, c in refs]}
        out = []
        for o in self.objs:
            for p in self.props:
                for i in self.idx:
                    out.append(act("read", o, p, i))
                    for g in self.values:
                        out.append(act("write", o, p, i, g.abstract()))
        for refs in self.refs:
            out.append(act("rpm", refs=refs))
        for p, d in self.schema["s1"]["d"].items():
            if d["kind"] == "array":
                out.append(act("scan", "s1", p))
        return out

    def render(self, act):
        """an act record -> operation with the concrete value"""
        if act["op"] == "write":
            x = {"e": list(act["x"]["e"]), "ty": act["x"]["ty"], "n": act["x"]["n"]}
            return {"op": "write", "o": act["o"], "p": act["p"], "i": act["i"], "gv": self.by_key[json.dumps(x, sort_keys=True)],
                    "pr": act["pr"]}
        if act["op"] == "rpm":
            return {"op": "rpm", "refs": [(r["o"], r["p"], r["i"]) for r in act["refs"]]}
        return {"op": act["op"], "o": act["o"], "p": act["p"], "i": act["i"]}


def store_key(st):
    return json.dumps(st, sort_keys=True)


def plain(v):
    """TLA+ value parsed by tlaval (tuples) -> JSON-able"""
    if isinstance(v, dict):
        return {k: plain(x) for k, x in v.items()}
    if isinstance(v, (tuple, list)):
        return [plain(x) for x in v]
    return v


def r_run(acts):
    """executes a list of act records on a fresh store device; returns the trace"""
    dev = store_device()
    try:
        alpha = RAlphabet(dev.schema())
        st0 = dev.start()
        schema = dev.schema()
        evs = record(dev, [alpha.render(a) for a in acts])
        return {"schema": schema, "st0": st0, "evs": evs, "final": store_key(dev.snap)}
    finally:
        dev.clear()


def r_walks(job):
    """job = (tid0, path [act records], store key, [act records]): executes every operation of the list from the store
    the path leads to; an operation that changes the store ends the walk (the next walk starts afresh)"""
    tid0, path, key, todo = job
    traces = []
    todo = list(todo)
    while todo and HANGS[0] < 3:
        dev = store_device()
        try:
            alpha = RAlphabet(dev.schema())
            st0 = dev.start()
            schema = dev.schema()
            done = list(path)
            evs = record(dev, [alpha.render(a) for a in path])
            lost = store_key(dev.snap) != key or any(e.get("hang") for e in evs)
            n = 0
            while todo and n < 250 and not lost:
                a = todo.pop()
                done.append(a)
                ev = record(dev, [alpha.render(a)])[0]
                evs.append(ev)
                n += 1
                if ev.get("hang") or store_key(dev.snap) != key:
                    break
            traces.append({"tid": tid0 + len(traces), "schema": schema, "st0": st0, "evs": evs, "lost": lost,
                           "replay": {"kind": "R", "acts": done}})
            if lost:
                break
        finally:
            dev.clear()
    return traces


# ---- TLC configurations ------------------------------------------------------------------------------------------------------
def abstract_config():
    """the abstract store of the design check: 2 objects x 5 properties"""
    def decl(kind, opt=False, mut=True, fix=-1):
        return {"kind": kind, "ty": "A", "opt": opt, "mut": mut, "fix": fix, "dflt": "d" if kind == "array" else ""}
    d = collections.OrderedDict([("pa", decl("scalar")), ("pr", decl("scalar", mut=False)), ("pv", decl("array")),
                                 ("pl", decl("list")), ("po", decl("scalar", opt=True, mut=False))])
    sch = {o: {"order": list(d), "d": d} for o in ("o1", "o2")}

    def cell(*e):
        return {"st": "val", "e": list(e)}
    st0 = {"o1": {"pa": cell("a"), "pr": cell("a"), "pv": cell("a", "b"), "pl": cell("a"), "po": {"st": "abs", "e": []}},
           "o2": {"pa": cell("b"), "pr": cell("b"), "pv": cell("b"), "pl": cell(), "po": {"st": "abs", "e": []}}}
    vals = [{"e": ["a"], "ty": "A", "n": -1}, {"e": ["b"], "ty": "A", "n": -1}, {"e": ["w"], "ty": "W", "n": -1},
            {"e": [], "ty": "none", "n": -1}, {"e": ["b", "a"], "ty": "A", "n": -1},
            {"e": ["n0"], "ty": "unsigned", "n": 0}, {"e": ["n2"], "ty": "unsigned", "n": 2}]
    tokty = {"a": "A", "b": "A", "d": "A", "w": "W", "n0": "unsigned", "n2": "unsigned"}
    o, u = "o1", "ox"
    single = [(o, "pa", NOIDX), (o, "pv", NOIDX), (o, "pv", 0), (o, "pv", 1), (o, "pv", 3), (o, "po", NOIDX),
              (o, "px", NOIDX), (o, "pa", 1), (u, "pa", NOIDX), (o, "all", NOIDX), (o, "required", NOIDX),
              (o, "optional", NOIDX), (u, "all", NOIDX), ("o2", "all", NOIDX), (o, "all", 0)]
    refs = [[r] for r in single] + [[(o, "pa", NOIDX), (o, "pv", 2)], [(o, "pv", 1), (o, "all", NOIDX)],
                                    [(o, "required", NOIDX), (o, "optional", NOIDX)],
                                    [(o, "px", NOIDX), (u, "required", NOIDX), ("o2", "pv", 0)]]
    return dict(schema=sch, st0=st0, vals=vals, tokty=tokty, objs=["o1", "o2", "ox"], props=list(d) + ["px"],
                idx=[NOIDX, 0, 1, 2, 3], refs=refs)


def mc_files(name, c, maxlevel, prios=(0,), dev=False, wtr=None, path_view=False, check=True, invariants=True):
    refs = [[{"o": o, "p": p, "i": i} for o, p, i in rs] for rs in c["refs"]]
    defs = collections.OrderedDict([
        ("Schema", tla(c["schema"])), ("Store0", tla(c["st0"])), ("TokTy", tla(c["tokty"])),
        ("OpVals", "{" + ", ".join("[e |-> %s, ty |-> %s, n |-> %d]" % (tla(v["e"]), tla(v["ty"]), v["n"]) for v in c["vals"]) + "}"),
        ("OpRefs", "{" + ", ".join("<<" + ", ".join("[o |-> %s, p |-> %s, i |-> %d]" % (tla(r["o"]), tla(r["p"]), r["i"])
                                                    for r in rs) + ">>" for rs in refs) + "}"),
        ("OpIdx", "{" + ", ".join(str(i) for i in c["idx"]) + "}"),
        ("WrongTypeRefusals", "{" + ", ".join(tla(list(w)) for w in (wtr or WRONG_TYPE_REFUSALS[:2])) + "}"),
    ])
    consts = collections.OrderedDict([
        ("OpObjs", "{" + ", ".join(tla(o) for o in c["objs"]) + "}"), ("OpProps", "{" + ", ".join(tla(p) for p in c["props"]) + "}"),
        ("OpPrios", "{" + ", ".join(str(p) for p in prios) + "}"), ("MaxLevel", str(maxlevel)),
        ("Dev_ValidateAfterAssign", "TRUE" if dev else "FALSE")])
    body = "---- MODULE %s ----\nEXTENDS ObjStore\n" % name
    for k, v in defs.items():
        body += "c_%s == %s\n" % (k, v)
    if path_view:
        body += ("VARIABLE path\nInitP == Init /\\ path = <<>>\nNextP == Next /\\ path' = Append(path, act')\n"
                 "SpecP == InitP /\\ [][NextP]_<<vars, path>>\nViewP == val\n")
    body += "====\n"
    lines = ["CONSTANTS"] + ["  %s <- c_%s" % (k, k) for k in defs] + ["  %s = %s" % (k, v) for k, v in consts.items()]
    if path_view:
        lines += ["SPECIFICATION SpecP", "VIEW ViewP", "CONSTRAINT Bound", "CHECK_DEADLOCK FALSE", "INVARIANT Shape"]
    else:
        lines += ["SPECIFICATION Spec", "VIEW ViewVal", "CONSTRAINT Bound", "CHECK_DEADLOCK FALSE"]
        if check:
            lines += (["INVARIANT Shape", "INVARIANT Typed", "INVARIANT ReadOnlyStable"] if invariants else []) + ["PROPERTY " + m for m in MONITORS]
    return {name + ".tla": body}, "\n".join(lines) + "\n"


def run_mc(chk, name, c, maxlevel, expect_error=None, timeout=900, **kw):
    files, cfg = mc_files("MCgen_" + name, c, maxlevel, **kw)
    res = tlc.run_tlc("MCgen_" + name, cfg_text=cfg, files=files, timeout=timeout, name="ObjStore/" + name)
    if expect_error is None:
        chk.tlc(res)
        if res["error_kind"]:
            tlc.machinery_failure("design model %s violates %s\n%s" % (name, res["error"], res["output"][-3000:]))
    else:
        if res["error"] not in expect_error and res["error_kind"] not in ("invariant", "action_property", "property", "temporal", "assert"):
            tlc.machinery_failure("sanity: deviation config %s should violate %s, got %r\n%s" % (
                name, expect_error, res["error"], res["output"][-2000:]))
        chk.extra.setdefault("sanity", []).append("config %s with Dev_ValidateAfterAssign violates %s as expected (%d states)" % (
            name, res["error"], res["distinct"]))
    return res


def r_config(dev):
    schema = dev.schema()
    alpha = RAlphabet(schema)
    st0 = dev.start()
    tokty = {}
    for g in alpha.values:
        for t in g.toks:
            tokty[t] = g.ty
    for o in st0:
        for p, c in st0[o].items():
            for t in c["e"]:
                tokty.setdefault(t, schema[o]["d"][p]["ty"])
    for o in schema:
        for p, d in schema[o]["d"].items():
            if d["kind"] == "array":
                tokty.setdefault(d["dflt"], d["ty"])
    return alpha, dict(schema=schema, st0=st0, vals=[g.abstract() for g in alpha.values], tokty=tokty, objs=alpha.objs,
                       props=alpha.props, idx=alpha.idx, refs=alpha.refs)


def reachable_stores(chk, c, maxlevel):
    """TLC: the distinct stores reachable within maxlevel-1 operations of the R alphabet, each with one operation path"""
    files, cfg = mc_files("MCgen_R", c, maxlevel, path_view=True)
    wd = tlc.workdir("dot")
    dot = os.path.join(wd, "g")
    try:
        res = tlc.run_tlc("MCgen_R", cfg_text=cfg, files=files, timeout=900, dump_dot=dot, name="ObjStore/R-stores")
        if res["error_kind"] or not res["finished"]:
            tlc.machinery_failure("store enumeration failed: %s\n%s" % (res["error"], res["output"][-3000:]))
        nodes, edges, init = tlaval.parse_dot(dot + ".dot")
    finally:
        shutil.rmtree(wd, ignore_errors=True)
    chk.tlc(res)
    chk.tlc_runs[-1]["mode"] = "stores (VIEW val)"
    return [(store_key(plain(st["val"])), plain(st["path"])) for n, st in nodes.items()]


# ---- trace validation ----------------------------------------------------------------------------------------------------------
EV_KEYS = ("op", "o", "p", "i", "x", "pr", "refs", "res", "rb", "out", "ch")


def validate(chk, traces, label):
    """runs Trace_ObjStore over the traces (dicts with tid / schema / st0 / evs); returns {tid: verdict}"""
    verdicts = {}
    batches, batch, size = [], [], 0
    for t in traces:
        batch.append(t)
        size += len(t["evs"]) + 1
        if size > 40000:
            batches.append(batch)
            batch, size = [], 0
    if batch:
        batches.append(batch)
    body = "---- MODULE TRgen ----\nEXTENDS Trace_ObjStore\nc_WTR == {%s}\n====\n" % ", ".join(tla(list(w)) for w in WRONG_TYPE_REFUSALS)
    cfg = ("CONSTANTS\n  WrongTypeRefusals <- c_WTR\n  Schema = {}\n  Store0 = {}\n  TokTy = {}\n  OpObjs = {}\n  OpProps = {}\n"
           "  OpIdx = {}\n  OpVals = {}\n  OpPrios = {}\n  OpRefs = {}\n  MaxLevel = 0\n  Dev_ValidateAfterAssign = FALSE\n"
           "SPECIFICATION TSpec\nCHECK_DEADLOCK FALSE\n")
    for bi, batch in enumerate(batches):
        wd = tlc.workdir("tr")
        tf = os.path.join(wd, "traces.ndjson")
        with open(tf, "w") as f:
            for t in batch:
                evs = [{k: e[k] for k in EV_KEYS} for e in t["evs"]]
                f.write(json.dumps({"tid": t["tid"], "schema": t["schema"], "st0": t["st0"], "evs": evs}) + "\n")
        try:
            res = tlc.run_tlc("TRgen", cfg_text=cfg, files={"TRgen.tla": body},
                              workers=min(8, int(os.environ.get("VERIF_TLC_WORKERS", "16"))), timeout=1800,
                              env={"TRACE_FILE": tf}, name="Trace_ObjStore/%s/%d" % (label, bi))
        finally:
            shutil.rmtree(wd, ignore_errors=True)
        if res["error_kind"] or not res["finished"]:
            tlc.machinery_failure("trace validation run failed: %s\n%s" % (res["error"], res["output"][-3000:]))
        got = {v["tid"]: v for v in tlc.printed_values(res["output"])}
        if len(got) != len(batch):
            tlc.machinery_failure("trace validation returned %d verdicts for %d traces\n%s" % (len(got), len(batch), res["output"][-2000:]))
        verdicts.update(got)
        chk.extra["trace_validation_states"] = chk.extra.get("trace_validation_states", 0) + res["distinct"]
    return verdicts


def classify(t, m, ev, pre):
    """signature of a monitor failure: which kind of property / request / answer"""
    sch = t["schema"]
    o, p = ev["o"], ev["p"]
    d = sch.get(o, {}).get("d", {}).get(p)
    sig = {"class": t.get("cls", "StoreObject"), "twin": bool(t.get("twin")), "prop": p,
           "kind": d["kind"] if d else "undeclared", "elem": (d["ty"] if d else ""), "index": "none" if ev["i"] == NOIDX else
           "0" if ev["i"] == 0 else "k"}
    cell = pre.get(o, {}).get(p)
    sig["cell_before"] = cell["st"] if cell else "none"
    sig["elem_class"] = ("" if not d else "atomic" if d["ty"] in APP_TAG.values() or d["ty"] == "anyAtomic" else "constructed")
    if m == "ReadYourWrite":
        after = [c for c in ev["ch"] if c["o"] == o and c["p"] == p]
        sig["case"] = ("acknowledged_write_not_readable" if (ev["rb"]["k"] not in ("val", "len") or (after and after[0]["c"]["st"] != "val"))
                       else "acknowledged_write_reads_back_differently")
        sig["value"] = ev["x"]["ty"]
    elif m == "RefusalChangesNothing":
        sig["case"] = "refused_write_changed_state"
        sig["answer"] = "%s:%s" % (ev["res"]["k"], ev["res"]["c"])
        sig["changed"] = sorted(set("%s" % c["p"] for c in ev["ch"]))[:4]
    elif m == "MatchingError":
        sig["case"] = "%s_with_fault_answered_%s" % (ev["op"], ev["res"]["k"])
        sig["answer"] = "%s:%s" % (ev["res"]["k"], ev["res"]["c"])
        sig["value"] = ev["x"]["ty"]
    elif m == "ArrayIndexing" and ev["op"] == "read":
        sig["case"] = "indexed_read_answered_%s" % ev["res"]["k"]
    elif m == "ArrayIndexing":
        ks = [el["r"]["k"] for el in ev["out"]]
        sig["case"] = ("index0_not_length" if not ks or ks[0] != "len" else
                       "element_not_readable" if any(k not in ("val",) for k in ks[1:-2]) else
                       "whole_read_differs" if ev["res"]["k"] == "val" else "whole_read_refused")
    elif m == "RPMEqualsRP":
        bad = [el for el in ev["out"] if el["r"] != el["rp"]]
        sig["prop"] = bad[0]["p"] if bad else ""
        d2 = sch.get(bad[0]["o"], {}).get("d", {}).get(bad[0]["p"]) if bad else None
        sig["kind"] = d2["kind"] if d2 else "undeclared"
        sig["elem"] = d2["ty"] if d2 else ""
        sig["elem_class"] = ("" if not d2 else "atomic" if d2["ty"] in APP_TAG.values() or d2["ty"] == "anyAtomic" else "constructed")
        sig["case"] = ("rpm_refused" if ev["res"]["k"] != "rpmack" else
                       "element_differs_from_readproperty:%s_vs_%s" % (bad[0]["r"]["k"], bad[0]["rp"]["k"]) if bad else "selector_expansion")
        sig.pop("index", None)
        sig["cell_before"] = "err" if any(c["st"] == "err" for cells in pre.values() for c in cells.values()) else "val"
    return sig


def state_before(t, l):
    st = {o: dict(cells) for o, cells in t["st0"].items()}
    for e in t["evs"][:l - 1]:
        for c in e["ch"]:
            st[c["o"]][c["p"]] = c["c"]
    return st


def judge(chk, traces, label, seen):
    """hangs, TLC verdicts -> violations / deviations / accepted traces"""
    runnable = []
    for t in traces:
        if t["evs"] and t["evs"][-1].get("hang"):
            ev = t["evs"].pop()
            chk.violation("Terminates", {"class": t.get("cls", "StoreObject"), "op": ev["op"], "prop": ev["p"]},
                          {"what": "no answer within 10 s", "step": len(t["evs"]) + 1, "event": ev}, t["replay"])
        runnable.append(t)
    if not runnable:
        return
    verdicts = validate(chk, runnable, label)
    for t in runnable:
        v = verdicts[t["tid"]]
        for e in t["evs"]:
            if e["op"] == "write":
                chk.monitor("ReadYourWrite", 1 if e["res"]["k"] == "ack" else 0)
                chk.monitor("RefusalChangesNothing", 0 if e["res"]["k"] == "ack" else 1)
                chk.monitor("MatchingError", 0 if e["res"]["k"] == "ack" else 1)
            elif e["op"] == "read":
                chk.monitor("MatchingError", 1 if e["res"]["k"] in ("err", "rej", "abort") else 0)
                chk.monitor("ArrayIndexing", 1 if e["i"] != NOIDX else 0)
            elif e["op"] == "scan":
                chk.monitor("ArrayIndexing", len(e["out"]))
            elif e["op"] == "rpm":
                chk.monitor("RPMEqualsRP", len(e["out"]))
        if v["viol"]:
            tainted = []        # (object, property, monitor, sig) of listed findings that happened earlier in this trace
            for m, l in sorted(v["viol"], key=lambda x: (x[1], x[0])):
                ev = t["evs"][l - 1]
                pre = state_before(t, l)
                sig = classify(t, m, ev, pre)
                # what follows a listed finding in the same history, on the object it left unreadable, is that finding
                # again and not a new one: the cell is still in the state the finding produced
                touched = {ev["o"]} | {r["o"] for r in ev.get("refs", [])} | {el["o"] for el in ev.get("out", [])}
                cons = [x for x in tainted if x[0] in touched and pre.get(x[0], {}).get(x[1], {}).get("st") == "err"]
                if cons:
                    chk.violation(cons[0][2], cons[0][3], {"consequence_at_step": l})      # counted as a hit of that finding
                    chk.extra["steps_behind_a_listed_finding_not_judged"] = chk.extra.get("steps_behind_a_listed_finding_not_judged", 0) + 1
                    continue
                if chk.known_id(m, sig):
                    tainted.append((ev["o"], ev["p"], m, sig))
                gkey = (m, sig.get("case"), sig.get("kind"), sig.get("elem_class"), sig.get("index"), sig.get("value"),
                        sig.get("cell_before"), sig.get("twin"), sig.get("answer"), sig["prop"] if sig["prop"] in FROZEN else "")
                chk.extra.setdefault("violation_classes", {})
                ck = "%s/%s/%s/cell=%s" % (m, sig.get("case"), sig.get("kind"), sig.get("cell_before"))
                chk.extra["violation_classes"][ck] = chk.extra["violation_classes"].get(ck, 0) + 1
                if gkey in seen:
                    continue
                seen.add(gkey)
                detail = {"class": t.get("cls", "StoreObject"), "twin": bool(t.get("twin")), "step": l,
                          "event": {k: ev[k] for k in EV_KEYS},
                          "cell_before": pre.get(ev["o"], {}).get(ev["p"]),
                          "declared": t["schema"].get(ev["o"], {}).get("d", {}).get(ev["p"]),
                          "first_step_rejected_by_design": v["rej"],
                          "prefix": [[e["op"], e["o"], e["p"], e["i"], e["x"]["e"], e["res"]["k"] + ":" + e["res"]["c"]] for e in t["evs"][max(0, l - 6):l]]}
                chk.violation(m, sig, detail, dict(t["replay"], step=l))
        elif v["rej"]:
            l = v["rej"]
            ev = t["evs"][l - 1]
            pre = state_before(t, l)
            chk.deviation({"class": t.get("cls", "StoreObject"), "twin": bool(t.get("twin")), "tid": t["tid"], "step": l,
                           "event": {k: ev[k] for k in EV_KEYS}, "cell_before": pre.get(ev["o"], {}).get(ev["p"]),
                           "declared": t["schema"].get(ev["o"], {}).get("d", {}).get(ev["p"]),
                           "replay": t["replay"] if t["replay"]["kind"] == "T" else {"kind": "R", "acts": t["replay"]["acts"][-3:]}})
        elif t.get("lost"):
            chk.deviation({"what": "the path TLC gives to a store did not lead there on the real device", "replay": t["replay"]})
        else:
            chk.traces_validated += 1


# ---------------------------------------------------------------------------------------------------------------------------------
def main(tier, seed):
    chk = Check("C15", tier, seed)
    thorough = tier == "thorough"
    chk.rule = ("model: every Read/Write/RPM/Scan sequence of ObjStore.tla up to the level bound; implementation: one evaluation = "
                "one request/response exchange decoded from the wire (operations, read-backs after writes, per-element "
                "ReadProperty after RPM, the full read-back of every declared property after every operation); distinct = "
                "(class, twin?, operation kind, property, index class, value class, answer) combinations; non-trivial = "
                "everything except plain successful reads without index")
    chk.assumptions = [
        "values are compared as the hex of their encoded tag lists (per element); element boundaries of arrays/lists of "
        "constructed elements are found with the client-side decoder of the same library",
        "wrong-typed values are atomic values whose application tag cannot start an encoding of the target datatype, Null, "
        "an empty value or two components for an atomic scalar, a fixed-length array of another length",
        "the all-writable twin of a class re-declares every property (but objectIdentifier/objectName/objectType) with "
        "bacpypes.object.Property(..., mutable=True) and is registered for vendor 999: the declared schema the property is "
        "relative to is the twin's",
        "commandable present values are property C17's business: the registered (vendor 0) classes are not commandable; "
        "priorities are passed through and not judged",
        "TLC exhaustive up to the stated level bound only; longer histories by trace validation of random runs"]

    phases = chk.extra.setdefault("phase_wall_s", {})

    def phase(name, t0=[time.time()]):
        phases[name] = round(time.time() - t0[0], 1)
        t0[0] = time.time()

    # D: the design satisfies the property
    c = abstract_config()
    # (VIEW ViewVal: states are identified by the store; level bound 99 > diameter = the full closure: every reachable
    # store and every operation of the alphabet from each of them, i.e. operation sequences of ANY length)
    run_mc(chk, "abstract", c, 99, prios=(0, 16) if thorough else (0,), timeout=1500)
    run_mc(chk, "abstract_dev", c, 3, dev=True, invariants=False, expect_error=("RefusalChangesNothing",))

    phase("D_model_checking")

    # R: edge cover of the small store on a real device
    dev = store_device()
    alpha, rc = r_config(dev)
    allops = alpha.acts()
    dev.clear()
    stores = reachable_stores(chk, rc, 3 if thorough else 2)
    jobs = []
    tid0 = 1000000
    rrng = random.Random(seed + 15)
    for key, path in sorted(stores, key=lambda s: (len(s[1]), s[0])):
        # every operation of the alphabet from the stores within one operation of the initial one; a seeded third of
        # the alphabet from the stores further away (thorough tier)
        ops = allops if len(path) <= 1 else rrng.sample(allops, len(allops) // 3)
        per = 400
        for a in range(0, len(ops), per):
            jobs.append((tid0, path, key, ops[a:a + per]))
            tid0 += 1000
    rtraces = [t for ts in run_pool(r_walks, jobs) for t in ts]
    for t in rtraces:
        for e in t["evs"]:
            if not e.get("hang"):
                note_case(chk, "StoreObject", False, e, t["schema"])
    chk.extra["replay"] = {"stores": len(stores), "alphabet": len(allops), "walks": len(rtraces),
                           "steps_executed_on_impl": sum(len(t["evs"]) for t in rtraces)}
    phase("R_execution")
    seen = set()
    judge(chk, rtraces, "R", seen)
    phase("R_trace_validation")

    # T: random traces over every registered object type (as declared, and all-writable)
    rng = random.Random(seed)
    classes = sorted((c.__name__ for (t, v), c in bo.registered_object_types.items() if v == 0))
    chk.extra["registered_object_types"] = len(classes)
    per_class, nops = (8, 30) if thorough else (1, 20)
    jobs = []
    tid = 0
    for cname in classes:
        for twin in (False, True):
            for k in range(per_class):
                tid += 1
                jobs.append((tid, cname, twin, rng.randrange(2 ** 30), nops))
    ttraces = run_pool(t_trace, jobs)
    notes = collections.Counter()
    runnable = []
    for t in ttraces:
        for n in t["notes"]:
            notes[json.dumps(n)] += 1
        if t["ctor"]:
            chk.extra.setdefault("not_instantiable", {})[t["cls"]] = t["ctor"]
            continue
        runnable.append(t)
        for e in t["evs"]:
            if not e.get("hang"):
                note_case(chk, t["cls"], t["twin"], e, t["schema"])
    chk.extra["observations"] = {"value_generation_or_initialisation": [json.loads(k) for k, n in sorted(notes.items())][:60],
                                 "count": len(notes)}
    for t in runnable[:2]:
        e = [e for e in t["evs"] if e["op"] == "write"][:2]
        chk.sample({"class": t["cls"], "twin": t["twin"], "events": [{k: x[k] for k in ("op", "o", "p", "i", "x", "pr", "res", "rb", "ch")} for x in e]})
    phase("T_execution")
    judge(chk, runnable, "T", seen)
    phase("T_trace_validation")
    answers = collections.Counter()
    for t in rtraces + runnable:
        for e in t["evs"]:
            if e.get("op") == "write":
                answers["%s:%s" % (e["res"]["k"], e["res"]["c"])] += 1
    chk.extra["write_answers"] = dict(sorted(answers.items()))
    chk.extra["documented_wrong_type_refusals"] = ["%s:%s" % w for w in WRONG_TYPE_REFUSALS]
    return chk.finish()


def note_case(chk, cname, twin, e, schema):
    d = schema.get(e["o"], {}).get("d", {}).get(e["p"])
    icls = "none" if e["i"] == NOIDX else "0" if e["i"] == 0 else "k"
    n = 1 + (1 if e["rb"]["k"] != "none" else 0) + 2 * len(e["out"]) + sum(len(s["order"]) for s in schema.values())
    trivial = e["op"] == "read" and e["i"] == NOIDX and e["res"]["k"] == "val"
    chk.case((cname, twin, e["op"], e["p"], icls, e["x"]["ty"], e["res"]["k"], e["res"]["c"], d["kind"] if d else "-"),
             nontrivial=not trivial, n=n)


def replay(path):
    body = json.load(open(path))
    rp = body["replay"]
    chk = Check("C15", "quick", body.get("seed", 0))
    if rp["kind"] == "T":
        t = t_trace((1, rp["cls"], rp["twin"], rp["tseed"], rp["nops"]))
        upto = rp.get("step") or len(t["evs"])
        for e in t["evs"][max(0, upto - 4):upto]:
            print(json.dumps({k: e[k] for k in EV_KEYS if k in e})[:1500])
        judge(chk, [t], "replay", set())
    else:
        t = r_run(rp["acts"])
        t.update(tid=1, replay=rp, lost=False)
        upto = rp.get("step") or len(t["evs"])
        for e in t["evs"][max(0, upto - 4):upto]:
            print(json.dumps({k: e[k] for k in EV_KEYS if k in e})[:1500])
        judge(chk, [t], "replay", set())
    return chk.finish()
