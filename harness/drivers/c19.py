"""C19 -- Routing knowledge stays coherent: one next hop per destination, newest wins.   (spec/RouteCache.tla)

D  TLC exhaustive on RouteCache.tla at the property's quantifier (2 source networks x 3 routers x 4 destinations,
   every argument set, all histories up to the level bound) with the deviation flags off: Coherent, TypeOK,
   NoEmptyRouter, NewestWins, DeleteExact.  Each named deviation switched on must violate the matching formula.
R  TLC dumps the labelled state graph of smaller argument grids; an edge cover of it is executed (a) on a real
   RouterInfoCache through its methods and (b) on a real NetworkServiceAccessPoint + NetworkServiceElement on
   one or two vlan.Networks, where learning happens through I-Am-Router-To-Network frames, routed traffic carrying
   SADR and Network-Number-Is frames sent by router stations; after every step the two indexes are read back
   (public containers + get_router_info) and, for the node, a probe packet to every destination network is sent
   and the frames the node emits are captured.
T  seeded random histories of length 300 on both levels.
   Every recorded execution is validated by TLC (Trace_RouteCache.tla): conformance step by step and the monitors
   Coherent, NewestWins, DeleteExact, TrafficFollowsKnowledge evaluated on the logged states.  Steps behind a step
   that broke coherence are not judged; they are re-covered by a second round of executions that avoid the
   operation classes found violating (exploration past a finding).
"""
import os, sys, json, random, collections, shutil, subprocess, time
from common import Check, VERIF, WORK, Hang, watchdog
import tlc, tlaval
import vtime

vt = vtime.install()
import bacpypes.core as core
from bacpypes.comm import Client, bind
from bacpypes.pdu import Address, LocalBroadcast, LocalStation, RemoteStation, PDU
from bacpypes.npdu import NPDU, IAmRouterToNetwork, NetworkNumberIs, npdu_types
from bacpypes.apdu import APDU, WhoIsRequest
from bacpypes.vlan import Network, Node
from bacpypes.netservice import RouterInfoCache, NetworkServiceAccessPoint, NetworkServiceElement

# ---- rendering of abstract values (trusted base: two dictionaries and their inverses) -------------------------
SN = {1: 101, 2: 33002}                  # abstract source network -> BACnet network number
DN = {1: 11, 2: 40000, 3: 13, 4: 65534}  # abstract destination network -> network number (two of them beyond 32767)
MAC = {1: 21, 2: 22, 3: 23}              # abstract router address -> MAC on the vlan
NODE_MAC, PROBE_MAC, SADR_MAC, SENDER_MAC = 1, 5, 9, 99
SN_INV = {v: k for k, v in SN.items()}
DN_INV = {v: k for k, v in DN.items()}
TRANSIT_MAC = 77                         # a station on the node's first network whose packets the node forwards
MAC_INV = {v: k for k, v in MAC.items()}
FOREIGN = 1000                            # anything that is not the image of an abstract value


def abs_int(inv, v):
    if v in inv:
        return inv[v]
    return FOREIGN + (v if isinstance(v, int) and not isinstance(v, bool) and 0 <= v < 100000 else 999)


def abs_addr(a):
    try:
        if a.addrType == Address.localStationAddr and len(a.addrAddr) == 1:
            return abs_int(MAC_INV, a.addrAddr[0])
    except Exception:
        pass
    return FOREIGN + 998


def project(cache, attached):
    """the two indexes of a RouterInfoCache as abstract values; `attached` = abstract ids of the attached networks"""
    routers = []
    for s, rs in cache.routers.items():
        for key, ri in rs.items():
            routers.append([abs_int(SN_INV, s), abs_addr(key),
                            sorted([abs_int(DN_INV, d), st if isinstance(st, int) and 0 <= st < 100 else 99]
                                   for d, st in ri.dnets.items())])
    keys = [k for k in cache.path_info.keys()]
    for s in SN.values():
        for d in DN.values():
            if (s, d) not in cache.path_info:
                keys.append((s, d))
    path = []
    for k in keys:
        if not (isinstance(k, tuple) and len(k) == 2):
            path.append([FOREIGN + 997, FOREIGN + 997, FOREIGN + 997])
            continue
        ri = cache.get_router_info(k[0], k[1])          # the public lookup
        if ri is not None:
            # last field: 1 if the lookup returns a record that is not the one the router index holds for that address
            # (a "ghost": same address, separate bookkeeping -- the two indexes only seem to agree)
            ghost = 0 if cache.routers.get(k[0], {}).get(getattr(ri, "address", None)) is ri else 1
            path.append([abs_int(SN_INV, k[0]), abs_int(DN_INV, k[1]), abs_addr(getattr(ri, "address", None)), ghost])
    return {"routers": sorted(routers), "path": sorted(path), "attached": sorted(attached)}


def opclass(op):
    """class of an operation for signatures: (op, how the router is named)"""
    if op["op"] == "del_dnets":
        return ("del_dnets", "given" if op["a"] else "none")
    return (op["op"], "-")


def mkop(op, s=0, a=0, ds=(), x=0, via=""):
    return {"op": op, "s": s, "a": a, "ds": list(ds), "x": x, "via": via}


# ---- level 1: a bare RouterInfoCache driven through its methods ------------------------------------------------
class CacheRig:
    level = "cache"

    def __init__(self, attached0):
        self.cache = RouterInfoCache()
        self.attached = set(attached0)

    def apply(self, o):
        c, op = self.cache, o["op"]
        s = SN[o["s"]]
        if op == "update":
            c.update_router_info(s, Address(MAC[o["a"]]), [DN[d] for d in o["ds"]], o["x"])
        elif op == "del_router":
            c.delete_router_info(s, Address(MAC[o["a"]]))
        elif op == "del_dnets":
            c.delete_router_info(s, Address(MAC[o["a"]]) if o["a"] else None, [DN[d] for d in o["ds"]])
        elif op == "renumber":
            self.attached = (self.attached - {o["s"]}) | {o["x"]}
            c.update_source_network(s, SN[o["x"]])
        elif op == "status":
            c.update_router_status(s, Address(MAC[o["a"]]), o["x"])
        else:
            raise ValueError(op)
        return ""

    def proj(self):
        return project(self.cache, self.attached)

    def probe(self):
        return []

    def parked(self):
        return []

    pk = {"before": [], "released": [], "waiting": []}


# ---- level 2: a real node (NSAP + NSE on vlans) fed with network-layer frames -----------------------------------
class Sink(Client):
    def __init__(self):
        Client.__init__(self)
        self.got = 0

    def confirmation(self, pdu):
        self.got += 1


class Lan:
    def __init__(self, rig, idx):
        self.net = Network("lan%d" % idx, broadcast_address=LocalBroadcast())
        self.net.traffic_log = lambda name, pdu, self=self: rig.log.append((self, pdu))
        self.node = Node(Address(NODE_MAC), self.net)
        # the router stations: one harness-owned vlan node that sends with the MAC of router a as source address
        # (vlan.Node(spoofing=True)); what the node under test emits is captured by the LAN's traffic log
        self.sender = Sink()
        bind(self.sender, Node(Address(SENDER_MAC), self.net, spoofing=True))
        self.adapter = None


class NodeRig:
    """node under test: NetworkServiceAccessPoint + NetworkServiceElement with one port per initially attached
    network; on every LAN the router stations' frames are injected by a harness-owned vlan Node"""
    level = "node"
    pk = {"before": [], "released": [], "waiting": []}
    keep_parked = False       # ParkedNodeRig: probes that found no route stay parked in pending_nets across operations

    def __init__(self, attached0):
        vt.reset(0.0)
        self.log = []
        self.nsap = NetworkServiceAccessPoint()
        self.nse = NetworkServiceElement()
        bind(self.nse, self.nsap)
        self.app = Sink()
        bind(self.app, self.nsap)
        self.lans = []
        att = sorted(attached0)
        for i, s in enumerate(att):
            lan = Lan(self, i)
            # two ports: configured numbers; one port: the number is learned from a Network-Number-Is (set-up
            # frame below), so that later Network-Number-Is frames can change it
            net = SN[s] if len(att) > 1 else None
            before = set(self.nsap.adapters.values())
            self.nsap.bind(lan.node, net, Address(NODE_MAC))
            lan.adapter = [a for a in self.nsap.adapters.values() if a not in before][0]
            self.lans.append(lan)
        self.run()
        if len(att) == 1:
            self.send(self.lans[0], 1, NetworkNumberIs(net=SN[att[0]], flag=0))
        del self.log[:]
        self.nerr = len(vt.errors)

    def run(self):
        vt.step_all(limit=10000)

    def send(self, lan, a, npdu, dest=None, sadr=None, dadr=None, src_mac=None):
        x = NPDU()
        npdu.encode(x)
        if sadr is not None:
            x.npduSADR = sadr
        if dadr is not None:
            x.npduDADR, x.npduHopCount = dadr, 255
        p = PDU()
        x.encode(p)
        p.pduSource = Address(MAC[a] if src_mac is None else src_mac)
        p.pduDestination = dest or LocalBroadcast()
        lan.sender.request(p)
        self.run()

    def lan_of(self, s):
        for lan in self.lans:
            if lan.adapter.adapterNet == SN[s]:
                return lan
        return None

    def attached(self):
        return [abs_int(SN_INV, k) for k in self.nsap.adapters.keys()]

    def apply(self, o):
        op = o["op"]
        nerr = len(vt.errors)
        lan = self.lan_of(o["s"])
        if lan is None:
            return "harness:no-port-with-that-number"
        if op == "update":
            if o["via"] == "sadr":
                # routed traffic: an APDU from a station on the destination network, forwarded by router a
                ap = WhoIsRequest()
                ap.pduDestination = LocalStation(bytes([NODE_MAC]))
                x = APDU()
                ap.encode(x)
                self.send(lan, o["a"], x, dest=Address(NODE_MAC), sadr=RemoteStation(DN[o["ds"][0]], SADR_MAC))
            elif o["via"] == "iam-unicast":
                self.send(lan, o["a"], IAmRouterToNetwork([DN[d] for d in o["ds"]]), dest=Address(NODE_MAC))
            else:
                self.send(lan, o["a"], IAmRouterToNetwork([DN[d] for d in o["ds"]]))
        elif op == "del_router":
            self.nsap.delete_router_references(SN[o["s"]], Address(MAC[o["a"]]))
        elif op == "del_dnets":
            self.nsap.delete_router_references(SN[o["s"]], Address(MAC[o["a"]]) if o["a"] else None, [DN[d] for d in o["ds"]])
        elif op == "renumber":
            self.send(lan, 1 + (o["x"] % len(MAC)), NetworkNumberIs(net=SN[o["x"]], flag=0))
        elif op == "status":
            self.nsap.router_info_cache.update_router_status(SN[o["s"]], Address(MAC[o["a"]]), o["x"])
        else:
            raise ValueError(op)
        if len(vt.errors) > nerr:           # the event loop swallowed an exception raised while handling the frame
            return vt.errors[-1][1].split("(")[0]
        return ""

    def proj(self):
        return project(self.nsap.router_info_cache, self.attached())

    def probe(self):
        """one application packet to a station on every destination network; what the node puts on the wire"""
        out = []
        self.was_parked = []
        for d in sorted(DN):
            del self.log[:]
            self.was_parked.append(1 if DN[d] in self.nsap.pending_nets else 0)
            ap = WhoIsRequest()
            ap.pduDestination = RemoteStation(DN[d], PROBE_MAC)
            ems = []
            try:
                self.app.request(ap)
                self.run()
            except Exception:
                ems.append(["raised", 0, 0])        # the node could not send at all
            for lan, pdu in self.log:
                ems.append(self.classify(lan, pdu, d))
            if not self.keep_parked:
                self.nsap.pending_nets.clear()        # un-park the probe: the next probe starts from scratch
            out.append(ems)
        del self.log[:]
        self.transit = self.probe_transit()
        return out

    def probe_transit(self):
        """a node with two ports is a router: one packet of a station on the first port for a station on every destination
        network, handed to the node for forwarding -- where does it send it on?"""
        if len(self.lans) != 2:
            return {"tin": 0, "em": []}
        lan = self.lans[0]
        tin = abs_int(SN_INV, lan.adapter.adapterNet)
        out = []
        for d in sorted(DN):
            del self.log[:]
            ap = WhoIsRequest()
            ap.pduDestination = LocalStation(bytes([NODE_MAC]))
            x = APDU()
            ap.encode(x)
            ems = []
            try:
                self.send(lan, 0, x, dest=Address(NODE_MAC), dadr=RemoteStation(DN[d], PROBE_MAC), src_mac=TRANSIT_MAC)
            except Exception:
                ems.append(["raised", 0, 0])
            for l2, pdu in self.log:
                c = self.classify(l2, pdu, d, transit=True)
                if c[0] != "echo":
                    ems.append(c)
            out.append(ems)
        del self.log[:]
        return {"tin": tin, "em": out}

    def parked(self):
        """per destination network: was an earlier packet for it still parked when the last probe was sent"""
        return self.was_parked

    def classify(self, lan, pdu, d, transit=False):
        s = abs_int(SN_INV, lan.adapter.adapterNet)
        other = ["other", s, 0]
        try:
            if transit and pdu.pduSource == Address(TRANSIT_MAC):
                return ["echo", s, 0]               # the injected frame itself on the traffic log
            if pdu.pduSource != Address(NODE_MAC):
                return other
            n = NPDU()
            n.decode(PDU(pdu.pduData, source=pdu.pduSource, destination=pdu.pduDestination))
            bcast = pdu.pduDestination.addrType == Address.localBroadcastAddr
            if n.npduNetMessage is None:
                if (n.npduDADR is not None and n.npduDADR.addrType == Address.remoteStationAddr and n.npduDADR.addrNet == DN[d]
                        and n.npduDADR.addrAddr == bytes([PROBE_MAC]) and bool(n.npduSADR) == transit and not bcast):
                    return ["data", s, abs_addr(pdu.pduDestination)]
                return other
            if n.npduNetMessage == 0 and bcast and not n.npduDADR:
                w = npdu_types[0]()
                w.decode(n)
                if w.wirtnNetwork == DN[d]:
                    return ["whois", s, 0]
        except Exception:
            pass
        return other


HANGS = [0]


def record(rigcls, attached0, ops):
    """execute a history on the real code; one event per operation with the projected post-state"""
    if HANGS[0] >= 3:
        return []
    evs = []
    try:
        with watchdog(20 + len(ops) // 10):
            rig = rigcls(attached0)
            for o in ops:
                try:
                    exc = rig.apply(o)
                except Exception as e:
                    exc = type(e).__name__
                ev = dict(o, exc=exc, st=rig.proj())
                ev["probe"] = rig.probe()
                ev["parked"] = rig.parked()
                ev["pk"] = rig.pk
                ev["tr"] = getattr(rig, "transit", None) or {"tin": 0, "em": []}
                ev.setdefault("via", "")
                evs.append(ev)
    except Hang:
        HANGS[0] += 1
        last = evs[-1]["st"] if evs else {"routers": [], "path": [], "attached": list(attached0)}
        evs.append(dict(ops[len(evs)], exc="Hang", st=last, probe=[], parked=[], via="", pk=CacheRig.pk, tr={"tin": 0, "em": []}, hang=True))
    return evs


# ---- TLC configurations --------------------------------------------------------------------------------------------
def tla_set(xs):
    return "{" + ", ".join(str(x) for x in sorted(xs)) + "}"


def tla_sets(sets):
    return "{" + ", ".join(tla_set(s) for s in sets) + "}"


FULL = dict(snets=[1, 2], addrs=[1, 2, 3], dnets=[1, 2, 3, 4], statuses=[0], att=[[1], [2], [1, 2]], upd=None, dels=None)


def mc_cfg(c, maxlevel, empty=False, drops=False, fails=False, view=True, invs=("TypeOK", "Coherent", "NoEmptyRouter"),
           props=("NewestWins", "DeleteExact")):
    dn = tla_set(c["dnets"])
    defs = {"AttachedInits": tla_sets(c["att"]),
            "UpdSets": "SUBSET " + dn if c["upd"] is None else tla_sets(c["upd"]),
            "DelSets": "(SUBSET %s) \\ {{}}" % dn if c["dels"] is None else tla_sets(c["dels"])}
    consts = {"SNets": tla_set(c["snets"]), "Addrs": tla_set(c["addrs"]), "DNets": dn, "Statuses": tla_set(c["statuses"]),
              "MaxLevel": str(maxlevel), "Dev_EmptyUpdateCreatesRouter": str(bool(empty)).upper(),
              "Dev_DeleteDnetsDropsRouter": str(bool(drops)).upper(), "Dev_DeleteDnetsNoAddrFails": str(bool(fails)).upper()}
    lines = ["SPECIFICATION BoundedSpec", "CHECK_DEADLOCK FALSE"] + (["VIEW NoActView"] if view else [])
    lines += ["INVARIANT " + i for i in invs] + ["PROPERTY " + p for p in props]
    return defs, consts, lines


def run_mc(chk, name, c, maxlevel, expect_error=None, dump=None, timeout=1500, **kw):
    defs, consts, lines = mc_cfg(c, maxlevel, **kw)
    files, cfg = tlc.mc_wrapper("MCgen_rc_" + name, "RouteCache", defs, lines, consts)
    # graph dumps with one worker: the level bound then cuts at the same states on every run (reproducible walks)
    res = tlc.run_tlc("MCgen_rc_" + name, cfg_text=cfg, files=files, timeout=timeout, dump_dot=dump, name="RouteCache/" + name,
                      workers=1 if dump else None)
    if expect_error is None:
        chk.tlc(res)
        if res["error_kind"]:
            tlc.machinery_failure("design model %s violates %s\n%s" % (name, res["error"], res["output"][-2500:]))
    else:
        if res["error"] not in expect_error and res["error_kind"] not in ("invariant", "action_property", "property", "temporal", "assert"):
            tlc.machinery_failure("sanity: deviation config %s should violate %s, got %r\n%s" % (
                name, expect_error, res["error"], res["output"][-1500:]))
        chk.extra.setdefault("sanity", []).append("config %s: the named deviation violates %s as expected (%d states)" % (
            name, res["error"], res["distinct"]))
    return res


# ---- R: spec -> code ------------------------------------------------------------------------------------------------
class Graph:
    def __init__(self, name, nodes, edges):
        self.name, self.nodes = name, nodes
        self.succ = collections.defaultdict(list)
        seen = set()
        for u, v in edges:
            if (u, v) not in seen:
                seen.add((u, v))
                self.succ[u].append(v)
        self.nedges = len(seen)
        self.inits = sorted(n for n, st in nodes.items() if st["act"]["op"] == "init")

    def op(self, v):
        a = self.nodes[v]["act"]
        return mkop(a["op"], a["s"], a["a"], sorted(a["ds"]), a["x"])

    def bfs(self, init, avoid=frozenset()):
        """shortest paths from init; edges of an avoided operation class are used only where nothing else reaches"""
        parent = {init: None}
        for allowed_all in ([False, True] if avoid else [True]):
            dq = collections.deque(parent.keys())
            while dq:
                u = dq.popleft()
                for v in self.succ[u]:
                    if v not in parent and (allowed_all or opclass(self.op(v)) not in avoid):
                        parent[v] = u
                        dq.append(v)
        return parent

    @staticmethod
    def path_to(parent, u):
        p = []
        while parent[u] is not None:
            p.append(u)
            u = parent[u]
        return p[::-1]

    def cover(self, need=None, avoid=frozenset()):
        """walks (init, [nodes]) that together traverse every edge (or every edge of `need`); with `avoid`, a walk
        ends right after an edge of an avoided operation class"""
        walks = []
        done = set()
        for init in self.inits:
            parent = self.bfs(init, avoid)
            todo = collections.defaultdict(list)
            for u in parent:
                for v in self.succ[u]:
                    if (u, v) not in done and (need is None or (u, v) in need):
                        done.add((u, v))
                        todo[u].append(v)
            depth = {u: len(self.path_to(parent, u)) for u in todo}
            for start in sorted(todo, key=lambda u: (depth[u], u)):
                while todo[start]:
                    walk = self.path_to(parent, start)
                    u = start
                    while todo[u]:
                        v = todo[u].pop()
                        walk.append(v)
                        u = v
                        if avoid and opclass(self.op(v)) in avoid:
                            break
                    walks.append((init, walk))
        return walks


def dump_graph(chk, name, c, maxlevel):
    wd = tlc.workdir("dot")
    dot = os.path.join(wd, "g")
    try:
        run_mc(chk, name, c, maxlevel, dump=dot, empty=True, view=False, invs=("TypeOK", "Coherent"), props=("NewestWins", "DeleteExact"))
        nodes, edges, _ = tlaval.parse_dot(dot + ".dot")
    finally:
        shutil.rmtree(wd, ignore_errors=True)
    return Graph(name, nodes, edges)


def with_via(ops, rng):
    """choose how an announcement reaches the node: I-Am-Router-To-Network broadcast / unicast, or (one destination,
    status 'available') the SADR of routed traffic"""
    out = []
    for o in ops:
        o = dict(o)
        if o["op"] == "update":
            r = rng.random()
            o["via"] = "sadr" if (len(o["ds"]) == 1 and r < 0.5) else ("iam-unicast" if r > 0.85 else "iam")
        out.append(o)
    return out


# ---- T: code -> spec ------------------------------------------------------------------------------------------------
def random_history(rng, n, attached0, statuses=(0,)):
    att = set(attached0)
    ops = []
    dn = sorted(DN)
    while len(ops) < n:
        r = rng.random()
        s = rng.choice(sorted(att))
        a = rng.choice(sorted(MAC))
        k = rng.choice([1, 1, 1, 1, 2, 2, 2, 3, 3, 4])
        ds = rng.sample(dn, k)
        if r < 0.52:
            if rng.random() < 0.04:
                ds = []
            ops.append(mkop("update", s, a, ds, rng.choice(statuses)))
        elif r < 0.64:
            ops.append(mkop("del_router", s, a))
        elif r < 0.76:
            ops.append(mkop("del_dnets", s, a, ds))
        elif r < 0.85:
            ops.append(mkop("del_dnets", s, 0, ds))
        elif r < 0.93:
            free = sorted(set(SN) - att)
            if free:
                new = rng.choice(free)
                ops.append(mkop("renumber", s, 0, (), new))
                att = (att - {s}) | {new}
        else:
            ops.append(mkop("status", s, a, (), rng.choice([0, 1, 2, 3])))
    return ops


def without_classes(ops, avoid):
    """the history without the operations of the avoided classes; when a renumbering is dropped, later operations
    are re-addressed to the number the port keeps"""
    alias, out = {}, []
    for o in ops:
        o = dict(o, s=alias.get(o["s"], o["s"]))
        if o["op"] == "renumber":
            if opclass(o) in avoid:
                alias[o["x"]] = o["s"]
                continue
            alias.pop(o["x"], None)
            alias = {k: v for k, v in alias.items() if v != o["s"]}
        elif opclass(o) in avoid:
            continue
        out.append(o)
    return out


# ---- validation by TLC ------------------------------------------------------------------------------------------------
TRACE_CFG = dict(FULL, statuses=[0, 1, 2, 3], att=[[]], upd=[[]], dels=[[1]])
VERDICT_MONITORS = ("Coherent", "NewestWins", "DeleteExact", "TrafficFollowsKnowledge")


def tlc_validate(chk, traces, label):
    """traces: list of dict(tid, attached0, evs).  Returns {tid: verdict}."""
    verdicts = {}
    CH = 25000
    for off in range(0, len(traces), CH):
        chunk = traces[off:off + CH]
        wd = tlc.workdir("tr")
        tf = os.path.join(wd, "traces.ndjson")
        with open(tf, "w") as f:
            for t in chunk:
                evs = [{k: e[k] for k in ("op", "s", "a", "ds", "x", "exc", "st", "probe", "parked", "via", "pk", "tr")} for e in t["evs"]]
                f.write(json.dumps({"tid": t["tid"], "attached0": t["attached0"], "evs": evs}, separators=(",", ":")) + "\n")
        defs, consts, _ = mc_cfg(TRACE_CFG, 0, empty=True)
        files, cfg = tlc.mc_wrapper("TRgen_rc", "Trace_RouteCache", defs, ["SPECIFICATION TSpec", "CHECK_DEADLOCK FALSE"], consts)
        try:
            res = tlc.run_tlc("TRgen_rc", cfg_text=cfg, files=files, timeout=3000, env={"TRACE_FILE": tf},
                              workers=min(8, int(os.environ.get("VERIF_TLC_WORKERS", "16"))), name="Trace_RouteCache/" + label)
        finally:
            shutil.rmtree(wd, ignore_errors=True)
        if res["error_kind"] or not res["finished"]:
            tlc.machinery_failure("trace validation run failed: %s\n%s" % (res["error"], res["output"][-3000:]))
        got = {v["tid"]: v for v in tlc.printed_values(res["output"])}
        if len(got) != len(chunk):
            tlc.machinery_failure("trace validation returned %d verdicts for %d traces\n%s" % (len(got), len(chunk), res["output"][-2000:]))
        verdicts.update(got)
        chk.extra["trace_validation_states"] = chk.extra.get("trace_validation_states", 0) + res["distinct"]
    return verdicts


class Judge:
    """turns TLC's per-trace verdicts into violations / deviations / accepted traces"""

    def __init__(self, chk):
        self.chk = chk
        self.bad_classes = set()
        self.per_class = collections.Counter()
        self.reported = set()
        self.skipped_steps = 0

    def judge(self, t, v):
        """t: dict(tid, level, attached0, ops, evs); v: verdict record of TLC.  Returns the set of skipped step numbers."""
        chk = self.chk
        evs = t["evs"]
        if evs and evs[-1].get("hang"):
            chk.violation("Terminates", {"op": evs[-1]["op"], "level": t["level"]},
                          {"what": "no return within 10 s", "ops": t["ops"][:len(evs)]}, self.replay_of(t))
        skipped = set(v["skipped"])
        self.skipped_steps += len(skipped)
        for i, e in enumerate(evs):
            if (i + 1) in skipped:
                continue
            chk.monitor("Coherent")
            if e["op"] == "update":
                chk.monitor("NewestWins")
            elif e["op"] in ("del_router", "del_dnets"):
                chk.monitor("DeleteExact")
            if e["probe"]:
                chk.monitor("TrafficFollowsKnowledge")
        byname = collections.defaultdict(list)
        for m, l in v["viol"]:
            byname[m].append(l)
        real = False
        typeok = 0
        for m in sorted(byname):
            base, _, clause = m.partition(":")
            ls = sorted(byname[m])
            if base == "NoEmptyRouter":
                chk.extra["empty_router_records_created"] = chk.extra.get("empty_router_records_created", 0) + len(ls)
                continue
            if base == "TypeOK":
                typeok = ls[0]
                continue
            assert base in VERDICT_MONITORS, m
            ls = [l for l in ls if not evs[l - 1]["exc"].startswith("harness:")]
            if not ls:
                continue
            real = True
            for l in ls:
                e = evs[l - 1]
                if base == "TrafficFollowsKnowledge":
                    cls = ("probe", "-")        # the knowledge is coherent, the operation did its job: the sending is at fault
                else:
                    cls = opclass(e)
                    self.bad_classes.add(cls)
                self.per_class[(base, cls, t["level"], e["exc"])] += 1
                if (base, cls, t["level"]) in self.reported:      # one replay file per monitor, class and level
                    continue
                self.reported.add((base, cls, t["level"]))
                sig = {"op": cls[0], "addr": cls[1], "level": t["level"], "raised": e["exc"] or None}
                if cls[0] == "probe":
                    sig = {"op": "probe", "ports": len(e["st"]["attached"]), "level": t["level"]}
                pre = evs[l - 2]["st"] if l >= 2 else {"routers": [], "path": [], "attached": t["attached0"]}
                chk.violation(base, sig, {"clause": clause or base, "step": l, "call": {k: e[k] for k in ("op", "s", "a", "ds", "x", "via")},
                                          "raised": e["exc"], "state_before": pre, "state_after": e["st"],
                                          "probe": e["probe"], "rendering": {"snet": SN, "dnet": DN, "mac": MAC}},
                              self.replay_of(t, upto=l))
        if not real:
            inapplicable = [i + 1 for i, e in enumerate(evs) if e["exc"].startswith("harness:") and (i + 1) not in skipped]
            if inapplicable:
                chk.deviation({"level": t["level"], "tid": t["tid"], "step": inapplicable[0], "event": evs[inapplicable[0] - 1],
                               "what": "the node has no port with the network number the model says is attached"})
            elif typeok:
                chk.deviation({"level": t["level"], "tid": t["tid"], "what": "logged state outside the model's value sets",
                               "step": typeok, "event": evs[typeok - 1]})
            elif v["rej"]:
                l = v["rej"]
                chk.deviation({"level": t["level"], "tid": t["tid"], "step": l, "event": evs[l - 1],
                               "state_before": evs[l - 2]["st"] if l >= 2 else None})
            elif not skipped:
                chk.traces_validated += 1
        return skipped

    @staticmethod
    def replay_of(t, upto=None):
        return {"kind": "history", "level": t["level"], "attached0": t["attached0"], "ops": t["ops"][:upto]}


class ParkedNodeRig(NodeRig):
    """the same node, but packets that found no route stay parked while the history goes on: an announcement that makes
    the destination reachable must release them, and packets sent afterwards must follow the new knowledge"""
    level = "node"
    keep_parked = True

    def __init__(self, attached0):
        NodeRig.__init__(self, attached0)
        self.probe()            # park one packet per (unknown) destination network before the history starts

    def apply(self, o):
        pend = self.nsap.pending_nets
        before = [1 if DN[d] in pend else 0 for d in sorted(DN)]
        del self.log[:]
        try:
            return NodeRig.apply(self, o)
        finally:
            rel = []
            for d in sorted(DN):
                cs = [self.classify(lan, pdu, d) for lan, pdu in self.log]
                rel.append([c for c in cs if c[0] == "data"])
            self.pk = {"before": before, "released": rel, "waiting": [1 if DN[d] in pend else 0 for d in sorted(DN)]}


RIGS = {"cache": CacheRig, "node": NodeRig, "parked": ParkedNodeRig}
TID = [0]


def make_trace(level, attached0, ops, meta=None):
    TID[0] += 1
    evs = record(RIGS[level], attached0, ops)
    t = {"tid": TID[0], "level": level, "attached0": list(attached0), "ops": ops, "evs": evs}
    t.update(meta or {})
    return t


def account(chk, t, kind):
    for i, e in enumerate(t["evs"]):
        if kind == "R":
            key = ("R", t["level"], t["graph"], t["nodes"][i])
        else:
            key = (t["level"], json.dumps(e["st"], sort_keys=True), e["op"], e["a"], tuple(e["ds"]))
        nontrivial = e["op"] != "status"
        chk.case(key, nontrivial=nontrivial)


# ---- Apalache: Coherent as an inductive invariant (best effort) ------------------------------------------------------
def apalache_inductive(chk, budget=120):
    spec = os.path.join(VERIF, "spec", "RouteCacheInd.tla")
    exe = shutil.which("apalache-mc")
    if not exe or not os.path.exists(spec):
        chk.extra["apalache"] = "not run (apalache-mc or RouteCacheInd.tla missing)"
        return
    wd = tlc.workdir("apa")
    out = {}
    try:
        shutil.copy(spec, wd)
        t0 = time.time()
        for what, args in (("Init => IndInv", ["--init=Init", "--inv=IndInv", "--length=0"]),
                           ("IndInv /\\ Next => IndInv'", ["--init=IndInit", "--inv=IndInv", "--length=1"])):
            left = budget - (time.time() - t0)
            if left < 5:
                out[what] = "skipped (budget)"
                continue
            try:
                p = subprocess.run([exe, "check", "--out-dir=" + os.path.join(wd, "out"), "--run-dir=" + os.path.join(wd, "run")] + args +
                                   ["--next=Next", "RouteCacheInd.tla"], cwd=wd, stdout=subprocess.PIPE, stderr=subprocess.STDOUT, timeout=left)
                txt = p.stdout.decode("utf-8", "replace")
                if "The outcome is: NoError" in txt:
                    out[what] = "proved (bounded symbolic check, %d s)" % (time.time() - t0)
                elif "The outcome is: Error" in txt:
                    out[what] = "COUNTEREXAMPLE"
                    tlc.machinery_failure("Apalache found a counterexample to the inductive invariant of the design model\n" + txt[-2000:])
                else:
                    out[what] = "inconclusive: " + txt[-300:]
            except subprocess.TimeoutExpired:
                out[what] = "timeout"
    finally:
        shutil.rmtree(wd, ignore_errors=True)
    chk.extra["apalache_inductive_invariant"] = out


# -------------------------------------------------------------------------------------------------------------------
def run_round(chk, judge, traces, label):
    """validate traces with TLC, judge them; returns {tid: skipped steps}"""
    skipped = {}
    ts = [t for t in traces if t["evs"]]
    if ts:
        verdicts = tlc_validate(chk, ts, label)
        for t in ts:
            sk = judge.judge(t, verdicts[t["tid"]])
            if sk:
                skipped[t["tid"]] = sk
    return skipped


def main(tier, seed):
    chk = Check("C19", tier, seed)
    rng = random.Random(seed)
    thorough = tier == "thorough"
    phases = chk.extra.setdefault("phase_wall_s", {})
    tlast = [time.time()]

    def phase(name):
        phases[name] = round(time.time() - tlast[0], 1)
        tlast[0] = time.time()
    chk.rule = ("model: all histories of RouteCache.tla up to the level bound over the full argument grid; implementation: one "
                "evaluation = one operation executed on a real RouterInfoCache (method call) or on a real node (network-layer frame / "
                "NSAP call) with both indexes read back and validated by TLC; distinct = distinct (graph edge target | projected "
                "state + operation) keys; non-trivial = everything except router-status flag updates")
    chk.assumptions = [
        "Renumber(old, new) is only exercised with `new` not being the number of another port of the node (precondition of the design)",
        "frames emitted by the node are decoded with bacpypes' own NPDU decoder (codec covered by C08)",
        "the probe packets park in pending_nets when no route is known; the harness clears pending_nets after each probe round",
        "node level: deletions and the router-wide status have no network message in this stack (handlers are empty): they are "
        "invoked through NetworkServiceAccessPoint.delete_router_references / the node's cache object",
        "quick tier: the 2 x 3 x 4 universe is explored to a level bound (TLCGet(\"level\"); with several workers TLC's search is "
        "not strictly level-synchronous, a few states of the last level may stay unexpanded); the thorough tier closes that "
        "universe without a bound and adds Apalache's inductive check of Coherent"]

    # ---- D: the design satisfies the property -------------------------------------------------------------------
    # full: the property's quantifier -- 2 source networks x 3 routers x 4 destinations, every argument set.  thorough: no
    # effective level bound, TLC closes the universe (every reachable state, every transition out of it = histories of any
    # length, which includes "up to length 5"); quick: histories of 3 operations.
    # deep: a smaller universe, closed in both tiers.
    res = run_mc(chk, "full", dict(FULL) if thorough else dict(FULL, att=[[1], [1, 2]]), 99 if thorough else 3)
    chk.extra["full_universe_closed"] = bool(thorough and res["finished"] and (res["depth"] or 99) < 99)
    run_mc(chk, "deep", dict(snets=[1, 2], addrs=[1, 2], dnets=[1, 2, 3], statuses=[0], att=[[1], [1, 2]], upd=None, dels=None), 7)
    run_mc(chk, "status", dict(snets=[1, 2], addrs=[1, 2], dnets=[1, 2], statuses=[0, 1], att=[[1], [1, 2]], upd=None, dels=None),
           6 if thorough else 5)
    small = dict(snets=[1, 2], addrs=[1, 2], dnets=[1, 2, 3], statuses=[0], att=[[1], [1, 2]], upd=None, dels=None)
    run_mc(chk, "dev_drops", small, 3, expect_error=("Coherent", "DeleteExact"), drops=True)
    run_mc(chk, "dev_fails", small, 3, expect_error=("DeleteExact",), fails=True)
    run_mc(chk, "dev_empty", small, 3, expect_error=("NoEmptyRouter",), empty=True)

    phase("D_model_checking")
    # ---- R: every transition of the state graph on the real code -------------------------------------------------
    if thorough:
        # gA: 2 x 2 x 3 with six announcement sets / four deletion sets, all histories of 3 operations;
        # gB: the full 2 x 3 x 4 grid with every argument set, all histories of 2; gC: 2 x 3 x 4, few sets, histories of 3
        gA = dict(snets=[1, 2], addrs=[1, 2], dnets=[1, 2, 3], statuses=[0], att=[[1], [1, 2]],
                  upd=[[], [1], [2], [3], [1, 2], [2, 3]], dels=[[1], [2], [1, 2], [2, 3]])
        gB = dict(FULL, att=[[1], [1, 2]])
        gC = dict(FULL, att=[[1], [1, 2]], upd=[[1], [2], [1, 2], [3, 4]], dels=[[1], [2, 3]])
        graphs = [dump_graph(chk, "gA", gA, 3), dump_graph(chk, "gB", gB, 2), dump_graph(chk, "gC", gC, 3)]
    else:
        gQ = dict(snets=[1, 2], addrs=[1, 2], dnets=[1, 2, 3], statuses=[0], att=[[1], [1, 2]],
                  upd=[[], [1], [2], [1, 2], [2, 3]], dels=[[1], [2, 3]])
        graphs = [dump_graph(chk, "gQ", gQ, 3)]
    phase("R_graph_dumps")
    judge = Judge(chk)
    node_budget = 60000 if thorough else 6000       # steps on the real node (about 1 ms each)
    traces = []
    rinfo = []
    for g in graphs:
        walks = g.cover()
        steps = sum(len(w) for _, w in walks)
        stride = max(1, (steps * len(graphs)) // node_budget)
        nnode = 0
        for i, (init, w) in enumerate(walks):
            att0 = sorted(g.nodes[init]["attached"])
            ops = [g.op(v) for v in w]
            meta = {"kind": "R", "graph": g.name, "init": init, "nodes": w}
            traces.append(make_trace("cache", att0, ops, meta))
            if i % stride == 0:
                nnode += 1
                traces.append(make_trace("node", att0, with_via(ops, random.Random(seed * 1000003 + i)), meta))
                traces.append(make_trace("parked", att0, with_via(ops, random.Random(seed * 1000033 + i)), meta))
        rinfo.append({"config": g.name, "graph_nodes": len(g.nodes), "graph_edges": g.nedges, "walks": len(walks),
                      "steps_on_cache": steps, "walks_on_node": nnode})
    chk.extra["replay"] = rinfo
    for t in traces:
        account(chk, t, "R")
    phase("R_execution_on_impl")

    # ---- T: random histories ---------------------------------------------------------------------------------------
    nrand = 100 if thorough else 16
    ttraces = []
    for i in range(nrand):
        att0 = rng.choice([[1], [2], [1, 2], [1, 2]])
        ops = random_history(rng, 300, att0, statuses=(0,))
        ttraces.append(make_trace("cache", att0, ops, {"kind": "T"}))
        ttraces.append(make_trace("node", att0, with_via(ops, random.Random(seed * 7919 + i)), {"kind": "T"}))
        ttraces.append(make_trace("parked", att0, with_via(ops, random.Random(seed * 7927 + i)), {"kind": "T"}))
        if i % 2 == 0:      # the per-destination status argument exists on the method only
            ops2 = random_history(rng, 300, att0, statuses=(0, 1, 2))
            ttraces.append(make_trace("cache", att0, ops2, {"kind": "T"}))
    for t in ttraces:
        account(chk, t, "T")
        if len(chk.samples) < 2 and t["level"] == "node":
            chk.sample({"level": t["level"], "attached0": t["attached0"], "first_ops": t["ops"][:6],
                        "state_after_20": t["evs"][19]["st"], "probe_after_20": t["evs"][19]["probe"]})
    traces += ttraces
    phase("T_execution_on_impl")

    skipped = run_round(chk, judge, traces, "round1")
    phase("trace_validation_round1")

    # ---- round 2: steps that could not be judged because an earlier step broke coherence -------------------------------
    if skipped:
        avoid = frozenset(judge.bad_classes)
        chk.extra["round2"] = {"reason": "steps behind a coherence-breaking step are not judged; they are re-executed in histories "
                               "that avoid the operation classes found violating", "avoided_classes": sorted(avoid),
                               "unjudged_steps_round1": judge.skipped_steps}
        judge.skipped_steps = 0
        bytid = {t["tid"]: t for t in traces}
        traces2 = []
        for g in graphs:
            for level in ("cache", "node", "parked"):
                judged, need = set(), set()
                for t in traces:
                    if t.get("kind") == "R" and t["graph"] == g.name and t["level"] == level:
                        sk = skipped.get(t["tid"], ())
                        prev = t["init"]
                        for i, v in enumerate(t["nodes"]):
                            (need if (i + 1) in sk else judged).add((prev, v))
                            prev = v
                need -= judged
                if not need:
                    continue
                for i, (init, w) in enumerate(g.cover(need=need, avoid=avoid)):
                    att0 = sorted(g.nodes[init]["attached"])
                    ops = [g.op(v) for v in w]
                    if level != "cache":
                        ops = with_via(ops, random.Random(seed * 1000003 + i))
                    traces2.append(make_trace(level, att0, ops, {"kind": "R", "graph": g.name, "init": init, "nodes": w}))
        for t in ttraces:
            if t["tid"] in skipped:
                traces2.append(make_trace(t["level"], t["attached0"], without_classes(t["ops"], avoid), {"kind": "T"}))
        for t in traces2:
            account(chk, t, t["kind"])
        run_round(chk, judge, traces2, "round2")
        chk.extra["round2"]["traces"] = len(traces2)
        chk.extra["round2"]["still_unjudged_steps"] = judge.skipped_steps
        phase("round2")
    chk.extra["violation_classes"] = [{"monitor": k[0], "op": k[1][0], "addr": k[1][1], "level": k[2], "raised": k[3], "count": n}
                                      for k, n in sorted(judge.per_class.items())]
    if thorough:
        apalache_inductive(chk)
    else:
        chk.extra["apalache_inductive_invariant"] = "thorough tier only"
    return chk.finish()


def replay(path):
    body = json.load(open(path))
    rp = body["replay"]
    chk = Check("C19", "quick", body.get("seed", 0))
    t = make_trace(rp["level"], rp["attached0"], rp["ops"], {"kind": "T"})
    judge = Judge(chk)
    run_round(chk, judge, [t], "replay")
    for e in t["evs"][-3:]:
        print(json.dumps(e))
    return chk.finish()
