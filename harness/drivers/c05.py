"""C05 -- Segmented transfers deliver the exact payload and survive any single fault.   (spec/TSM.tla)

D  TLC exhaustive on TSM.tla (intended design = what the code does after the fix: commits): all interleavings of
   timers / frames / application and all placements of the fault budget, for 1-4 x 1-4 segments, windows 1..8 with
   9 segments, and 260 segments with SeqMod = 256 (sequence-number wrap).  Invariants: ResponseIntegrity,
   RequestIntegrity, SeqMatchesIndex (consecutive sequence numbers mod 256), MoreFollows, WindowBound, WindowRange,
   SingleFaultRepaired.  Vacuity: each named deviation (the pinned tree's behaviour) must violate SingleFaultRepaired.
R  TLC's state graph of a small configuration is covered edge by edge; every walk is forced on the real
   ClientSSM/ServerSSM pair step by step (run_script) and validated by Trace_TSM.
T  the real code is run fault-free for payload lengths 0..4*seg+2 for each max-APDU size, with every single fault at
   every frame index under two scheduler orders, for windows 1..8, beyond 256 segments, and with random multi-fault
   sequences; every run is validated by TLC (Trace_TSM: conformance step by step + the same TLA+ monitors), and the
   delivered octets are compared with the submitted ones.
"""
import os, json, random, shutil
from common import Check
import tlc, tlaval, tsmlib
from c14 import edge_cover

SIZES = [50, 128, 206, 480, 1024, 1476]


def on_verdict_factory(chk, pid, monitors):
    def onv(t, v):
        replay = {"cfg": t["cfg"], "faults": t["faults"], "order": t["order"], "script": t.get("script"),
                  "silence_from": t.get("silence_from"), "rng_seed": t.get("rng_seed")}
        sig = tsmlib.fault_sig(t)
        bad = False
        if t["hang"]:
            bad |= chk.violation("Terminates", sig, {"what": "the code under test did not return", "cfg": t["cfg"],
                                                    "faults": t["faults"]}, replay)
        for m, l in sorted(v["viol"]):
            if m in monitors:
                ev = t["evs"][l - 1]
                bad |= chk.violation(m, sig, {"cfg": t["cfg"], "faults": t["faults"], "order": t["order"], "step": l,
                                              "event": ev["ev"], "outcomes": t["outcomes"], "errors": t["errors"][:2],
                                              "post_state": {k: ev["st"][k] for k in ("now", "c", "s", "cOut", "tx")}}, replay)
        for m in sorted(v["final"]):
            if m == "Terminates" and "Terminates" in monitors:
                bad |= chk.violation("Terminates", sig, {"what": "step budget exhausted (livelock)", "cfg": t["cfg"],
                                                        "faults": t["faults"]}, replay)
            elif m == "NotQuiescentAtEnd" and t.get("script") is None and not t["hang"]:
                chk.deviation({"what": "run ended but the model is not quiescent", "cfg": t["cfg"], "faults": t["faults"]})
        if pid == "C05" and not t["payload_ok"]:
            bad |= chk.violation("PayloadIntegrity", sig, {"what": "delivered octets differ from the submitted ones",
                                                          "cfg": t["cfg"], "faults": t["faults"]}, replay)
        if v["rej"] and not bad:
            ev = t["evs"][v["rej"] - 1]
            chk.deviation({"cfg": t["cfg"], "faults": t["faults"], "order": t["order"], "rng_seed": t.get("rng_seed"),
                           "silence_from": t.get("silence_from"), "step": v["rej"], "event": ev["ev"],
                           "i": ev["i"], "exc": ev["exc"], "post_state": {k: ev["st"][k] for k in ("now", "c", "s", "tx", "cOut")}})
        if not v["rej"] and not v["viol"] and not t["hang"]:
            chk.traces_validated += 1
        for m in monitors:
            chk.monitor(m)
        if len(t["faults"]) <= 1 and not t.get("silence_from"):
            chk.monitor("SingleFaultRepaired(antecedent)")
    return onv


C05_MONITORS = {"ResponseIntegrity", "RequestIntegrity", "SeqConsecutive", "MoreFollows", "WindowBound", "WindowRange",
                "SingleFaultRepaired", "Terminates", "AtMostOneOutcome",
                # "a transfer that cannot be completed is reported as an abort": at quiescence the requester has its one outcome
                "ExactlyOneAtQuiescence", "RefusedThoughFeasible"}


def single_fault_traces(rc, kinds=("drop", "dup", "delay", "shrink"), orders=("fifo", "timers"), frames=None):
    base = tsmlib.record(rc)
    out = [base]
    n = len(base["frames"])
    idx = range(1, n + 1) if frames is None else [i for i in frames if 1 <= i <= n]
    for kind in kinds:
        for i in idx:
            if kind == "shrink" and not (base["frames"][i - 1]["k"] == "ACK" and base["frames"][i - 1]["win"] > 1):
                continue            # only a segment ack granting more than one segment can be shrunk
            for o in orders:
                out.append(tsmlib.record(rc, faults={i: kind}, order=o))
    return out


def graph_scripts(chk, name, c, limit=None, rng=None):
    """dump the state graph of a small TSM configuration and return action scripts covering every edge"""
    wd = tlc.workdir("dot")
    dot = os.path.join(wd, "g")
    try:
        tsmlib.run_mc(chk, name, c, dump=dot)
        nodes, edges, init = tlaval.parse_dot(dot + ".dot")
    finally:
        shutil.rmtree(wd, ignore_errors=True)
    walks = edge_cover(nodes, edges, init)
    if limit and len(walks) > limit:
        rng.shuffle(walks)
        walks = walks[:limit]
    scripts = [[(nodes[v]["act"]["n"], nodes[v]["act"]["i"]) for v in w] for w in walks]
    chk.extra.setdefault("replay", []).append({"config": name, "graph_nodes": len(nodes), "graph_edges": len(edges),
                                               "walks_executed_on_impl": len(scripts), "steps": sum(len(s) for s in scripts)})
    return scripts


def main(tier, seed):
    chk = Check("C05", tier, seed)
    rng = random.Random(seed)
    thorough = tier == "thorough"
    chk.rule = ("model: every interleaving and fault placement of TSM.tla within the fault budget; implementation: one evaluation = "
                "one complete transaction executed on the real ClientSSM/ServerSSM pair and validated by TLC against TSM.tla; "
                "distinct = (payload lengths, segment size, windows, faults, scheduler order); non-trivial = segmented or faulted")
    chk.assumptions = ["the medium is the harness (FIFO per direction, counted faults); APDUs are encoded/decoded with the library's codec",
                       "raw application elements on StateMachineAccessPoint (no service decoding): payload is opaque, position coded",
                       "timeouts well-ordered (Tseg*4 < Tapdu); the library's default device timeouts (finding F16) are not used"]
    C = tsmlib.consts
    flags = tsmlib.CODE_FLAGS
    one = ["SingleFaultRepaired", "FaultFreeSucceeds"]
    # ---- D ----
    tsmlib.run_mc(chk, "3x3_w2_f111", C(3, 3, maxdrop=1, maxdup=1, maxdelay=1), extra_invs=one)
    tsmlib.run_mc(chk, "2x4_w3_d2", C(2, 4, pwc=3, pws=3, maxdrop=2, maxdup=1), extra_invs=one)
    tsmlib.run_mc(chk, "1x3_w1", C(1, 3, pwc=1, pws=1, maxdrop=1, maxdup=1, maxdelay=1), extra_invs=one)
    tsmlib.run_mc(chk, "5x1_w2_d1", C(5, 1, pwc=2, pws=2, maxdrop=1), extra_invs=one)      # whole request repeated after a lost reply
    # a peer that shrinks the window it grants in the middle of a transfer (WindowRespectsAck)
    tsmlib.run_mc(chk, "1x5_w4_shrink", C(1, 5, pwc=4, pws=4, maxshrink=1, maxdrop=1), extra_invs=one)
    tsmlib.run_mc(chk, "5x1_w4_shrink", C(5, 1, pwc=4, pws=4, maxshrink=1, maxdup=1), extra_invs=one)
    if thorough:
        tsmlib.run_mc(chk, "4x4_w3_f211", C(4, 4, pwc=3, pws=3, maxdrop=2, maxdup=1, maxdelay=1), extra_invs=one)
        for w in range(1, 9):
            tsmlib.run_mc(chk, "9x9_w%d_f1" % w, C(9, 9, pwc=w, pws=9 - w if w < 8 else 8, maxdrop=1, maxdup=1), extra_invs=one)
        tsmlib.run_mc(chk, "260x1_w4", C(260, 1, pwc=4, pws=4, maxdrop=1, tapdu=40), extra_invs=one, timeout=1500)
        tsmlib.run_mc(chk, "1x260_w8", C(1, 260, pwc=8, pws=8, maxdrop=1, tapdu=40), extra_invs=one, timeout=1500)
    else:
        tsmlib.run_mc(chk, "9x9_w4_f1", C(9, 9, pwc=4, pws=5, maxdrop=1), extra_invs=one)
        tsmlib.run_mc(chk, "1x258_w8", C(1, 258, pwc=8, pws=8, maxdrop=0, tapdu=40), extra_invs=one)
    # vacuity: the behaviour of the pinned tree (before the fix: commits) must violate SingleFaultRepaired
    tsmlib.run_mc(chk, "dev_RecvMult1", C(3, 3, maxdrop=1, flags=dict(tsmlib.INTENDED, RecvMult=1)), extra_invs=one, expect=["SingleFaultRepaired"])
    tsmlib.run_mc(chk, "dev_NoResend", C(1, 3, maxdrop=1, flags=dict(tsmlib.INTENDED, ResendSeg0OnNoWin="FALSE")), extra_invs=one, expect=["SingleFaultRepaired"])
    tsmlib.run_mc(chk, "dev_StaleAck", C(3, 3, maxdelay=1, flags=dict(tsmlib.INTENDED, IgnoreStaleAck="FALSE")), extra_invs=one, expect=["SingleFaultRepaired"])
    tsmlib.run_mc(chk, "dev_IndexFromSeq", C(1, 258, pwc=8, pws=8, tapdu=40, maxnow=50, flags=dict(tsmlib.INTENDED, IndexFromSeq="TRUE")),
                  extra_invs=one, expect=["ClientRxIsPrefix"],
                  constraint="TimeBound")
    # ---- R ----
    traces = []
    scripts = graph_scripts(chk, "R_2x3_w2", C(2, 3, maxdrop=1, maxdup=1 if thorough else 0, maxdelay=1, flags=flags),
                            limit=None if thorough else 400, rng=rng)
    rc_r = tsmlib.rig_cfg(seg=50, nq=2, nr=3)
    for sc in scripts:
        t = tsmlib.record(rc_r, script=sc)
        t["faults"] = {}
        if t["stopped"] is not None:
            chk.deviation({"what": "spec step not enabled in the implementation", "script": sc[:t["stopped"] + 1]})
        traces.append(t)
        chk.case(("R", tuple(sc)), nontrivial=True)
    # ---- T ----
    # (i) fault-free, every payload length 0..4*seg+2 (quick: the boundary lengths) for each max-APDU size
    for seg in SIZES:
        if thorough:
            lens = range(0, 4 * seg + 3) if seg <= 206 else sorted(set(
                [x for k in range(0, 5) for x in range(max(0, k * seg - 3), k * seg + 4)] + [rng.randrange(0, 4 * seg + 3) for _ in range(300)]))
        else:
            # around the multiples of the max APDU size and of the segment sizes (max APDU minus the 5 / 6 header octets of a
            # segmented ack / request): payloads that fill their last segment exactly
            lens = sorted(set(x for k in range(0, 5) for u in (seg, seg - 5, seg - 6) for x in (k * u - 1, k * u, k * u + 1, k * u + 2)
                              if 0 <= x <= 4 * seg + 2))
        for L in lens:
            rc = tsmlib.rig_cfg(seg=seg, lq=L, lr=L, pwc=rng.choice([1, 2, 4, 8]), pws=rng.choice([1, 2, 3, 8]))
            traces.append(tsmlib.record(rc))
            chk.case(("len", seg, L), nontrivial=L > seg)
    # (i') a node's OWN limit on the segments it receives says nothing about what it may send: the peer left max-segments
    # unspecified, the transfer needs more segments than the sender itself would take
    for nq, nr, cms, sms in ((1, 8, None, 4), (1, 5, None, 2), (8, 1, 4, None), (6, 6, 2, 2)):
        rc = tsmlib.rig_cfg(seg=50, nq=nq, nr=nr, pwc=3, pws=3, c_maxsegs=cms if nq == 1 else None, s_maxsegs=sms if nq == 1 else None)
        if nq > 1:
            rc = tsmlib.rig_cfg(seg=50, nq=nq, nr=nr, pwc=3, pws=3, c_maxsegs=cms, s_maxsegs=sms)
        if (nq, nr) == (6, 6):
            continue                # (both directions limited to 2: not a transfer that can be completed)
        traces.append(tsmlib.record(rc))
        chk.case(("own-limit", nq, nr, cms, sms), nontrivial=True)
    # (i-b) a request of exactly as many segments as the peer is known to accept goes through
    for n in (2, 3, 4, 8):
        # (a known peer's max APDU of 50 leaves 44 octets per segment: the length below needs exactly n of them)
        rc = tsmlib.rig_cfg(seg=50, nq=n, nr=1, lq=44 * (n - 1) + 22, pwc=2, pws=2, known=True, known_maxsegs=n, feasible=True)
        traces.append(tsmlib.record(rc))
        chk.case(("known-maxsegs", n), nontrivial=True)
    # (i-c) acks that arrive much later than the segment timeout (and a slow application): a stale ack of the request phase turns
    # up while the response is being received
    for delay_by, app_delay in ((1500, 0), (2500, 1500)):
        rc = tsmlib.rig_cfg(seg=50, nq=3, nr=3, pwc=2, pws=2, delay_by=delay_by, app_delay=app_delay, retries=2)
        for t in single_fault_traces(rc, kinds=("delay",), orders=("fifo", "timers")):
            traces.append(t)
            chk.case(("late-ack", delay_by, app_delay, tuple(t["faults"].items()), t["order"]), nontrivial=True)
    # (i-d) a straggler: a frame held back by the medium turns up right after the first segment of the answer (the answer goes
    # out at the very instant the straggler is due: request phase repaired at the segment timeout, then the application's delay)
    for nq, nr, pwc, pws, delay_by, app_delay in ((3, 2, 2, 2, 1500, 500), (4, 3, 1, 2, 1500, 500), (3, 3, 2, 1, 2000, 1000)):
        rc = tsmlib.rig_cfg(seg=50, nq=nq, nr=nr, pwc=pwc, pws=pws, delay_by=delay_by, app_delay=app_delay)
        for t in single_fault_traces(rc, kinds=("delay",), orders=("late-dup",)):
            traces.append(t)
            chk.case(("straggler", nq, nr, pwc, pws, tuple(t["faults"].items())), nontrivial=True)
    # (ii) every single fault at every frame, two scheduler orders; windows 1..8
    wins = [(w, 9 - w) for w in range(1, 9)] if thorough else [(1, 8), (2, 2), (3, 5), (8, 1)]
    for pwc, pws in wins:
        rc = tsmlib.rig_cfg(seg=50, nq=4, nr=5, pwc=pwc, pws=pws)
        for t in single_fault_traces(rc):
            traces.append(t)
            chk.case(("sf", pwc, pws, tuple(t["faults"].items()), t["order"]), nontrivial=True)
    for seg, nq, nr in ([(128, 1, 3), (480, 3, 1), (1476, 2, 2), (50, 1, 1), (206, 3, 3)] if thorough else [(128, 1, 3), (480, 3, 1)]):
        rc = tsmlib.rig_cfg(seg=seg, nq=nq, nr=nr, pwc=2, pws=3)
        for t in single_fault_traces(rc):
            traces.append(t)
            chk.case(("sf2", seg, nq, nr, tuple(t["faults"].items()), t["order"]), nontrivial=True)
    # (ii-) the peer goes silent for good from some frame on: the transfer cannot be completed and must be reported as an abort
    for nq, nr, w in ([(1, 5, 2), (3, 4, 3), (4, 1, 2), (6, 6, 4)] if thorough else [(1, 5, 2), (3, 4, 3)]):
        rc = tsmlib.rig_cfg(seg=50, nq=nq, nr=nr, pwc=w, pws=w)
        nfr = len(tsmlib.record(rc)["frames"])
        for k in range(1, nfr + 2):
            traces.append(tsmlib.record(rc, silence_from=k))
            chk.case(("silence", nq, nr, w, k), nontrivial=True)
    # (ii'') a long segmented request whose short reply is lost (or comes after the APDU timeout): the whole request is
    # repeated from segment 0 -- more segments than one window + 1, so that a window position left over from the first
    # attempt matters
    for nq, nr, w, delay in ([(5, 1, 2, 0), (4, 0, 1, 0), (6, 1, 3, 0), (9, 1, 4, 0), (5, 1, 2, 7000), (7, 0, 3, 7000)] if thorough
                             else [(5, 1, 2, 0), (4, 0, 1, 0), (6, 1, 3, 0), (5, 1, 2, 7000)]):
        rc = tsmlib.rig_cfg(seg=50, nq=nq, nr=nr, pwc=w, pws=w, app_delay=delay, retries=2 if delay else 1)
        for t in (single_fault_traces(rc, kinds=("drop", "delay"), orders=("fifo",)) if not delay else [tsmlib.record(rc)]):
            traces.append(t)
            chk.case(("repeat", nq, nr, w, delay, tuple(t["faults"].items())), nontrivial=True)
    # (ii') a peer that shrinks the granted window in the middle of a longer transfer: later bursts must respect the newest grant
    for nq, nr, w in ([(9, 1, 4), (1, 9, 4), (10, 10, 3), (12, 1, 8)] if thorough else [(9, 1, 4), (1, 9, 4)]):
        rc = tsmlib.rig_cfg(seg=50, nq=nq, nr=nr, pwc=w, pws=w, maxsegs=None)
        for t in single_fault_traces(rc, kinds=("shrink",), orders=("fifo",)):
            traces.append(t)
            chk.case(("shrink", nq, nr, w, tuple(t["faults"].items())), nontrivial=True)
    # (iii) beyond 256 segments (sequence numbers wrap), fault-free and with single faults around the wrap
    # (segment counts chosen so that sequence numbers of earlier windows collide with that of the last segment: N-1-256j a
    # multiple of the window for some j >= 1)
    longs = [(1, 258, 8), (259, 1, 4), (1, 257, 3), (257, 1, 2)] + (
        # (each event carries the frames in flight and the wire history: a trace grows with the square of the segment count, and one
        #  JSON line beyond about 30 MB is more than TLC's deserializer takes -- 600 segments with window 127 were)
        [(1, 300, 127), (280, 270, 16), (1, 260, 3), (1, 301, 4), (1, 513, 2), (513, 1, 1), (1, 515, 3), (261, 1, 4)] if thorough else [])
    for nq, nr, w in longs:
        rc = tsmlib.rig_cfg(seg=50, nq=nq, nr=nr, pwc=w, pws=w, tapdu=60000, maxsegs=None)
        t = tsmlib.record(rc, limit=20000)
        traces.append(t)
        chk.case(("long", nq, nr, w), nontrivial=True)
        if t["hang"] or tsmlib.HANGS[0] >= 3:
            continue
        nfr = len(t["frames"])
        around = [i for i in range(1, nfr + 1) if t["frames"][i - 1]["seq"] in (255, 0, 1) and t["frames"][i - 1]["k"] in ("CR", "CA", "ACK")]
        for i in (around[:6] if not thorough else around[:20]):
            for kind in ("drop", "dup"):
                traces.append(tsmlib.record(rc, faults={i: kind}, limit=20000))
                chk.case(("longf", nq, nr, w, i, kind), nontrivial=True)
    # (iv) random multi-fault sequences
    for n in range(600 if thorough else 80):
        if tsmlib.HANGS[0] >= 3:
            break
        seg = rng.choice(SIZES[:3])
        rc = tsmlib.rig_cfg(seg=seg, nq=rng.randint(1, 6), nr=rng.randint(0, 6), pwc=rng.randint(1, 8), pws=rng.randint(1, 8),
                            retries=rng.randint(0, 3))
        nf = rng.randint(2, 6)
        faults = {rng.randint(1, 30): rng.choice(["drop", "dup", "delay"]) for _ in range(nf)}
        s = rng.randrange(1 << 30)
        t = tsmlib.record(rc, faults=faults, order="random", rng=random.Random(s))
        t["rng_seed"] = s
        traces.append(t)
        chk.case(("rnd", n), nontrivial=True)
    for i, t in enumerate(traces):
        t["tid"] = i + 1
    chk.sample({"cfg": traces[-1]["cfg"], "faults": traces[-1]["faults"], "outcomes": traces[-1]["outcomes"],
                "events": [(e["ev"], e["i"]) for e in traces[-1]["evs"]][:40]})
    chk.sample({"cfg": traces[0]["cfg"], "script": traces[0].get("script"), "outcomes": traces[0]["outcomes"]})
    tsmlib.validate(chk, traces, flags, on_verdict_factory(chk, "C05", C05_MONITORS))
    return chk.finish()


def replay(path, pid="C05", monitors=C05_MONITORS):
    body = json.load(open(path))
    return replay_tsm(body["replay"], pid, monitors, body.get("seed", 0))


def replay_tsm(rp, pid, monitors, seed=0):
    chk = Check(pid, "quick", seed)
    rng = random.Random(rp["rng_seed"]) if rp.get("rng_seed") is not None else None
    faults = {int(k): v for k, v in (rp.get("faults") or {}).items()}
    t = tsmlib.record(rp["cfg"], faults=faults, order=rp.get("order", "fifo"), rng=rng,
                      script=[tuple(x) for x in rp["script"]] if rp.get("script") else None, silence_from=rp.get("silence_from"),
                      limit=20000)
    t["tid"] = 1
    for e in t["evs"]:
        print(e["ev"], e["i"], e["exc"], "now=%s" % e["st"]["now"], "c=%s" % e["st"]["c"].get("st"), "s=%s" % e["st"]["s"].get("st"),
              [(f["k"], f["seq"], f["tok"]) for f in e["st"]["tx"]], [o["k"] for o in e["st"]["cOut"]])
    tsmlib.validate(chk, [t], tsmlib.CODE_FLAGS, on_verdict_factory(chk, pid, monitors))
    return chk.finish()
