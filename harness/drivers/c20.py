"""C20 -- A schedule shows the value its calendar dictates at every instant, never stale.
                                                                (spec/Calendar.tla, spec/Schedule.tla)

D  TLC: MC_Calendar  - calendar arithmetic obligations (CalendarSane) on every month of the year set; the expected match
                       vectors of the pattern grid (date / date-range / week-n-day / calendar-entry) for every date.
        MC_Schedule  - exhaustive over a family of small schedule configurations on two adjacent days: function
                       obligations on every grid instant (no change before NextChange, ...) and the timer machine
                       (ShowsScheduledValue, KeepsRunning, NoLivelock, NoChangeBeforeNext); the two named deviations
                       (today's F15 behaviours) must violate KeepsRunning / NoLivelock (vacuity check).
R  spec -> code: the match vectors are compared with match_date / match_date_range / match_weeknday /
   date_in_calendar_entry on every date; TLC-sampled members of the family are built as real LocalScheduleObjects and
   LocalScheduleInterpreter.eval is compared with the printed Value / NextChange / ExactNext vectors on the 15-min grid.
T  code -> spec: seeded random schedules at the property's sizes (0..4 exceptions x 0..4 time-values, 0..4 weekly
   entries per day, Calendar objects, all period kinds, wildcards): eval at every minute (and around every entry time)
   of sampled days, and timer-driven multi-day runs of the real object in virtual time (expiries recorded as
   (at, Present_Value, deadline)); recorded as ndjson and judged by TLC (Trace_Schedule.tla) against Value /
   NextChange: monitors EvalCorrect, NoChangeBeforeNext (oracle form on tie-free days, oracle-free form everywhere),
   KeepsRunning, NoLivelock.

Python only renders abstract configurations into bacpypes objects and projects results back to integers.
"""
import os, sys, json, random, re, time, datetime, shutil, collections
from common import Check, VERIF, WORK, Hang, watchdog, sig_matches
import tlc, tlaval
import vtime

vt = vtime.install()
import bacpypes.core as core
from bacpypes.primitivedata import Null, Real, Unsigned, Integer, Date
from bacpypes.constructeddata import ArrayOf, ListOf
from bacpypes.basetypes import (DailySchedule, DateRange, TimeValue, SpecialEvent, SpecialEventPeriod, CalendarEntry)
from bacpypes.object import CalendarObject
from bacpypes.app import Application
from bacpypes.local.device import LocalDeviceObject
import bacpypes.local.schedule as LS
from bacpypes.local.schedule import LocalScheduleObject

PID = "C20"
MID = 8640000           # hundredths of a second per day
ANY = 255
PV0 = 9                 # Present_Value every schedule object is created with
U4 = [ANY, ANY, ANY, ANY]
H = 360000              # one hour
DTYPES = {"Real": Real, "Unsigned": Unsigned, "Integer": Integer}
MONITORS = ("MatcherExact", "EvalCorrect", "NoChangeBeforeNext", "KeepsRunning", "NoLivelock")


# ---- rendering (abstract -> bacpypes) and projection (bacpypes -> integers): the trusted base ------------------------
def hms(h):
    return (h // 360000, (h // 6000) % 60, (h // 100) % 60, h % 100)


def unhms(t):
    return ((t[0] * 60 + t[1]) * 60 + t[2]) * 100 + t[3]


def date4(d3):
    """the 4-tuple the library itself derives for a calendar date (Date.CalcDayOfWeek)"""
    d = Date((d3[0], d3[1], d3[2], ANY))
    d.CalcDayOfWeek()
    return d.value


_app = None
_serial = [0]


def app():
    global _app
    if _app is None:
        dev = LocalDeviceObject(objectName="c20", objectIdentifier=("device", 20), maxApduLengthAccepted=1024,
                                segmentationSupported="segmentedBoth", vendorIdentifier=999)
        _app = Application(dev)
    return _app


def mk_val(v, T):
    if v == 0:
        return Null()
    return T(float(v)) if T is Real else T(v)


def mk_tvs(tvs, T):
    return [TimeValue(time=hms(t), value=mk_val(v, T)) for t, v in tvs]


def mk_entry(e):
    k = e["kind"]
    if k == "date":
        return CalendarEntry(date=tuple(e["p"]))
    if k == "range":
        return CalendarEntry(dateRange=DateRange(startDate=tuple(e["s"]), endDate=tuple(e["e"])))
    if k == "wnd":
        return CalendarEntry(weekNDay=bytes(e["p"][:3]))
    raise ValueError(k)


class Built:
    """a real LocalScheduleObject (plus the Calendar objects it refers to) inside a real Application"""

    def __init__(self, cfg, dtype="Real"):
        T = DTYPES[dtype]
        a = app()
        _serial[0] += 1
        n = _serial[0]
        self.objs = []
        try:
            for ci, lst in enumerate(cfg["cals"]):
                co = CalendarObject(objectIdentifier=("calendar", ci + 1), objectName="cal-%d-%d" % (n, ci + 1),
                                    presentValue=False, dateList=ListOf(CalendarEntry)([mk_entry(e) for e in lst]))
                a.add_object(co)
                self.objs.append(co)
            exc = []
            for x in cfg["exc"]:
                per = x["period"]
                if per["kind"] == "cal":
                    sp = SpecialEventPeriod(calendarReference=("calendar", per["id"]))
                else:
                    sp = SpecialEventPeriod(calendarEntry=mk_entry(per))
                exc.append(SpecialEvent(period=sp, listOfTimeValues=mk_tvs(x["tvs"], T), eventPriority=x["prio"]))
            weekly = ArrayOf(DailySchedule)([DailySchedule(daySchedule=mk_tvs(l, T)) for l in cfg["weekly"]])
            self.so = LocalScheduleObject(
                objectIdentifier=("schedule", 1), objectName="sched-%d" % n, presentValue=mk_val(PV0, T),
                effectivePeriod=DateRange(startDate=tuple(cfg["eff"]["s"]), endDate=tuple(cfg["eff"]["e"])),
                weeklySchedule=weekly, exceptionSchedule=ArrayOf(SpecialEvent)(exc),
                scheduleDefault=mk_val(cfg["default"], T))
            a.add_object(self.so)
            self.objs.append(self.so)
        except Exception:
            self.close()
            raise
        if self.so.reliability != "noFaultDetected":
            self.close()
            tlc.machinery_failure("rendered schedule is not reliable (%s): %s" % (self.so.reliability, json.dumps(cfg)))

    def eval(self, d4, h):
        """LocalScheduleInterpreter.eval projected to (value, next): value -1 = None, -2 = raised; next -1 = none"""
        try:
            r = self.so._task.eval(d4, hms(h))
        except Exception:
            return (-2, -1)
        if r is None:
            return (-1, -1)
        v, nx = r
        return (-1 if v is None else num(v), -1 if nx is None else unhms(nx))

    def close(self):
        for o in self.objs:
            try:
                app().delete_object(o)
            except Exception:
                pass
        self.objs = []


def num(v):
    x = getattr(v, "value", v)
    return int(round(x))


EPOCH_ORD = datetime.date(1970, 1, 1).toordinal()


def to_epoch(inst):
    d3, h = inst
    return (datetime.date(1900 + d3[0], d3[1], d3[2]).toordinal() - EPOCH_ORD) * 86400.0 + h / 100.0


def to_inst(t):
    tot = int(round(t * 100))
    day, h = divmod(tot, MID)
    d = datetime.date.fromordinal(EPOCH_ORD + day)
    return [[d.year - 1900, d.month, d.day], h]


def shift(d3, k):
    d = datetime.date(1900 + d3[0], d3[1], d3[2]) + datetime.timedelta(days=k)
    return [d.year - 1900, d.month, d.day]


def all_times(cfg):
    ts = {0}
    for l in cfg["weekly"]:
        ts.update(t for t, v in l)
    for x in cfg["exc"]:
        ts.update(t for t, v in x["tvs"])
    return ts


def probes(cfg):
    """every minute of the day and every entry time of the configuration -1/0/+1 hundredth (= Trace_Schedule!Probes)"""
    P = set(range(0, MID, 6000))
    for c in all_times(cfg):
        for q in (c - 1, c, c + 1):
            if 0 <= q < MID:
                P.add(q)
    return sorted(P)


# ---- executions of the real code -------------------------------------------------------------------------------------
def scan_day(b, d3, P):
    """eval at every probe instant of one day, run-length encoded as [from, to, count, value, next]"""
    d4 = date4(d3)
    runs = []
    cur = None
    for p in P:
        r = b.eval(d4, p)
        if cur is not None and cur[3] == r[0] and cur[4] == r[1]:
            cur[1] = p
            cur[2] += 1
        else:
            cur = [p, p, 1, r[0], r[1]]
            runs.append(cur)
    return runs


HANGS = [0]
MAXFIRES = 2000


def timer_run(cfg, t0, end, dtype="Real"):
    """create a real LocalScheduleObject at virtual instant t0 and let its own timer drive it until `end`.
    Returns (fires, status, errors): fires = [[at, presentValue, deadline or []], ...]"""
    vt.reset(to_epoch(t0))
    b = Built(cfg, dtype)
    fires = []
    status = "horizon"
    end_e = to_epoch(end)
    stuck = 0
    try:
        for step in range(MAXFIRES):
            try:
                with watchdog(10):
                    core.run_once()             # the deferred first interpretation, later the expired timer
            except Hang:
                HANGS[0] += 1
                status = "hang"
                break
            at = vt.now
            dl = vt.next_deadline()
            fires.append([to_inst(at), num(b.so.presentValue), [] if dl is None else to_inst(dl)])
            if dl is None:
                status = "stopped"
                break
            if dl <= at:
                stuck += 1
                if stuck >= 3:                  # re-armed at (or before) the same instant three times in a row
                    status = "livelock"
                    break
            else:
                stuck = 0
                if dl > end_e:
                    break
                vt.now = dl
        else:
            status = "budget"
        errors = [e[1] for e in vt.errors[:3]]
    finally:
        b.close()
        vt.reset(0.0)
    return fires, status, errors


# ---- random configurations (property sizes) --------------------------------------------------------------------------
SPECIAL_YEARS = [100, 124, 200, 99, 138, 1, 253, 123, 96]


def rand_focus(rng):
    yo = rng.choice(SPECIAL_YEARS) if rng.random() < 0.4 else rng.randint(1, 253)
    m = rng.choice([2, 12, 1, 2]) if rng.random() < 0.3 else rng.randint(1, 12)
    last = (datetime.date(1900 + yo + (m == 12), m % 12 + 1, 1) - datetime.timedelta(days=1)).day
    r = rng.random()
    d = last if r < 0.35 else 1 if r < 0.5 else min(last, rng.choice([28, 29])) if r < 0.6 else rng.randint(1, last)
    return [yo, m, d]


def per(kind, p=U4, s=U4, e=U4, id=0):
    return {"kind": kind, "p": list(p), "s": list(s), "e": list(e), "id": id}


def rand_bound(rng, d3):
    return list(d3) + [ANY if rng.random() < 0.8 else rng.randint(1, 7)]


def rand_entry(rng, F):
    D = shift(F, rng.choice([-1, 0, 0, 0, 1, 1, 2]))
    dow = datetime.date(1900 + D[0], D[1], D[2]).isoweekday()
    k = rng.random()
    if k < 0.4:
        y = ANY if rng.random() < 0.6 else D[0] if rng.random() < 0.9 else D[0] + 1
        r = rng.random()
        m = ANY if r < 0.45 else (13 if D[1] % 2 else 14) if r < 0.65 else (14 if D[1] % 2 else 13) if r < 0.72 else D[1] if r < 0.95 else D[1] % 12 + 1
        r = rng.random()
        d = ANY if r < 0.35 else 32 if r < 0.5 else (33 if D[2] % 2 else 34) if r < 0.65 else (34 if D[2] % 2 else 33) if r < 0.7 else D[2] if r < 0.95 else rng.randint(1, 31)
        r = rng.random()
        w = ANY if r < 0.6 else dow if r < 0.9 else rng.randint(1, 7)
        return per("date", p=[y, m, d, w])
    if k < 0.7:
        s = U4 if rng.random() < 0.2 else rand_bound(rng, shift(D, -rng.choice([0, 0, 1, 2, 3, 40, 400])))
        e = U4 if rng.random() < 0.2 else rand_bound(rng, shift(D, rng.choice([0, 0, 1, 2, 3, 40, 400])))
        if rng.random() < 0.05 and s != U4 and e != U4:
            s, e = e, s
        return per("range", s=s, e=e)
    r = rng.random()
    m = ANY if r < 0.45 else (13 if D[1] % 2 else 14) if r < 0.65 else (14 if D[1] % 2 else 13) if r < 0.7 else D[1] if r < 0.95 else D[1] % 12 + 1
    last = (datetime.date(1900 + D[0] + (D[1] == 12), D[1] % 12 + 1, 1) - datetime.timedelta(days=1)).day
    r = rng.random()
    back = (last - D[2]) // 7            # 0: in the last 7 days, 1: the 7 before, ...
    wk = ANY if r < 0.3 else (D[2] - 1) // 7 + 1 if r < 0.55 else (6 + back if back <= 3 else rng.randint(6, 9)) if r < 0.85 else rng.randint(1, 9)
    r = rng.random()
    w = ANY if r < 0.5 else dow if r < 0.9 else rng.randint(1, 7)
    return per("wnd", p=[m, wk, w, 0])


def rand_tvs(rng, n, secs, sub, vals):
    ts = set()
    while len(ts) < n:
        r = rng.random()
        t = 0 if r < 0.08 else 1439 * 6000 if r < 0.12 else rng.randrange(1440) * 6000
        if secs and rng.random() < 0.5:
            t += rng.randrange(60) * 100
        if sub and rng.random() < 0.6:
            t += rng.randrange(1, 100)
        ts.add(t)
    return [[t, 0 if rng.random() < 0.25 else rng.choice(vals)] for t in sorted(ts)]


def rand_cfg(rng, force=None):
    """force: None | 'plain' (no ties, no sub-second times, specified effective period) - used so that part of the
    population exercises the rest of the property even while the known defect classes are present"""
    F = rand_focus(rng)
    plain = force == "plain"
    ties = (not plain) and rng.random() < 0.25
    sub = (not plain) and rng.random() < 0.08
    secs = rng.random() < 0.15
    vals = [1, 2, 3, 4]
    # (Calendar objects with an EMPTY date list included: a reference to one is never in force)
    cals = [[rand_entry(rng, F) for _ in range(rng.choice([0, 0, 1, 2, 3]))] for _ in range(rng.randint(0, 2))]
    nexc = rng.randint(0, 4)
    prios = rng.sample(range(1, 17), nexc)
    if ties and nexc >= 2:
        pool = rng.sample(range(1, 17), 2)
        prios = [rng.choice(pool) for _ in range(nexc)]
    exc = []
    for i in range(nexc):
        p = per("cal", id=rng.randint(1, len(cals))) if cals and rng.random() < 0.4 else rand_entry(rng, F)
        exc.append({"period": p, "prio": prios[i], "tvs": rand_tvs(rng, rng.randint(0, 4), secs, sub, vals)})
    weekly = [rand_tvs(rng, rng.randint(0, 4), secs, sub, vals) for _ in range(7)]
    r = rng.random()
    if plain:
        r = 0.15 + r * 0.85
    if r < 0.10:
        eff = (U4, U4)
    elif r < 0.15:
        eff = (U4, rand_bound(rng, shift(F, rng.randint(0, 3))))
    elif r < 0.30:
        eff = (rand_bound(rng, shift(F, -rng.choice([2, 10, 400]))), U4)
    elif r < 0.55:
        eff = (rand_bound(rng, shift(F, -rng.randint(5, 40))), rand_bound(rng, shift(F, rng.randint(5, 40))))
    elif r < 0.70:
        eff = (rand_bound(rng, shift(F, rng.randint(0, 2))), rand_bound(rng, shift(F, 10)))
    elif r < 0.85:
        eff = (rand_bound(rng, shift(F, -10)), rand_bound(rng, shift(F, rng.randint(0, 1))))
    elif r < 0.92:
        eff = (rand_bound(rng, F), rand_bound(rng, F))
    else:
        eff = (rand_bound(rng, shift(F, 20)), rand_bound(rng, shift(F, 30)))
    cfg = {"eff": {"s": list(eff[0]), "e": list(eff[1])}, "weekly": weekly, "exc": exc, "cals": cals,
           "default": rng.choice([1, 2, 3, 4, 5])}
    return cfg, F


# ---- TLC: trace validation -------------------------------------------------------------------------------------------
TRACE_CFG = ("CONSTANTS\n  Dev_StopOutsidePeriod = FALSE\n  Dev_DropHundredths = FALSE\nSPECIFICATION Spec\n"
             "CHECK_DEADLOCK FALSE\n")


class Reporter:
    """at most two replay files per distinct (monitor, signature); every occurrence is counted"""

    def __init__(self, chk, dry=False):
        self.chk = chk
        self.counts = collections.Counter()
        self.dry = dry              # replay mode: report, do not write further replay files

    def violation(self, monitor, sig, detail, replay):
        key = monitor + " " + json.dumps(sig, sort_keys=True)
        self.counts[key] += 1
        if self.dry:
            if self.counts[key] == 1:
                print("REPRODUCED %s %s" % (monitor, json.dumps(sig, sort_keys=True)))
                print("  " + json.dumps({k: v for k, v in detail.items() if k != "cfg"}, default=str)[:900])
            return
        s = dict(sig, monitor=monitor)
        known = any(sig_matches(f, PID, s) for f in self.chk.findings)
        if known or self.counts[key] <= 2:
            self.chk.violation(monitor, sig, detail, replay)

    def finish(self):
        self.chk.extra["violation_classes"] = dict(self.counts)


def judge(chk, rep, recs, label, timeout=1500):
    """recs: list of dicts with id, kind, cfg, ... and a private '_replay' entry.  One TLC run judges them all."""
    if not recs:
        return {}
    wd = tlc.workdir("c20tr")
    tf = os.path.join(wd, "records.ndjson")
    with open(tf, "w") as f:
        for r in recs:
            f.write(json.dumps({k: v for k, v in r.items() if not k.startswith("_")}) + "\n")
    try:
        res = tlc.run_tlc("Trace_Schedule", cfg_text=TRACE_CFG, env={"TRACE_FILE": tf}, timeout=timeout,
                          name="Trace_Schedule/" + label)
    finally:
        shutil.rmtree(wd, ignore_errors=True)
    if res["error_kind"] or not res["finished"]:
        tlc.machinery_failure("trace validation %s failed: %s\n%s" % (label, res["error"], res["output"][-3000:]))
    chk.extra["trace_validation_states"] = chk.extra.get("trace_validation_states", 0) + res["distinct"]
    verdicts = {v["id"]: v for v in tlc.printed_values(res["output"])}
    if len(verdicts) != len(recs) or res["distinct"] != 1 + 2 * len(recs):
        tlc.machinery_failure("trace validation %s: %d verdicts / %d states for %d records\n%s" % (
            label, len(verdicts), res["distinct"], len(recs), res["output"][-2000:]))
    for r in recs:
        v = verdicts[r["id"]]
        tf_n, in_n, all_n = v["stats"]
        fails = sorted(v["fails"]) if v["fails"] else []
        hard = [f for f in fails if not f[0].startswith("dev_") and f[0] != "Malformed"]
        if any(f[0] == "Malformed" for f in fails):
            tlc.machinery_failure("record %r is malformed: %r" % (r["id"], fails))
        if r["kind"] == "scan":
            n = sum(x[2] for d in r["days"] for x in d["runs"])
            share = n // max(all_n, 1)
            chk.monitor("EvalCorrect", tf_n * share)
            chk.monitor("NoChangeBeforeNext", n)
            chk.monitor("NoChangeBeforeNext(oracle-free, equal-priority days)", (all_n - tf_n) * share)
        else:
            chk.monitor("EvalCorrect", min(tf_n, in_n))
            chk.monitor("NoChangeBeforeNext", tf_n)
            chk.monitor("KeepsRunning", all_n)
            chk.monitor("NoLivelock", all_n)
            chk.monitor("KeepsRunning(outside effective period)", all_n - in_n)
        for mon, why, idx, at, exp, got in fails:
            detail = {"record": r["kind"], "source": r.get("_src"), "index": idx, "at_hundredths": at, "at": "%02d:%02d:%02d.%02d" % hms(at) if 0 <= at < MID else at,
                      "expected": exp, "got": got, "cfg": r["cfg"]}
            if r["kind"] == "scan":
                detail["date"] = r["days"][idx - 1]["date"]
                detail["runs"] = r["days"][idx - 1]["runs"][:12]
            else:
                detail["fire"] = r["fires"][idx - 1] if 0 < idx <= len(r["fires"]) else None
                detail["fires_before"] = r["fires"][max(0, idx - 3):idx - 1]
                detail["status"] = r.get("_status")
                detail["errors"] = r.get("_errors")
            if mon.startswith("dev_"):
                chk.deviation({"kind": mon, "why": why, "detail": detail})
            else:
                rep.violation(mon, {"case": why, "via": "eval" if r["kind"] == "scan" else "timer"}, detail, r["_replay"])
        if not hard:
            chk.traces_validated += 1
    return verdicts


# ---- D / R: calendar ---------------------------------------------------------------------------------------------------
def field_class(v, table):
    return table.get(v, "specific")


def pat_class(kind, q):
    mc = {ANY: "any", 13: "odd", 14: "even"}
    dc = {ANY: "any", 32: "last", 33: "odd", 34: "even"}
    ac = {ANY: "any"}
    if kind in (1, 4):
        return "year:%s,month:%s,day:%s,dow:%s" % (field_class(q[0], ac), field_class(q[1], mc), field_class(q[2], dc), field_class(q[3], ac))
    if kind in (2, 5):
        return "start:%s,end:%s" % ("unspecified" if q[0:3] == [ANY] * 3 else "specific", "unspecified" if q[3:6] == [ANY] * 3 else "specific")
    return "month:%s,week:%s,dow:%s" % (field_class(q[0], mc), "any" if q[1] == ANY else str(q[1]), field_class(q[2], ac))


MATCHER = {1: "match_date", 2: "match_date_range", 3: "match_weeknday", 4: "date_in_calendar_entry(date)",
           5: "date_in_calendar_entry(dateRange)", 6: "date_in_calendar_entry(weekNDay)"}


def impl_matcher(kind, q):
    if kind == 1:
        p = tuple(q[0:4])
        return lambda d: LS.match_date(d, p)
    if kind == 2:
        dr = DateRange(startDate=tuple(q[0:3]) + (ANY,), endDate=tuple(q[3:6]) + (ANY,))
        return lambda d: LS.match_date_range(d, dr)
    if kind == 3:
        w = bytes(q[0:3])
        return lambda d: LS.match_weeknday(d, w)
    if kind == 4:
        e = CalendarEntry(date=tuple(q[0:4]))
    elif kind == 5:
        e = CalendarEntry(dateRange=DateRange(startDate=tuple(q[0:3]) + (ANY,), endDate=tuple(q[3:6]) + (ANY,)))
    else:
        e = CalendarEntry(weekNDay=bytes(q[0:3]))
    return lambda d: LS.date_in_calendar_entry(d, e)


def impl_mask(kind, q, days4):
    f = impl_matcher(kind, q)
    mask = 0
    for i, d4 in enumerate(days4):
        try:
            hit = f(d4)
        except Exception:
            return -1
        if hit:
            mask |= 1 << i
    return mask


ROW = re.compile(r'"@@"(.*?)"\$\$"', re.S)
INT = re.compile(r"-?\d+")


def calendar_rows(chk, years, timeout):
    cfg = "CONSTANTS\n  Years = {%s}\nINIT Init\nNEXT Next\nINVARIANT CalendarSane\nINVARIANT Emit\nCHECK_DEADLOCK FALSE\n" % ", ".join(map(str, years))
    res = tlc.run_tlc("MC_Calendar", cfg_text=cfg, timeout=timeout, name="MC_Calendar/%d years" % len(years))
    if res["error_kind"]:
        tlc.machinery_failure("design model Calendar violates %s\n%s" % (res["error"], res["output"][-2000:]))
    chk.tlc(res)
    rows = []
    for m in ROW.finditer(res["output"]):
        xs = [int(x) for x in INT.findall(m.group(1))]
        yo, mo, dim = xs[0:3]
        pats = [xs[i:i + 9] for i in range(3, len(xs), 9)]
        if (len(xs) - 3) % 9:
            tlc.machinery_failure("cannot parse calendar row %r" % m.group(1)[:200])
        rows.append((yo, mo, dim, pats))
    if res["finished"] and len(rows) != 12 * len(years):
        tlc.machinery_failure("MC_Calendar printed %d rows for %d years" % (len(rows), len(years)))
    return rows


def check_calendar(chk, rep, years, timeout):
    rows = calendar_rows(chk, years, timeout)
    ndates = 0
    for yo, mo, dim, pats in rows:
        first = datetime.date(1900 + yo, mo, 1)
        py_dim = ((first.replace(day=28) + datetime.timedelta(days=4)).replace(day=1) - datetime.timedelta(days=1)).day
        if dim != py_dim:
            tlc.machinery_failure("Calendar.DaysInMonth(%d, %d) = %d, datetime says %d" % (1900 + yo, mo, dim, py_dim))
        days4 = [date4([yo, mo, d]) for d in range(1, dim + 1)]
        ndates += dim
        for p in pats:
            kind, q, mask, mask_dev = p[0], p[1:7], p[7], p[8]
            if kind == 1 and q[0:3] == [ANY, ANY, ANY] and q[3] != ANY:
                # cross-check of the specification's own DayOfWeek against an unrelated implementation
                py = sum(1 << (d - 1) for d in range(1, dim + 1) if datetime.date(1900 + yo, mo, d).isoweekday() == q[3])
                if py != mask:
                    tlc.machinery_failure("Calendar.DayOfWeek disagrees with datetime in %d-%02d (dow %d)" % (1900 + yo, mo, q[3]))
                chk.extra["dayofweek_crosschecked_dates"] = chk.extra.get("dayofweek_crosschecked_dates", 0) + (dim if q[3] == 1 else 0)
            got = impl_mask(kind, q, days4)
            chk.case(("M", yo, mo, kind) + tuple(q), nontrivial=True, n=dim)
            chk.monitor("MatcherExact", dim)
            if got != mask:
                diff = [d for d in range(1, dim + 1) if got == -1 or ((got ^ mask) >> (d - 1)) & 1]
                nparam = {1: 4, 2: 6, 3: 3, 4: 4, 5: 6, 6: 3}[kind]
                # labelled as the known finding only if the result is exactly what the spec's named deviation yields
                label = "wildcard_start_date" if (got == mask_dev and mask_dev != mask) else "mismatch"
                rep.violation("MatcherExact", {"matcher": MATCHER[kind], "pattern": pat_class(kind, q), "case": label},
                              {"year": 1900 + yo, "month": mo, "pattern": q[:nparam], "days_that_differ": diff[:8],
                               "first": {"date": [1900 + yo, mo, diff[0]], "expected_match": bool((mask >> (diff[0] - 1)) & 1),
                                         "got": "raised" if got == -1 else bool((got >> (diff[0] - 1)) & 1)}},
                              {"kind": "matcher", "yo": yo, "m": mo, "pat": [kind] + q})
    if rows:
        yo, mo, dim, pats = rows[len(rows) // 2]
        p = pats[len(pats) // 3]
        chk.sample({"calendar_row": {"year": 1900 + yo, "month": mo, "pattern": p[:7], "expected_day_mask": p[7]}})
    chk.extra["calendar"] = {"months": len(rows), "dates": ndates, "patterns_per_month": len(rows[0][3]) if rows else 0}


# ---- D / R: schedule family --------------------------------------------------------------------------------------------
def tla_tvs(l):
    return "<<" + ", ".join("<<%d, %d>>" % (t, v) for t, v in l) + ">>"


WK_LISTS = [[], [[12 * H, 1]], [[0, 2], [12 * H, 0]], [[0, 1]], [[12 * H, 0]], [[0, 1], [12 * H, 2]], [[0, 0], [12 * H, 1]]]
INVS = ["GridOK", "GridOKLiteral", "M_ShowsScheduledValue", "M_KeepsRunning", "M_NoLivelock", "M_NoChangeBeforeNext",
        "M_NoChangeOnGrid"]
JSONROW = re.compile(r'<<\s*"@@",\s*"((?:[^"\\]|\\.)*)"\s*>>', re.S)


def family(name, d1, d2, periods, prios, slots, nwk, effs, starts, mod, seed, cgrid=H, grid=H // 4, dev=(False, False),
           invs=None, emit=True):
    defs = {"D1": "<<%d, %d, %d>>" % tuple(d1), "D2": "<<%d, %d, %d>>" % tuple(d2),
            "WkLists": "{" + ", ".join(tla_tvs(l) for l in WK_LISTS[:nwk]) + "}"}
    setof = lambda xs: "{" + ", ".join(str(x) for x in xs) + "}"
    consts = {"Prios": setof(prios), "ExcSlots": setof(slots), "PeriodIds": setof(periods), "EffIds": setof(effs),
              "Starts": setof(starts), "Grid": str(grid), "CGrid": str(cgrid), "SampleMod": str(mod),
              "SampleSeed": str(seed % 1000003), "Dev_StopOutsidePeriod": "TRUE" if dev[0] else "FALSE",
              "Dev_DropHundredths": "TRUE" if dev[1] else "FALSE"}
    lines = ["SPECIFICATION Spec", "CHECK_DEADLOCK FALSE"] + ["INVARIANT " + i for i in (invs or INVS)]
    if emit:
        lines.append("INVARIANT Emit")
    lines.append("PROPERTY M_TimeAdvances")
    files, cfg = tlc.mc_wrapper("MCgen_" + name, "MC_Schedule", defs, lines, consts)
    return files, cfg


def run_family(chk, name, timeout, **kw):
    files, cfg = family(name, **kw)
    res = tlc.run_tlc("MCgen_" + name, cfg_text=cfg, files=files, timeout=timeout, name="MC_Schedule/" + name)
    if res["error_kind"]:
        tlc.machinery_failure("design model Schedule (%s) violates %s\n%s" % (name, res["error"], res["output"][-3000:]))
    chk.tlc(res)
    members = []
    for m in JSONROW.finditer(res["output"]):
        members.append(json.loads(json.loads('"' + m.group(1) + '"')))
    return res, members


def sanity_deviation(chk, name, expect, **kw):
    files, cfg = family(name, emit=False, **kw)
    res = tlc.run_tlc("MCgen_" + name, cfg_text=cfg, files=files, timeout=300, name="MC_Schedule/" + name)
    if res["error"] not in expect and res["error_kind"] not in ("invariant", "action_property", "property", "temporal", "assert"):
        tlc.machinery_failure("sanity: deviation config %s should violate %s, got %r\n%s" % (name, expect, res["error"], res["output"][-1500:]))
    chk.extra.setdefault("sanity", []).append("design with named deviation %s violates %s as expected (%d states)" % (
        name, res["error"], res["distinct"]))


def replay_members(chk, rep, members, recs, ids, every_tie=7, route_cap=60):
    """spec -> code: eval on the real object at every grid instant of both days, compared with TLC's vectors.
    Any disagreement is handed to the TLC judge (as a scan record of that day) which classifies it."""
    stats = collections.Counter()
    for mi, mem in enumerate(members):
        cfg, grid = mem["cfg"], mem["grid"]
        G = MID // grid
        b = Built(cfg)
        try:
            P = None
            for day in mem["days"]:
                d3 = day["date"]
                d4 = date4(d3)
                got = [b.eval(d4, g * grid) for g in range(G)]
                chk.case(("R", json.dumps(cfg, sort_keys=True), tuple(d3)), nontrivial=True, n=G)
                stats["grid_evaluations"] += G
                bad = None
                if day["tiefree"]:
                    for g in range(G):
                        val, nx = got[g]
                        if val != day["v"][g]:
                            bad = bad or "value_mismatch"
                            stats["value_mismatch"] += 1
                        elif nx != -1 and not (g * grid < nx <= day["x"][g]):
                            bad = bad or "next_unsafe"
                            stats["next_unsafe"] += 1
                        elif nx != -1 and nx != day["n"][g]:
                            bad = bad or "next_differs_from_design"
                            stats["next_differs_from_design"] += 1
                    stats["tiefree_days"] += 1
                else:
                    stats["tie_days"] += 1
                    bad = "tie_day_sample" if stats["tie_days"] % every_tie == 0 else None
                if bad:
                    stats["days_with_" + bad] += 1
                if bad and stats["days_with_" + bad] <= route_cap:
                    # handed to the TLC judge, which decides and classifies (at most route_cap days per kind)
                    P = P or probes(cfg)
                    ids[0] += 1
                    recs.append({"id": ids[0], "kind": "scan", "cfg": cfg, "days": [{"date": d3, "runs": scan_day(b, d3, P)}],
                                 "_src": "family member", "_replay": {"kind": "scan", "cfg": cfg, "dates": [d3]}})
                if mi < 1 and day is mem["days"][0]:
                    chk.sample({"family_member": cfg, "date": d3, "grid": "15 min", "value_vector_rle": rle(day["v"]),
                                "impl_value_vector_rle": rle([x[0] for x in got])})
        finally:
            b.close()
        # the same member driven by its own timer from D1 00:00 to the end of D2
        d1, d2 = mem["days"][0]["date"], mem["days"][1]["date"]
        add_run(recs, ids, cfg, [d1, 0], [shift(d2, 1), 0], "Real", "family member")
    chk.extra.setdefault("family_replay", collections.Counter()).update(stats)


def rle(xs):
    out = []
    for x in xs:
        if out and out[-1][0] == x:
            out[-1][1] += 1
        else:
            out.append([x, 1])
    return out


def add_run(recs, ids, cfg, t0, end, dtype, src):
    fires, status, errors = timer_run(cfg, t0, end, dtype)
    ids[0] += 1
    recs.append({"id": ids[0], "kind": "run", "cfg": cfg, "pv0": PV0, "end": end, "fires": fires, "_status": status,
                 "_errors": errors, "_src": src, "_replay": {"kind": "run", "cfg": cfg, "t0": t0, "end": end, "dtype": dtype}})
    return status


# ---------------------------------------------------------------------------------------------------------------------
def main(tier, seed):
    chk = Check(PID, tier, seed)
    rep = Reporter(chk)
    rng = random.Random(seed)
    thorough = tier == "thorough"
    chk.rule = ("matchers: one case = one (month, pattern) evaluated by the real matcher on every day of the month against the "
                "day set TLC derived from Calendar.tla; schedules: one case = one (configuration, day) evaluated by the real "
                "eval at every grid / probe instant, or one timer-driven run of a real LocalScheduleObject; every case "
                "is distinct by construction (TLC enumeration or seeded generator) and non-trivial (a real evaluation)")
    chk.assumptions = [
        "TZ=UTC (DST behaviour of mktime is not decided); virtual clock (task._time / TaskManager.get_time patched)",
        "time-value lists are in chronological order with distinct times (the property says 'sorted')",
        "date-range bounds are specific dates or fully unspecified (X'FF' in year, month and day); the day-of-week octet of a bound is ignored",
        "equal-priority exceptions in force on the same day: the property fixes no tie-break, EvalCorrect is not applied "
        "to such days; NoChangeBeforeNext is applied to them in its oracle-free form",
        "outside the effective period there is no scheduled value: Present_Value is unconstrained there, only the timer "
        "obligations (KeepsRunning, NoLivelock, no missed period edge) apply",
        "week-of-month codes 1..9 (135-2012); TLC exhaustive only on the stated small family, larger schedules by trace validation",
    ]
    for m in MONITORS:
        chk.monitors.setdefault(m, 0)
    phases = chk.extra.setdefault("phase_wall_s", {})
    tick = [time.time()]

    def phase(name):
        phases[name] = round(time.time() - tick[0], 1)
        tick[0] = time.time()
    # ---- calendar: D + R -------------------------------------------------------------------------------------------
    years = list(range(0, 255)) if thorough else [0, 99, 100, 123, 124, 200, 201, 254]
    check_calendar(chk, rep, years, 1500 if thorough else 300)
    phase("calendar")
    # ---- schedule family: D ----------------------------------------------------------------------------------------
    pairs = [([124, 2, 29], [124, 3, 1])]
    recs, ids = [], [0]
    if thorough:
        pairs.append(([123, 12, 31], [124, 1, 1]))
        fam = dict(periods=[1, 2, 3, 4, 6], prios=[1, 2, 16], slots=[6 * H, 18 * H], nwk=5, effs=[1, 2, 3, 4], starts=[0], mod=151)
        fam2 = dict(periods=[1, 2, 3, 5], prios=[1, 8, 16], slots=[0, 12 * H], nwk=3, effs=[1, 5, 3], starts=[9 * H], mod=61)
    else:
        fam = dict(periods=[1, 2, 3], prios=[1, 16], slots=[6 * H, 18 * H], nwk=2, effs=[1, 2, 3], starts=[0], mod=29)
        fam2 = None
    res, members = run_family(chk, "main", 1500 if thorough else 400, d1=pairs[0][0], d2=pairs[0][1], seed=seed, **fam)
    if fam2:
        res2, members2 = run_family(chk, "yearend", 900, d1=pairs[1][0], d2=pairs[1][1], seed=seed + 1, **fam2)
        members += members2
    small = dict(d1=pairs[0][0], d2=pairs[0][1], periods=[1], prios=[1], nwk=2, starts=[0], mod=1, seed=0)
    sanity_deviation(chk, "dev_stop", ("M_KeepsRunning",), slots=[6 * H], effs=[2, 3], dev=(True, False), **small)
    sanity_deviation(chk, "dev_hundredths", ("M_NoLivelock", "M_TimeAdvances"), slots=[6 * H + 50], effs=[1], dev=(False, True), **small)
    phase("schedule_family_tlc")
    # ---- R: sampled members on the real code -----------------------------------------------------------------------
    replay_members(chk, rep, members, recs, ids)
    phase("family_replay")
    chk.extra["family_members_replayed"] = len(members)
    # ---- T: random schedules ---------------------------------------------------------------------------------------
    ncfg = 1500 if thorough else 220
    status_count = collections.Counter()
    for ci in range(ncfg):
        if HANGS[0] >= 3:
            break
        cfg, F = rand_cfg(rng, force="plain" if ci % 3 == 0 else None)
        dtype = rng.choice(["Real", "Real", "Unsigned", "Integer"])
        days = [shift(F, k) for k in (-1, 0, 1, 2)]
        b = Built(cfg, dtype)
        try:
            P = probes(cfg)
            ids[0] += 1
            recs.append({"id": ids[0], "kind": "scan", "cfg": cfg, "days": [{"date": d, "runs": scan_day(b, d, P)} for d in days],
                         "_src": "random", "_replay": {"kind": "scan", "cfg": cfg, "dates": days, "dtype": dtype}})
            chk.case(("T-scan", ci), nontrivial=True, n=len(P) * len(days))
            # the calendars a schedule refers to are objects of their own: after their date lists have been edited (here: swapped
            # round / emptied) the SAME schedule object, already evaluated on these days, shows what the calendars say now
            if cfg["cals"] and any(x["period"]["kind"] == "cal" for x in cfg["exc"]):
                cals2 = [list(l) for l in cfg["cals"][1:] + cfg["cals"][:1]] if len(cfg["cals"]) > 1 and cfg["cals"][0] != cfg["cals"][1] \
                    else [[] for _ in cfg["cals"]]
                cfg2 = dict(cfg, cals=cals2)
                for co, lst in zip(b.objs, cals2):
                    co.dateList = ListOf(CalendarEntry)([mk_entry(e) for e in lst])
                ids[0] += 1
                recs.append({"id": ids[0], "kind": "scan", "cfg": cfg2, "days": [{"date": d, "runs": scan_day(b, d, P)} for d in days],
                             "_src": "random, calendars edited", "_replay": {"kind": "scan", "cfg": cfg2, "dates": days, "dtype": dtype}})
                chk.case(("T-scan-edited", ci), nontrivial=True, n=len(P) * len(days))
        finally:
            b.close()
        # (a sub-second creation instant only for dates after 1970: Time.now() of a negative fractional clock is another story)
        t0 = [shift(F, -rng.choice([1, 1, 2])), rng.randrange(86400) * 100 + (50 if rng.random() < 0.1 and F[0] > 70 else 0)]
        end = [shift(F, rng.randint(2, 6)), 0]
        st = add_run(recs, ids, cfg, t0, end, dtype, "random")
        status_count[st] += 1
        chk.case(("T-run", ci), nontrivial=True, n=len(recs[-1]["fires"]))
        if ci < 2:
            chk.sample({"random_cfg": cfg, "run_from": t0, "run_to": end, "status": st, "first_fires": recs[-1]["fires"][:6]})
    if HANGS[0]:
        for r in recs:
            if r.get("_status") == "hang":
                rep.violation("NoLivelock", {"case": "hang", "via": "timer"}, {"cfg": r["cfg"], "fires": r["fires"][-3:]}, r["_replay"])
    chk.extra["timer_run_status"] = dict(status_count)
    chk.extra["records_judged"] = {"scan": sum(1 for r in recs if r["kind"] == "scan"), "run": sum(1 for r in recs if r["kind"] == "run"),
                                   "scan_days": sum(len(r["days"]) for r in recs if r["kind"] == "scan"),
                                   "fires": sum(len(r["fires"]) for r in recs if r["kind"] == "run")}
    for r in recs:
        if r["kind"] == "run" and r["_src"] == "family member":
            chk.case(("R-run", r["id"]), nontrivial=True, n=len(r["fires"]))
    phase("random_schedules")
    judge(chk, rep, recs, "all")
    phase("judge_tlc")
    rep.finish()
    if "family_replay" in chk.extra:
        chk.extra["family_replay"] = dict(chk.extra["family_replay"])
    return chk.finish()


def replay(path):
    body = json.load(open(path))
    rp = body["replay"]
    chk = Check(PID, "quick", body.get("seed", 0))
    rep = Reporter(chk, dry=True)
    print("replaying %s %s" % (body.get("monitor"), json.dumps(body.get("sig"))))
    if rp["kind"] == "matcher":
        rows = calendar_rows(chk, [rp["yo"]], 300)
        for yo, mo, dim, pats in rows:
            if mo != rp["m"]:
                continue
            for p in pats:
                if p[:7] == rp["pat"]:
                    days4 = [date4([yo, mo, d]) for d in range(1, dim + 1)]
                    got = impl_mask(p[0], p[1:7], days4)
                    print("pattern %r in %d-%02d: spec day mask %s, implementation %s" % (p[:7], 1900 + yo, mo, bin(p[7]), bin(got) if got >= 0 else "raised"))
                    if got != p[7]:
                        label = "wildcard_start_date" if (got == p[8] and p[8] != p[7]) else "mismatch"
                        rep.violation("MatcherExact", {"matcher": MATCHER[p[0]], "pattern": pat_class(p[0], p[1:7]), "case": label},
                                      {"year": 1900 + yo, "month": mo, "pattern": p[1:7]}, rp)
    elif rp["kind"] == "scan":
        b = Built(rp["cfg"], rp.get("dtype", "Real"))
        try:
            P = probes(rp["cfg"])
            rec = {"id": 1, "kind": "scan", "cfg": rp["cfg"], "days": [{"date": d, "runs": scan_day(b, d, P)} for d in rp["dates"]],
                   "_replay": rp}
        finally:
            b.close()
        for d in rec["days"]:
            print(json.dumps(d)[:800])
        v = judge(chk, rep, [rec], "replay")
        print("verdict:", sorted(v[1]["fails"]))
    else:
        recs, ids = [], [0]
        st = add_run(recs, ids, rp["cfg"], rp["t0"], rp["end"], rp.get("dtype", "Real"), "replay")
        print("status:", st, "errors:", recs[0]["_errors"])
        for f in recs[0]["fires"][-6:]:
            print(json.dumps(f))
        v = judge(chk, rep, recs, "replay")
        print("verdict:", sorted(v[1]["fails"]))
    n = sum(rep.counts.values())
    print("%s replay: %d monitor failure(s) reproduced" % (PID, n))
    return 1 if n else 0
