"""C02 -- Tag streams are self-delimiting: framing is total, canonical and balanced.   (spec/Tags.tla, MC_Tags.tla)

D  TLC evaluates the theorems of Tags.tla: list round trip / canonical header over class x number x length-escape
   grids (lists of 0..3 tags, long data symbolic); decoder total, stable, never over-reading on ALL octet strings up
   to length 2 (quick) / 3 (thorough) plus all strings over a 24-symbol class alphabet up to length 4;
   GetContext / Any.decode (operational) = their declarative counterparts in terms of Balanced for every
   open/close/context word up to length 6 (quick) / 8 (thorough).
R  spec -> code: TLC writes (list, expected octets) for every list of 0..2 grid tags and (string, expected list |
   Invalid, first tag, octets used, canonical?) for every string <= 2 octets + alphabet strings <= 3; the harness
   runs Tag/TagList.encode/decode (and the ApplicationTag/ContextTag/OpeningTag/ClosingTag constructors) on each
   and compares exactly.
T  code -> spec: get_context (two context numbers) and Any.decode/encode on every word, results validated by TLC;
   seeded random strings, random tag lists encoded by the implementation, and mutated valid encodings
   (incl. 65535/65536/70000-octet data), recorded as ndjson and validated by TLC against DecList / EncList /
   GetContext.  The implementation alone is swept over all strings <= 2 (quick) / <= 3 (thorough, 16.8 M):
   terminates, fails only with the reject family, re-encoding decodes to the same list.

Verdicts.  Encoder output and the decoding of canonical encodings must equal the spec exactly (first sentence of the
property).  For other strings the property is an either-or (a list whose re-encoding decodes to itself, or an
invalid-tag error): a disagreement with DecList there is a violation only if that either-or fails on the
implementation; otherwise it is recorded as a conformance deviation.
"invalid-tag error": errors.py defines the *reject family* (RejectException: InvalidTag and the sibling reasons its
docstring allows for "an invalid tag could confuse the parsing logic"); these become Reject PDUs upstream.
DecodingError (a ValueError) is outside that family and is what Tag.decode is meant to translate; it is accepted only
from the tag-LIST level operations (Any.decode raises it for unbalanced input), never from the octet decoder.
"""
import os, sys, json, random, time, shutil, itertools, multiprocessing
from common import Check, VERIF, Hang, watchdog
import tlc

from bacpypes.primitivedata import Tag, TagList, ApplicationTag, ContextTag, OpeningTag, ClosingTag
from bacpypes.pdu import PDUData
from bacpypes.constructeddata import Any
from bacpypes.errors import RejectException, DecodingError

PID = "C02"
ALPHA = [0x00, 0x01, 0x02, 0x03, 0x04, 0x05, 0x06, 0x07, 0x09, 0x0D, 0x0E, 0x0F, 0x11, 0x15, 0x1D, 0x21,
         0xF0, 0xF1, 0xF5, 0xF9, 0xFC, 0xFD, 0xFE, 0xFF]
NUMS = [0, 1, 14, 15, 16, 254]
LENS = [0, 1, 2, 3, 4, 5, 6, 253, 254, 255, 256, 65535, 65536, 70000]
CTXA, CTXB = 1, 15


def tla_set(xs):
    return "{" + ", ".join(str(x) for x in xs) + "}"


def cfg(init, invs, post=None, **kw):
    c = dict(Nums=tla_set(NUMS), Lens=tla_set(LENS), Nums3="{0}", Lens3="{0}", MaxStr=0, Alpha=tla_set(ALPHA), MaxAlpha=0,
             MaxWord=0, CtxA=CTXA, CtxB=CTXB, EmitStr=0, EmitAlpha=0)
    c.update(kw)
    t = "INIT %s\nNEXT %s\nCHECK_DEADLOCK FALSE\n" % (init, init.replace("Init", "Next")) + "".join("INVARIANT %s\n" % i for i in invs)
    if post:
        t += "POSTCONDITION %s\n" % post
    return t + "CONSTANTS\n" + "".join("  %s = %s\n" % kv for kv in c.items())


def pool_size():
    return max(1, min(8, int(os.environ.get("VERIF_TLC_WORKERS", "16")), multiprocessing.cpu_count()))


# ---- rendering (trusted, dumb): items -> octets, tag records -> Tag objects, Tag objects -> tuples ------------
PAT = bytes(range(32, 127))


def blob(n):
    """the n opaque data octets a blob item -n stands for (position coded, depends on n only)"""
    r = n % 95
    p = PAT[r:] + PAT[:r]
    return (p * (n // 95 + 1))[:n]


def render(items):
    if all(x >= 0 for x in items):
        return bytes(items)
    return b"".join(bytes([x]) if x >= 0 else blob(-x) for x in items)


def want(t):
    """spec tag record -> comparable tuple"""
    return (t["cls"], t["num"], t["lvt"], render(t["data"]))


def proj(tag):
    return (tag.tagClass, tag.tagNumber, tag.tagLVT, bytes(tag.tagData))


def mk(t):
    return Tag(t[0], t[1], t[2], t[3])


def as_rec(t):
    return {"cls": t[0], "num": t[1], "lvt": t[2], "data": list(t[3])}


# ---- the implementation, wrapped ------------------------------------------------------------------------------
def impl_encode(tuples):
    pdu = PDUData()
    TagList([mk(t) for t in tuples]).encode(pdu)
    return bytes(pdu.pduData)


def impl_decode(b):
    """TagList.decode on octets: ("ok", TagList, leftover) | ("invalid", name) | ("error", text)"""
    pdu = PDUData(b)
    tl = TagList()
    try:
        tl.decode(pdu)
    except RejectException as e:
        return ("invalid", type(e).__name__)
    except Exception as e:
        return ("error", "%s: %s" % (type(e).__name__, e))
    return ("ok", tl, len(pdu.pduData))


def impl_decode1(b):
    """Tag.decode of the first tag: ("ok", tuple, used, rest_ok) | ("invalid",) | ("error", text)"""
    pdu = PDUData(b)
    try:
        t = Tag(pdu)
    except RejectException:
        return ("invalid",)
    except Exception as e:
        return ("error", "%s: %s" % (type(e).__name__, e))
    used = len(b) - len(pdu.pduData)
    return ("ok", proj(t), used, bytes(pdu.pduData) == b[used:])


def self_consistent(b):
    """the property's either-or for an arbitrary string, on the implementation alone.
    None if it holds, else (monitor, explanation)"""
    r = impl_decode(b)
    if r[0] == "invalid":
        return None
    if r[0] == "error":
        return ("OnlyInvalidTag", r[1])
    tl = r[1]
    if r[2]:
        return ("ConsumesAll", "%d octets left" % r[2])
    p2 = PDUData()
    try:
        tl.encode(p2)
    except Exception as e:
        return ("RoundTrip", "re-encoding the decoded list raised %s: %s" % (type(e).__name__, e))
    r2 = impl_decode(bytes(p2.pduData))
    if r2[0] != "ok" or [proj(t) for t in r2[1].tagList] != [proj(t) for t in tl.tagList]:
        return ("RoundTrip", "decoded list re-encodes to %s which decodes to %s" % (
            bytes(p2.pduData).hex(), r2[0] if r2[0] != "ok" else [proj(t) for t in r2[1].tagList][:4]))
    return None


HANGS = [0]


def guarded(chk, fn, what, replay):
    """run fn() under the watchdog; a hang is a violation of the 'terminates' clause"""
    if HANGS[0] >= 3:
        return None
    try:
        with watchdog(10):
            return fn()
    except Hang:
        HANGS[0] += 1
        chk.violation("Terminates", {"api": what}, {"what": "no return within 10 s", "input": replay}, replay)
        return None


def input_class(b, canon, exp_ok):
    return "canonical" if canon else ("noncanonical" if exp_ok else "spec-invalid")


def judge_string(chk, b, exp_ok, exp_tags, canon, where):
    """compare TagList.decode(b) with the spec's DecList"""
    rp = {"kind": "string", "octets": b.hex()} if len(b) <= 4096 else {"kind": "string", "octets": b[:64].hex(), "truncated": True, "len": len(b)}
    got = guarded(chk, lambda: impl_decode(b), "TagList.decode", rp)
    if got is None:
        return
    chk.monitor("DecodeEqualsSpec")
    chk.monitor("OnlyInvalidTag", 0 if got[0] == "ok" else 1)
    sig = {"api": "TagList.decode", "input": input_class(b, canon, exp_ok), "where": where}
    if got[0] == "error":
        chk.violation("OnlyInvalidTag", sig, {"octets": rp["octets"], "raised": got[1], "expected": "a tag list" if exp_ok else "invalid-tag error"}, rp)
        return
    got_tags = [proj(t) for t in got[1].tagList] if got[0] == "ok" else None
    if got[0] == "ok":
        chk.monitor("ConsumesAll")
        if got[2]:
            chk.violation("ConsumesAll", sig, {"octets": rp["octets"], "left": got[2]}, rp)
            return
    if (got[0] == "ok") == exp_ok and (not exp_ok or got_tags == exp_tags):
        return
    detail = {"octets": rp["octets"], "expected": [str(t)[:80] for t in exp_tags[:6]] if exp_ok else "Invalid",
              "got": [str(t)[:80] for t in got_tags[:6]] if got_tags is not None else got[1]}
    if canon:
        # b is exactly what an encoder emits for exp_tags: the property's first sentence demands that list back
        chk.violation("DecodeEqualsSpec", sig, detail, rp)
        return
    sc = guarded(chk, lambda: self_consistent(b), "TagList.decode/encode", rp)
    if sc:
        chk.violation(sc[0], sig, dict(detail, why=sc[1]), rp)
    else:
        chk.deviation(dict(detail, where=where, note="differs from DecList on a non-canonical string; the property's either-or holds"))


# ---- R: grid lists ---------------------------------------------------------------------------------------------
def replay_grid(chk, path):
    n = 0
    with open(path) as f:
        for line in f:
            r = json.loads(line)
            exp_l = [want(t) for t in r["l"]]
            exp_o = render(r["o"])
            n += 1
            key = ("grid", tuple((t[0], t[1], t[2]) for t in exp_l))
            chk.case(key, nontrivial=any(t[0] >= 2 or t[1] >= 15 or t[2] >= 5 or (t[0] == 0 and t[1] == 1) for t in exp_l), n=2)
            rp = {"kind": "list", "tags": [[t[0], t[1], t[2], len(t[3])] for t in exp_l]}
            sig_case = sorted(set(tag_case(t) for t in exp_l))
            got_o = guarded(chk, lambda: safe(lambda: impl_encode(exp_l)), "TagList.encode", rp)
            if got_o is None:
                continue
            chk.monitor("EncodeEqualsSpec")
            if got_o != exp_o:
                chk.violation("EncodeEqualsSpec", {"api": "TagList.encode", "case": sig_case},
                              {"list": rp["tags"], "expected_head": exp_o[:24].hex(), "got_head": show(got_o)[:48],
                               "expected_len": len(exp_o), "got_len": len(got_o) if isinstance(got_o, bytes) else None}, rp)
            # decoding the canonical octets gives the list back and uses every octet
            got = guarded(chk, lambda: impl_decode(exp_o), "TagList.decode", rp)
            if got is None:
                continue
            chk.monitor("DecodeEqualsSpec")
            chk.monitor("RoundTrip")
            if got[0] != "ok":
                chk.violation("DecodeEqualsSpec" if got[0] == "invalid" else "OnlyInvalidTag", {"api": "TagList.decode", "case": sig_case},
                              {"list": rp["tags"], "octets_head": exp_o[:24].hex(), "got": got[1]}, rp)
                continue
            chk.monitor("ConsumesAll")
            got_l = [proj(t) for t in got[1].tagList]
            if got[2]:
                chk.violation("ConsumesAll", {"api": "TagList.decode", "case": sig_case}, {"list": rp["tags"], "left": got[2]}, rp)
            elif got_l != exp_l:
                chk.violation("DecodeEqualsSpec", {"api": "TagList.decode", "case": sig_case},
                              {"list": rp["tags"], "octets_head": exp_o[:24].hex(), "got": [(t[0], t[1], t[2], len(t[3])) for t in got_l[:6]]}, rp)
            if len(exp_l) == 1:
                # the four convenience constructors build the same tag
                t = exp_l[0]
                try:
                    if t[0] == 0 and not t[1] == 1:
                        alt = ApplicationTag(t[1], t[3])
                    elif t[0] == 1:
                        alt = ContextTag(t[1], t[3])
                    elif t[0] == 2:
                        alt = OpeningTag(t[1])
                    elif t[0] == 3:
                        alt = ClosingTag(t[1])
                    else:
                        alt = None
                    if alt is not None:
                        p = PDUData()
                        alt.encode(p)
                        chk.case(("ctor",) + key)
                        if bytes(p.pduData) != exp_o:
                            chk.violation("EncodeEqualsSpec", {"api": type(alt).__name__, "case": sig_case},
                                          {"list": rp["tags"], "expected_head": exp_o[:24].hex(), "got_head": bytes(p.pduData)[:24].hex()}, rp)
                        # and the typed decoding constructors accept exactly their own class
                        for klass, c in ((ApplicationTag, 0), (ContextTag, 1), (OpeningTag, 2), (ClosingTag, 3)):
                            try:
                                back = klass(PDUData(exp_o))
                                okk = proj(back) == t
                            except RejectException:
                                okk = None
                            if (c == t[0]) != (okk is True):
                                chk.violation("DecodeEqualsSpec", {"api": klass.__name__ + "(pdu)", "case": sig_case},
                                              {"list": rp["tags"], "accepted": okk}, rp)
                except Exception as e:
                    chk.violation("EncodeEqualsSpec", {"api": "constructors", "case": sig_case}, {"list": rp["tags"], "raised": repr(e)}, rp)
            if n % 9001 == 1:
                chk.sample({"list": rp["tags"], "octets_head": exp_o[:16].hex(), "octets_len": len(exp_o)})
    return n


def safe(fn):
    try:
        return fn()
    except Exception as e:
        return "raised %s: %s" % (type(e).__name__, e)


def show(x):
    return x.hex() if isinstance(x, (bytes, bytearray)) else str(x)


def tag_case(t):
    """which framing feature a tag exercises (signature of a violation)"""
    cls = ["app", "ctx", "open", "close"][t[0]]
    num = "num>=15" if t[1] >= 15 else "num<15"
    l = t[2]
    esc = "n/a" if t[0] >= 2 else "bool" if (t[0] == 0 and t[1] == 1) else "len<=4" if l <= 4 else "len5..253" if l <= 253 else "len254..65535" if l <= 65535 else "len>=65536"
    return "%s/%s/%s" % (cls, num, esc)


# ---- R: strings ------------------------------------------------------------------------------------------------
def replay_strings(chk, path):
    n = 0
    with open(path) as f:
        for line in f:
            r = json.loads(line)
            b = bytes(r["s"])
            n += 1
            exp_tags = [want(t) for t in r["tags"]]
            chk.case(("str", b), nontrivial=True, n=2)
            judge_string(chk, b, r["ok"], exp_tags, r["canon"], "all<=2+alphabet")
            # the first tag alone: Tag(pdu) leaves exactly the rest
            rp = {"kind": "string", "octets": b.hex()}
            g1 = guarded(chk, lambda: impl_decode1(b), "Tag.decode", rp)
            if g1 is None:
                continue
            sig = {"api": "Tag.decode", "input": "canonical" if r["canon1"] else ("noncanonical" if r["ok1"] else "spec-invalid"), "where": "all<=2+alphabet"}
            if g1[0] == "error":
                chk.violation("OnlyInvalidTag", sig, {"octets": b.hex(), "raised": g1[1]}, rp)
                continue
            if g1[0] == "ok":
                chk.monitor("ConsumesAll")
                if not g1[3] or g1[2] > len(b):
                    chk.violation("ConsumesAll", sig, {"octets": b.hex(), "used": g1[2], "what": "what is left in the buffer is not the rest of the input"}, rp)
                    continue
            agree = (g1[0] == "ok") == r["ok1"] and (not r["ok1"] or (g1[1] == want(r["tag1"]) and g1[2] == r["used"]))
            if not agree:
                detail = {"octets": b.hex(), "expected": [str(want(r["tag1"])), r["used"]] if r["ok1"] else "Invalid", "got": [str(g1[1]), g1[2]] if g1[0] == "ok" else "invalid"}
                if r["canon1"]:
                    chk.violation("DecodeEqualsSpec" if g1[0] != "ok" or g1[1] != want(r["tag1"]) else "ConsumesAll", sig, detail, rp)
                else:
                    chk.deviation(dict(detail, api="Tag.decode"))
            if n % 17001 == 3:
                chk.sample({"octets": b.hex(), "spec": [str(t) for t in exp_tags] if r["ok"] else "Invalid", "canonical": r["canon"]})
    return n


# ---- implementation alone over all short strings ------------------------------------------------------------------
def sweep_chunk(task):
    L, first = task
    n_ok = n_inv = 0
    fails = []
    hangs = 0
    rests = [bytes(x) for x in itertools.product(range(256), repeat=max(L - 2, 0))] if L >= 2 else [b""]
    heads = [bytes([first])] if L >= 1 else [b""]
    lasts = [bytes([x]) for x in range(256)] if L >= 2 else [b""]
    for mid in rests:
        pre = heads[0] + mid
        try:
            with watchdog(20):
                for last in lasts:
                    s = pre + last
                    pdu = PDUData(s)
                    tl = TagList()
                    try:
                        tl.decode(pdu)
                    except RejectException:
                        n_inv += 1
                        continue
                    except Exception as e:
                        fails.append(("OnlyInvalidTag", s.hex(), "%s: %s" % (type(e).__name__, e)))
                        continue
                    n_ok += 1
                    if pdu.pduData:
                        fails.append(("ConsumesAll", s.hex(), "%d left" % len(pdu.pduData)))
                        continue
                    p2 = PDUData()
                    try:
                        tl.encode(p2)
                        tl2 = TagList()
                        tl2.decode(PDUData(p2.pduData))
                        same = [(t.tagClass, t.tagNumber, t.tagLVT, t.tagData) for t in tl.tagList] == \
                               [(t.tagClass, t.tagNumber, t.tagLVT, t.tagData) for t in tl2.tagList]
                    except Exception as e:
                        fails.append(("RoundTrip", s.hex(), "%s: %s" % (type(e).__name__, e)))
                        continue
                    if not same:
                        fails.append(("RoundTrip", s.hex(), "re-encoded as %s" % bytes(p2.pduData).hex()))
        except Hang:
            hangs += 1
            fails.append(("Terminates", pre.hex() + "??", "no return within 20 s for some last octet"))
            if hangs >= 2:
                break
        if len(fails) > 50:
            break
    return L, first, n_ok, n_inv, fails[:50]


def sweep_impl(chk, maxlen):
    tasks = [(0, 0)] + [(L, a) for L in range(1, maxlen + 1) for a in range(256)]
    t0 = time.time()
    tot_ok = tot_inv = 0
    allfails = []
    if maxlen >= 3 and pool_size() > 1:
        with multiprocessing.get_context("fork").Pool(pool_size()) as pool:
            results = pool.map(sweep_chunk, tasks, chunksize=4)
    else:
        results = [sweep_chunk(t) for t in tasks]
    for L, first, n_ok, n_inv, fails in results:
        tot_ok += n_ok
        tot_inv += n_inv
        allfails += fails
    n = tot_ok + tot_inv
    chk.case(("sweep", maxlen), n=n)
    chk.monitor("OnlyInvalidTag", tot_inv)
    chk.monitor("RoundTrip", tot_ok)
    chk.monitor("ConsumesAll", tot_ok)
    chk.extra["impl_sweep"] = {"all_strings_up_to": maxlen, "strings": n, "decoded": tot_ok, "invalid_tag": tot_inv,
                               "failures": len(allfails), "wall_s": round(time.time() - t0, 1)}
    seen = set()
    for mon, hx, why in allfails:
        k = (mon, hx[:2])
        if k in seen and len(seen) > 8:
            continue
        seen.add(k)
        chk.violation(mon, {"api": "TagList.decode", "where": "sweep", "first_octet": hx[:2]}, {"octets": hx, "why": why},
                      {"kind": "string", "octets": hx.replace("?", "0")})


# ---- T: words ---------------------------------------------------------------------------------------------------
SYMCLS = [2, 2, 3, 3, 1, 1]


def word_results(maxword):
    """get_context(CtxA), get_context(CtxB), Any.decode/encode on every word; codes as in MC_Tags.PosCode/AnyCode.
    Tags are pooled per (position, symbol); results are projected back to positions by object identity."""
    poolt = [[Tag(SYMCLS[s], CTXA if s % 2 == 0 else CTXB, 0, b"") for s in range(6)] for _ in range(maxword)]
    for i, row in enumerate(poolt):
        for t in row:
            t._pos = i + 1
    lines = []

    def gc_code(word, ctx):
        try:
            r = TagList(list(word)).get_context(ctx)
        except (RejectException, DecodingError):
            return 1
        except Exception:
            return 2
        if r is None:
            return 0
        if isinstance(r, Tag):
            return 100 + r._pos if any(r is w for w in word) else 3
        if isinstance(r, TagList):
            ps = [getattr(t, "_pos", -1) for t in r.tagList]
            if not ps:
                return 1000
            if ps != list(range(ps[0], ps[-1] + 1)) or any(t is not word[t._pos - 1] for t in r.tagList):
                return 3
            return 1000 + 10 * ps[0] + ps[-1]
        return 3

    def any_code(word):
        src = TagList(list(word))
        a = Any()
        try:
            a.decode(src)
        except (RejectException, DecodingError):
            return 99
        except Exception:
            return 98
        taken = a.tagList.tagList
        k = len(taken)
        if any(taken[i] is not word[i] for i in range(k)) or len(src.tagList) != len(word) - k or \
                any(src.tagList[i] is not word[k + i] for i in range(len(word) - k)):
            return 97
        out = TagList()
        a.encode(out)
        if len(out.tagList) != k or any(out.tagList[i] is not word[i] for i in range(k)):
            return 96
        return k

    n = 0
    for L in range(0, maxword + 1):
        ra, rb, rany = [], [], []
        for k in range(6 ** L):
            word = []
            kk = k
            for i in range(L):
                word.append(poolt[i][kk % 6])
                kk //= 6
            ra.append(gc_code(word, CTXA))
            rb.append(gc_code(word, CTXB))
            rany.append(any_code(word))
            n += 1
        lines.append({"len": L, "a": ra, "b": rb, "any": rany})
    return lines, n


def code_name(c):
    return {0: "none", 1: "invalid", 2: "other-exception", 3: "garbled", 99: "error", 98: "other-exception", 97: "garbled", 96: "encode-differs"}.get(
        c, "tag" if 100 <= c < 1000 else "group" if c >= 1000 else "taken")


def check_words(chk, maxword):
    t0 = time.time()
    lines, n = None, 0
    try:
        with watchdog(600):
            lines, n = word_results(maxword)
    except Hang:
        chk.violation("Terminates", {"api": "get_context/Any.decode"}, {"what": "word sweep did not finish"}, {"kind": "word", "word": []})
        return
    wd = tlc.workdir("c02w")
    try:
        tf = os.path.join(wd, "words.ndjson")
        with open(tf, "w") as f:
            for l in lines:
                f.write(json.dumps(l) + "\n")
        res = tlc.run_tlc("MC_Tags", cfg_text=cfg("InitWord", ["InvWord"], MaxWord=maxword), env={"TRACE_FILE": tf},
                          timeout=1500, name="Tags/words<=%d" % maxword, workers=rec_workers() if maxword > 6 else None,
                          heap="10g" if maxword > 6 else "4g")
    finally:
        shutil.rmtree(wd, ignore_errors=True)
    design_ok(chk, res)
    bad = tlc.printed_values(res["output"])
    chk.case(("words", maxword), n=3 * n)
    chk.monitor("ContextIffBalanced", 3 * n)
    chk.traces_validated += max(0, n - len(bad)) if res["finished"] else 0
    chk.extra["words"] = {"max_len": maxword, "words": n, "impl_calls": 3 * n, "disagreeing_words": len(bad), "wall_s": round(time.time() - t0, 1)}
    for v in bad[:40]:
        for i, api in enumerate(("get_context(a)", "get_context(b)", "Any.decode")):
            e, g = v["exp"][i], v["got"][i]
            if e != g:
                chk.violation("OnlyInvalidTag" if g == (2 if i < 2 else 98) else "ContextIffBalanced",
                              {"api": api.split("(")[0], "expected": code_name(e), "got": code_name(g)},
                              {"word": word_text(v["w"]), "ctx_a": CTXA, "ctx_b": CTXB, "api": api, "expected_code": e, "got_code": g},
                              {"kind": "word", "word": list(v["w"])})
    if lines and maxword >= 4:
        k = 6 ** 3 * 4 + 6 ** 2 * 2 + 6 * 5 + 0      # open a, ctx b, close a, ctx a
        chk.sample({"word": word_text([0, 5, 2, 4]), "get_context(a)": lines[4]["a"][k], "get_context(b)": lines[4]["b"][k], "any": lines[4]["any"][k]})


def word_text(w):
    names = ["open(a)", "open(b)", "close(a)", "close(b)", "ctx(a)", "ctx(b)"]
    return " ".join(names[x] for x in w)


# ---- T: random and mutated strings ---------------------------------------------------------------------------------
def rand_tag(rng, small=False):
    cls = rng.choice([0, 0, 1, 1, 1, 2, 3])
    num = rng.choice([0, 1, 2, 3, 7, 12, 14, 15, 16, 100, 253, 254, rng.randrange(255)])
    if cls >= 2:
        return (cls, num, 0, b"")
    if cls == 0 and num == 1:
        return (0, 1, rng.choice([0, 1, 1, 2, 4, 5, 7, 253, 254, 300, 65536]), b"")
    n = rng.choice([0, 1, 2, 3, 4, 4, 5, 5, 6, 8, 30] + ([] if small else [252, 253, 254, 255, 256, 300]))
    return (cls, num, n, rng.randbytes(n))


def rand_body(rng, depth=0):
    """a service-body shaped list: context primitives, application primitives, nested open/close groups"""
    out = []
    for _ in range(rng.randint(1, 4)):
        r = rng.random()
        if r < 0.35 or depth >= 4:
            n = rng.choice([1, 1, 2, 4, 4, 5, 12])
            out.append((1, rng.choice([0, 1, 2, 3, 15, 254]), n, rng.randbytes(n)))
        elif r < 0.6:
            num = rng.choice([0, 1, 2, 3, 4, 6, 7, 8, 9, 10, 11, 12])
            if num == 1:
                out.append((0, 1, rng.randint(0, 1), b""))
            else:
                n = {0: 0, 4: 4, 5: 8, 10: 4, 11: 4, 12: 4}.get(num, rng.choice([1, 2, 3, 4, 7]))
                out.append((0, num, n, rng.randbytes(n)))
        else:
            c = rng.choice([0, 1, 2, 3, 15])
            out += [(2, c, 0, b"")] + rand_body(rng, depth + 1) + [(3, c, 0, b"")]
    return out


STRUCT = [5, 253, 254, 255, 0x0E, 0x0F, 0x1E, 0x1F, 0xF5, 0xFD, 0x15, 0x06, 0x07, 0, 1, 4]


def mutate(rng, b):
    b = bytearray(b)
    for _ in range(rng.choice([1, 1, 1, 2, 3])):
        op = rng.randrange(6)
        if not b:
            b.append(rng.randrange(256))
            continue
        i = rng.randrange(len(b))
        if op == 0:
            b[i] ^= 1 << rng.randrange(8)
        elif op == 1:
            b[i] = rng.choice(STRUCT)
        elif op == 2:
            del b[i:]
        elif op == 3:
            del b[i]
        elif op == 4:
            b.insert(i, rng.choice(STRUCT + [rng.randrange(256)]))
        else:
            j = min(len(b), i + rng.randint(1, 6))
            b[i:i] = b[i:j]
    return bytes(b)


def gc_pos_code(tl, ctx):
    """get_context on a decoded list, as MC_Tags.PosCode"""
    word = tl.tagList
    try:
        r = TagList(list(word)).get_context(ctx)
    except (RejectException, DecodingError):
        return 1
    except Exception:
        return 2
    if r is None:
        return 0
    idx = {id(t): i + 1 for i, t in enumerate(word)}
    if isinstance(r, Tag):
        return 100 + idx.get(id(r), 800)
    ps = [idx.get(id(t), -1) for t in r.tagList]
    if not ps:
        return 1000
    if ps != list(range(ps[0], ps[-1] + 1)):
        return 3
    return 1000 + 10 * ps[0] + ps[-1]


def dec_record(chk, rid, b, rng, where):
    """run TagList.decode (+ get_context) on b, return the ndjson record (None if outside what the model can carry)"""
    rp = {"kind": "string", "octets": b.hex()} if len(b) <= 4096 else {"kind": "string", "octets": b[:64].hex(), "len": len(b), "truncated": True}
    got = guarded(chk, lambda: impl_decode(b), "TagList.decode", rp)
    if got is None:
        return None
    chk.case((where, b if len(b) < 200 else hash(b)), nontrivial=True)
    chk.monitor("OnlyInvalidTag", 0 if got[0] == "ok" else 1)
    if got[0] == "error":
        chk.violation("OnlyInvalidTag", {"api": "TagList.decode", "input": "random/mutated", "where": where}, {"octets": rp["octets"], "raised": got[1]}, rp)
        return None
    if got[0] == "invalid":
        return {"id": rid, "k": "dec", "s": list(b), "ok": False, "tags": [], "ctx": -1, "gc": 0}
    tl = got[1]
    chk.monitor("ConsumesAll")
    if got[2]:
        chk.violation("ConsumesAll", {"api": "TagList.decode", "input": "random/mutated", "where": where}, {"octets": rp["octets"], "left": got[2]}, rp)
        return None
    tags = [proj(t) for t in tl.tagList]
    if any(t[2] >= 2 ** 31 for t in tags):
        return None         # a Boolean "value" of 2^31 and more: beyond TLC's integers, not part of the model
    ctx, gc = -1, 0
    if len(tags) <= 8 and any(t[0] >= 1 for t in tags):
        ctx = rng.choice([t[1] for t in tags if t[0] >= 1])
        gc = gc_pos_code(tl, ctx)
        chk.monitor("ContextIffBalanced")
        if gc in (2, 3):
            chk.violation("OnlyInvalidTag" if gc == 2 else "ContextIffBalanced", {"api": "get_context", "got": code_name(gc)},
                          {"octets": rp["octets"], "ctx": ctx}, rp)
            ctx, gc = -1, 0
    return {"id": rid, "k": "dec", "s": list(b), "ok": True, "tags": [as_rec(t) for t in tags], "ctx": ctx, "gc": gc}


def random_records(chk, rng, n_rand, n_lists, n_big):
    recs, meta = [], {}

    def add(r, **m):
        if r is not None:
            recs.append(r)
            meta[r["id"]] = m
    rid = 0
    # random strings: uniform, and over the structural alphabet
    for i in range(n_rand):
        rid += 1
        L = rng.choice([3, 3, 4, 4, 5, 6, 8, 12, 20, 40])
        if i % 2:
            b = bytes(rng.choice(ALPHA + STRUCT) if rng.random() < 0.7 else rng.randrange(256) for _ in range(L))
        else:
            b = rng.randbytes(L)
        add(dec_record(chk, rid, b, rng, "random"), b=b, where="random")
    # random / service-shaped lists encoded by the implementation, their encodings decoded, and mutated
    for i in range(n_lists):
        l = rand_body(rng) if i % 2 else [rand_tag(rng) for _ in range(rng.randint(1, 6))]
        rp = {"kind": "list", "tags": [[t[0], t[1], t[2], t[3].hex()] for t in l]}
        o = guarded(chk, lambda: safe(lambda: impl_encode(l)), "TagList.encode", rp)
        if o is None:
            continue
        chk.case(("list", tuple(l)), nontrivial=True)
        if not isinstance(o, bytes):
            chk.violation("EncodeEqualsSpec", {"api": "TagList.encode", "case": sorted(set(tag_case(t) for t in l))}, {"list": rp["tags"], "raised": o}, rp)
            continue
        rid += 1
        add({"id": rid, "k": "enc", "l": [as_rec(t) for t in l], "o": list(o)}, l=l, o=o, where="list")
        # ONE Tag object refilled for every member of the list (Tag.set / set_app_data, what Atomic.encode(tag) does with a
        # tag it is handed) and encoded after each refill: the octets are those of the current content
        try:
            reused = Tag()
            ro = b""
            for t in l:
                if t[0] == 0 and t[1] != 1:                 # application class, not boolean: the set_app_data path
                    reused.set_app_data(t[1], t[3])
                else:
                    reused.set(t[0], t[1], t[2], t[3])
                p1 = PDUData()
                reused.encode(p1)
                ro += bytes(p1.pduData)
        except Exception as e:
            ro = "%s: %s" % (type(e).__name__, e)
        if not isinstance(ro, bytes):
            chk.violation("EncodeEqualsSpec", {"api": "Tag (reused object)", "case": sorted(set(tag_case(t) for t in l))}, {"list": rp["tags"], "raised": ro}, rp)
        elif ro != o:
            rid += 1
            add({"id": rid, "k": "enc", "l": [as_rec(t) for t in l], "o": list(ro)}, l=l, o=ro, where="list-reused-tag")
        rid += 1
        add(dec_record(chk, rid, o, rng, "encoded"), b=o, where="encoded")
        for _ in range(3):
            rid += 1
            m = mutate(rng, o)
            add(dec_record(chk, rid, m, rng, "mutated"), b=m, where="mutated")
    # data across the two- and four-octet length escapes, concrete
    for i in range(n_big):
        n = [65535, 65536, 70000, 254, 253][i % 5]
        l = [(rng.choice([0, 1]), rng.choice([2, 6, 15, 254]), n, rng.randbytes(n)), rand_tag(rng, small=True)]
        o = impl_encode(l)
        rid += 1
        add({"id": rid, "k": "enc", "l": [as_rec(t) for t in l], "o": list(o)}, l=l, o=o, where="big")
        rid += 1
        add(dec_record(chk, rid, o, rng, "big"), b=o, where="big")
        rid += 1
        cut = o[:len(o) - 1 - (i % 3)]
        add(dec_record(chk, rid, cut, rng, "big-truncated"), b=cut, where="big-truncated")
    return recs, meta


def rec_workers():
    """TLC keeps one copy of the deserialized records per worker: few workers, moderate batches"""
    return max(1, min(8, int(os.environ.get("VERIF_TLC_WORKERS", "16"))))


def validate_records(chk, recs, meta, label, batch=20000):
    if not recs:
        return
    big = [r for r in recs if len(r.get("s", r.get("o"))) > 5000]
    if len(recs) > batch or (big and len(big) < len(recs)):
        rest = [r for r in recs if len(r.get("s", r.get("o"))) <= 5000]
        if big:
            validate_records(chk, big, meta, label + "/big", batch=10 ** 9)
        for i in range(0, len(rest), batch):
            validate_records(chk, rest[i:i + batch], meta, "%s/%d" % (label, i // batch), batch=10 ** 9)
        return
    wd = tlc.workdir("c02r")
    try:
        tf = os.path.join(wd, "recs.ndjson")
        with open(tf, "w") as f:
            for r in recs:
                f.write(json.dumps(r, separators=(",", ":")) + "\n")
        res = tlc.run_tlc("MC_Tags", cfg_text=cfg("InitRec", ["ImplRec"]), env={"TRACE_FILE": tf, "JDK_JAVA_OPTIONS": "-Xss256m"},
                          timeout=1800, name="Tags/records:" + label, workers=rec_workers(), heap="6g")
    finally:
        shutil.rmtree(wd, ignore_errors=True)
    if res["error_kind"] or not res["finished"] or res["distinct"] != len(recs):
        tlc.machinery_failure("record validation did not complete (%s, %d of %d)\n%s" % (res["error"], res["distinct"], len(recs), res["output"][-2500:]))
    chk.extra["trace_validation_states"] = chk.extra.get("trace_validation_states", 0) + res["distinct"]
    bad = {v["id"]: v for v in tlc.printed_values(res["output"])}
    chk.traces_validated += len(recs) - len(bad)
    chk.monitor("DecodeEqualsSpec", sum(1 for r in recs if r["k"] == "dec"))
    chk.monitor("EncodeEqualsSpec", sum(1 for r in recs if r["k"] == "enc"))
    for rid, v in sorted(bad.items()):
        m = meta[rid]
        if "enc" in v["why"]:
            l = m["l"]
            chk.violation("EncodeEqualsSpec", {"api": "TagList.encode", "case": sorted(set(tag_case(t) for t in l))},
                          {"list": [[t[0], t[1], t[2], len(t[3])] for t in l], "got_head": m["o"][:32].hex(), "expected_head": bytes(x for x in v["exp"] if x >= 0)[:32].hex()},
                          {"kind": "list", "tags": [[t[0], t[1], t[2], t[3].hex()] for t in l]})
            continue
        b = m["b"]
        rp = {"kind": "string", "octets": b.hex()} if len(b) <= 4096 else {"kind": "string", "octets": b[:64].hex(), "len": len(b), "truncated": True}
        sig = {"api": "TagList.decode", "input": input_class(b, v["canon"], v["ok"]), "where": m["where"]}
        detail = {"octets": rp["octets"], "disagree_on": sorted(v["why"]), "spec_ok": v["ok"], "spec_tags": [str(want(t))[:80] for t in v["tags"][:6]]}
        if "overread" in v["why"]:
            chk.violation("ConsumesAll", dict(sig, case="returned tag announces another data length than it holds"), detail, rp)
        elif v["why"] == frozenset(["gc"]):
            chk.violation("ContextIffBalanced", {"api": "get_context", "expected": code_name(v["gc"])}, detail, rp)
        elif v["canon"]:
            chk.violation("DecodeEqualsSpec", sig, detail, rp)
        else:
            sc = guarded(chk, lambda: self_consistent(b), "TagList.decode/encode", rp)
            if sc:
                chk.violation(sc[0], sig, dict(detail, why=sc[1]), rp)
            else:
                chk.deviation(dict(detail, where=m["where"], note="differs from DecList on a non-canonical string; the property's either-or holds"))


def design_ok(chk, res):
    chk.tlc(res)
    if res["error_kind"]:
        tlc.machinery_failure("the design model itself violates %s (%s)\n%s" % (res["error"], res["name"], res["output"][-3000:]))


# -----------------------------------------------------------------------------------------------------------------
def main(tier, seed):
    chk = Check(PID, tier, seed)
    rng = random.Random(seed)
    thorough = tier == "thorough"
    chk.rule = ("model: one TLC state per tag list / octet string / bracket word of the stated grids; implementation: one "
                "evaluation = one encode or decode (or get_context / Any.decode) call on the real classes compared with, or "
                "validated by, Tags.tla; distinct = distinct inputs; non-trivial = uses an extended tag number, a length "
                "escape, the Boolean or open/close special cases, or is an arbitrary / mutated string")
    chk.assumptions = [
        "decoder liberality (non-minimal length escapes, tag-number octet < 15 or 255, LVT 6/7 with class bit 0) is accepted by "
        "DecTag as by the library; the standard only constrains encoders there",
        "open/close pairing is by nesting level (closing-tag numbers are matched by the constructed decoders, C03)",
        "data longer than 6 octets is symbolic in the grid runs (concrete in the implementation); lengths >= 2^31 are outside the model",
        "exhaustive over strings <= %d octets; longer strings by seeded sampling and mutation only" % (3 if thorough else 2)]
    wd = tlc.workdir("c02")
    try:
        # D + R: grid lists
        out = os.path.join(wd, "grid.ndjson")
        res = tlc.run_tlc("MC_Tags", cfg_text=cfg("InitGrid", ["InvGrid"], "WriteGrid",
                                                  Nums3=tla_set([0, 1, 15, 254]),
                                                  Lens3=tla_set(LENS if thorough else [0, 4, 5, 253, 254, 65536])),
                          env={"OUT_FILE": out}, timeout=1500, name="Tags/grid")
        design_ok(chk, res)
        n = replay_grid(chk, out)
        chk.extra["grid"] = {"lists_checked_by_tlc": res["distinct"], "lists_replayed_on_impl": n}
        os.remove(out)
        # D + R: strings
        out = os.path.join(wd, "str.ndjson")
        res = tlc.run_tlc("MC_Tags", cfg_text=cfg("InitStr", ["InvStr"], "WriteStr", MaxStr=3 if thorough else 2, MaxAlpha=4,
                                                  EmitStr=2, EmitAlpha=3),
                          env={"OUT_FILE": out}, timeout=2400, name="Tags/strings<=%d" % (3 if thorough else 2), heap="8g" if thorough else "4g")
        design_ok(chk, res)
        n = replay_strings(chk, out)
        chk.extra["strings"] = {"strings_checked_by_tlc": res["distinct"], "strings_replayed_on_impl": n}
        os.remove(out)
    finally:
        shutil.rmtree(wd, ignore_errors=True)
    # implementation alone
    sweep_impl(chk, 3 if thorough else 2)
    # T: words
    check_words(chk, 6)
    if thorough and not chk.violations:
        check_words(chk, 8)
    # T: random / mutated
    recs, meta = random_records(chk, rng, 40000 if thorough else 6000, 15000 if thorough else 2500, 10 if thorough else 5)
    validate_records(chk, recs, meta, "random+mutated")
    chk.extra["records"] = {"total": len(recs), "by_source": {w: sum(1 for m in meta.values() if m["where"] == w) for w in sorted(set(m["where"] for m in meta.values()))},
                            "decoded_ok": sum(1 for r in recs if r["k"] == "dec" and r["ok"])}
    chk.extra["level_note"] = ("codec property: the oracle is a transcription of clause 20.2.1 evaluated by TLC over boundary grids and all "
                               "short strings; not a proof for all lengths")
    return chk.finish()


def replay(path):
    body = json.load(open(path))
    rp = body["replay"]
    chk = Check(PID, "quick", body.get("seed", 0))
    rng = random.Random(0)
    if rp["kind"] == "string":
        b = bytes.fromhex(rp["octets"])
        print("input:", b.hex())
        print("TagList.decode:", (lambda r: (r[0], [proj(t) for t in r[1].tagList], r[2]) if r[0] == "ok" else r)(impl_decode(b)))
        print("Tag.decode:", impl_decode1(b))
        print("self-consistency:", self_consistent(b))
        r = dec_record(chk, 1, b, rng, "replay")
        if r:
            validate_records(chk, [r], {1: {"b": b, "where": "replay"}}, "replay")
    elif rp["kind"] == "list":
        l = [(t[0], t[1], t[2], bytes.fromhex(t[3]) if isinstance(t[3], str) else blob(t[3]) if t[3] > 6 else bytes([255, 254, 15, 14, 5, 253][:t[3]])) for t in rp["tags"]]
        o = safe(lambda: impl_encode(l))
        print("TagList.encode:", show(o)[:200])
        if isinstance(o, bytes):
            recs = [{"id": 1, "k": "enc", "l": [as_rec(t) for t in l], "o": list(o)}]
            meta = {1: {"l": l, "o": o, "where": "replay"}}
            d = dec_record(chk, 2, o, rng, "replay")
            print("TagList.decode of those octets:", None if d is None else ("invalid-tag error" if not d["ok"] else [(t["cls"], t["num"], t["lvt"], len(t["data"])) for t in d["tags"]]))
            if d:
                recs.append(d)
                meta[2] = {"b": o, "where": "replay"}
            validate_records(chk, recs, meta, "replay")
        else:
            chk.violation("EncodeEqualsSpec", {"api": "TagList.encode"}, {"raised": o}, rp)
    else:
        w = rp["word"]
        tags = [Tag(SYMCLS[s], CTXA if s % 2 == 0 else CTXB, 0, b"") for s in w]
        print("word:", word_text(w))
        for ctx in (CTXA, CTXB):
            print("get_context(%d):" % ctx, safe(lambda: (lambda r: r if r is None or isinstance(r, Tag) else [proj(t) for t in r.tagList])(TagList(list(tags)).get_context(ctx))))
        check_words(chk, max(len(w), 1))
    return chk.finish()
