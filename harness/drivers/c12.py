"""C12 -- What is sent respects what the peer said it can accept.   (spec/TSMcaps.tla)

D  TLC evaluates TSMcaps.Decide (the intended design) over the capability cross product -- max APDU sizes x max
   segments x 4 x 4 segmentation-support values x windows x whether the client knows the server's I-Am x payload
   lengths around every resulting boundary -- and checks the C12 clauses on the design's own output.
   Vacuity: a design that sizes segments without the header (the pinned tree) violates ApduFits.
T  one REAL transaction per sampled point of the cross product (plus random points): real ClientSSM/ServerSSM with the
   settings, the client's DeviceInfoCache filled by the library's own iam_device_info from the server's I-Am, frame
   lengths and header fields measured on the wire with an independent reader.  The observation records are
   validated by TLC (Trace_TSMcaps.tla): C12 clauses on every record, plus agreement with Decide (conformance).
"""
import os, json, random, shutil, itertools
from common import Check
import tlc, tsmlib

SIZES = [50, 128, 206, 480, 1024, 1476]
SEGS = ["segmentedBoth", "segmentedTransmit", "segmentedReceive", "noSegmentation"]
MAXRESP = {0: 50, 1: 128, 2: 206, 3: 480, 4: 1024, 5: 1476}
MAXSEGS = {0: 0, 1: 2, 2: 4, 3: 8, 4: 16, 5: 32, 6: 64, 7: 0}


def lens(L):
    return sorted(set(x for x in [1, L - 7, L - 6, L - 5, L - 4, L - 3, L - 2, L, 2 * (L - 6), 2 * (L - 6) + 1, 2 * (L - 5),
                                 2 * (L - 5) + 1, 4 * (L - 6), 4 * (L - 6) + 1, 5 * L] if x > 0))


def observe(t):
    """what was seen on the wire, in the vocabulary of TSMcaps.tla (no interpretation beyond counting / max / first)"""
    fr = t["frames"]
    cr = [f for f in fr if f["k"] == "CR"]
    ca = [f for f in fr if f["k"] == "CA"]
    sack = [f for f in fr if f["k"] == "ACK" and f["dir"] == "sc"]
    cack = [f for f in fr if f["k"] == "ACK" and f["dir"] == "cs"]
    hdr = t.get("first_cr") or {}
    out = t["outcomes"]
    oc = "none"
    if out:
        oc = "ack" if out[0] == "ack" else "abort_peer" if out[0] == "abort_peer" else "abort_local" if out[0].startswith("abort") else out[0]
    return dict(reqSegd=any(f["seg"] for f in cr), reqN=len(set(f["tok"] for f in cr)) if cr else 0,
                reqMax=max([f["len"] for f in cr] or [0]),
                respSegd=any(f["seg"] for f in ca), respN=len(set(f["tok"] for f in ca)) if ca else 0,
                respMax=max([f["len"] for f in ca] or [0]), outcome=oc,
                sa=bool(hdr.get("sa", False)), annMaxResp=MAXRESP.get(hdr.get("maxresp"), 0), annMaxSegs=MAXSEGS.get(hdr.get("maxsegs"), 0),
                reqWinOffer=next((f["win"] for f in cr if f["seg"] and f["tok"] == 0), 0),
                reqWinActual=sack[0]["win"] if sack and any(f["seg"] for f in cr) else 0,
                respWinOffer=next((f["win"] for f in ca if f["seg"] and f["tok"] == 0), 0),
                respWinActual=cack[0]["win"] if cack and any(f["seg"] for f in ca) else 0,
                served=t["served"])


def run_case(c):
    rc = tsmlib.rig_cfg(seg=c["cMax"], lq=c["lq"], lr=c["lr"], pwc=c["cPW"], pws=c["sPW"], retries=1,
                        c_max=c["cMax"], s_max=c["sMax"], c_seg=c["cSeg"], s_seg=c["sSeg"],
                        c_maxsegs=None if c["cSegs"] == 0 else c["cSegs"], s_maxsegs=None if c["sSegs"] == 0 else c["sSegs"], known=c["known"], pre=c.get("pre", False), s_knows_c_max=c.get("iamMax"),
                        reann=c.get("reann"), s_npdu=c.get("npdu"))
    t = tsmlib.record(rc, limit=6000)
    return rc, t


def main(tier, seed):
    chk = Check("C12", tier, seed)
    rng = random.Random(seed)
    thorough = tier == "thorough"
    chk.rule = ("model: TSMcaps.Decide over the capability cross product; implementation: one evaluation = one complete real transaction "
                "under one point of the cross product with frame lengths measured on the wire; distinct = the point; non-trivial = payload "
                "does not fit one APDU on at least one side")
    chk.assumptions = ["fault-free medium (faults are C04/C05)", "the client learns the server's capabilities only through DeviceInfoCache.iam_device_info (an I-Am carries no max-segments)",
                       "max-APDU settings are the six standard sizes"]
    cfg = """SPECIFICATION Spec
CONSTANTS MSizes = %s MSegs = %s MPW = %s
INVARIANT DesignApduFits
INVARIANT DesignSegmentedOnlyIfAllowed
INVARIANT DesignAbortInsteadOfOversize
INVARIANT DesignWindowRange
CHECK_DEADLOCK FALSE
"""
    grid = ("{50, 128, 480, 1476}", "{0, 2, 4, 65}", "{1, 2, 127}") if thorough else ("{50, 1476}", "{0, 2}", "{2, 127}")
    res = tlc.run_tlc("MC_TSMcaps", cfg_text=cfg % grid, timeout=1500, name="MC_TSMcaps")
    chk.tlc(res)
    if res["error_kind"]:
        tlc.machinery_failure("the intended design violates %s\n%s" % (res["error"], res["output"][-2000:]))
    res = tlc.run_tlc("MC_TSMcaps", cfg_text=(cfg % ("{50, 1476}", "{0}", "{2}")).replace("INVARIANT DesignWindowRange", "INVARIANT SanityNoHeaderStillFits"),
                      timeout=600)
    if res["error"] != "SanityNoHeaderStillFits":
        tlc.machinery_failure("sanity: header-less sizing should violate ApduFits, got %r" % res["error"])
    chk.extra["sanity"] = ["a design that sizes segments without the header violates ApduFits as expected (vacuity check)"]
    # implementation: systematic sample of the cross product + random points
    cases = []
    sizes = SIZES if thorough else [50, 128, 480, 1476]
    for cMax, sMax in itertools.product(sizes, repeat=2):
        for cSeg, sSeg in itertools.product(SEGS, repeat=2):
            for known in (False, True):
                L = sMax if known else cMax
                lqs, lrs = lens(L), lens(cMax)
                picks = itertools.product(lqs, lrs) if (thorough and cMax <= 128 and sMax <= 128) else [
                    (rng.choice(lqs), rng.choice(lrs)) for _ in range(3 if thorough else 1)]
                for lq, lr in picks:
                    cases.append(dict(cSeg=cSeg, cMax=cMax, cSegs=rng.choice([0, 2, 4, 8, 64, 65]), cPW=rng.choice([1, 2, 16, 127]),
                                      sSeg=sSeg, sMax=sMax, sSegs=0, sPW=rng.choice([1, 2, 5, 127]), known=known, lq=lq, lr=lr))
    # boundary sweep on both sides for the both/both case (every length around the unsegmented limit)
    for cMax, sMax, known in [(50, 50, True), (50, 128, True), (128, 50, True), (480, 50, False), (1476, 1476, True)]:
        L = sMax if known else cMax
        for lq in range(max(1, L - 8), L + 2):
            cases.append(dict(cSeg="segmentedBoth", cMax=cMax, cSegs=0, cPW=2, sSeg="segmentedBoth", sMax=sMax, sSegs=0, sPW=2, known=known, lq=lq, lr=5))
        for lr in range(max(1, cMax - 8), cMax + 2):
            cases.append(dict(cSeg="segmentedBoth", cMax=cMax, cSegs=0, cPW=2, sSeg="segmentedBoth", sMax=sMax, sSegs=0, sPW=2, known=known, lq=5, lr=lr))
    # role reversal first: the server node has been a client of the client node before (what a node learns about a peer by
    # serving it must not contradict what the peer announced); every support pair, request too long for one APDU
    for cSeg, sSeg in itertools.product(SEGS, repeat=2):
        for known in (False, True):
            for cMax, sMax in ((50, 128), (480, 50)):
                L = sMax if known else cMax
                cases.append(dict(cSeg=cSeg, cMax=cMax, cSegs=0, cPW=2, sSeg=sSeg, sMax=sMax, sSegs=0, sPW=3, known=known,
                                  lq=2 * L + 3, lr=rng.choice([5, 3 * cMax]), pre=True))
    # the server has the client's I-Am in its cache, announcing another max APDU length than the request being answered
    for cMax, iamMax in ((206, 1476), (1476, 206), (50, 128), (480, 480)):
        for lr in (cMax - 3, cMax - 2, cMax + 40, 3 * cMax):
            cases.append(dict(cSeg="segmentedBoth", cMax=cMax, cSegs=0, cPW=2, sSeg="segmentedBoth", sMax=1476, sSegs=0, sPW=2, known=True,
                              lq=5, lr=lr, iamMax=iamMax))
    # the server announced itself twice: an older I-Am with other capabilities, and the current one that reaches the client while
    # an earlier transaction with that server is outstanding (or just after it); requests around both boundaries
    for oldMax, sMax in ((1024, 128), (128, 1024), (480, 50), (1476, 206)):
        for when in ("during", "after"):
            for lq in sorted({sMax - 4, sMax - 3, sMax + 60, oldMax - 4, oldMax - 3, 2 * min(sMax, oldMax) + 7}):
                cases.append(dict(cSeg="segmentedBoth", cMax=1476, cSegs=0, cPW=2, sSeg="segmentedBoth", sMax=sMax, sSegs=0, sPW=2,
                                  known=True, lq=lq, lr=5, reann={"max": oldMax, "when": when}))
    # the server's OWN limit on segments it receives says nothing about the client: a client that leaves max-segments unspecified
    # (or announces more than 64) gets a response of any number of segments
    for cSegs, sSegs, n in ((0, 2, 5), (0, 4, 9), (0, 8, 15)):
        cases.append(dict(cSeg="segmentedBoth", cMax=50, cSegs=cSegs, cPW=4, sSeg="segmentedBoth", sMax=50, sSegs=sSegs, sPW=4, known=True,
                          lq=5, lr=45 * (n - 1) + 10))
    # the application also recorded the largest NPDU of the path to the peer, larger than what the peer itself accepts:
    # the peer's own limit still rules
    for sMax, sSeg in ((480, "segmentedBoth"), (206, "noSegmentation"), (128, "segmentedTransmit"), (50, "segmentedBoth")):
        for lq in (sMax - 4, sMax - 3, sMax + 35, 2 * sMax + 7):
            cases.append(dict(cSeg="segmentedBoth", cMax=1476, cSegs=0, cPW=2, sSeg=sSeg, sMax=sMax, sSegs=0, sPW=2, known=True, lq=lq, lr=5,
                              npdu=1497))
    # ... and a server that moved to an address the client knows another device by
    for oldMax, sMax in ((1476, 50), (50, 480), (1024, 128)):
        for lq in sorted({sMax - 4, sMax - 3, sMax + 60, oldMax - 4, 2 * min(sMax, oldMax) + 7}):
            cases.append(dict(cSeg="segmentedBoth", cMax=1476, cSegs=0, cPW=2, sSeg="noSegmentation" if sMax == 50 else "segmentedBoth", sMax=sMax,
                              sSegs=0, sPW=2, known=True, lq=lq, lr=5, reann={"max": oldMax, "seg": "segmentedBoth", "how": "moved"}))
    for oldSeg, sSeg in (("segmentedBoth", "noSegmentation"), ("noSegmentation", "segmentedBoth"), ("segmentedBoth", "segmentedTransmit")):
        for when in ("during", "after"):
            for lq in (40, 200):
                cases.append(dict(cSeg="segmentedBoth", cMax=1476, cSegs=0, cPW=2, sSeg=sSeg, sMax=128, sSegs=0, sPW=2,
                                  known=True, lq=lq, lr=5, reann={"max": 128, "seg": oldSeg, "when": when}))
    # max-segments limits: response needing more segments than the request allows
    for segs in (2, 4, 8, 16, 32, 64):
        for extra in (-1, 0, 1):
            n = segs + extra
            cases.append(dict(cSeg="segmentedBoth", cMax=50, cSegs=segs, cPW=4, sSeg="segmentedBoth", sMax=50, sSegs=0, sPW=4, known=True,
                              lq=5, lr=45 * (n - 1) + 10))
    recs = []
    wd = tlc.workdir("caps")
    try:
        for n, c in enumerate(cases):
            rc, t = run_case(c)
            if t["hang"]:
                chk.violation("Terminates", {"cSeg": c["cSeg"], "sSeg": c["sSeg"]}, {"case": c}, {"case": c})
                continue
            o = observe(t)
            recs.append({"id": n + 1, "c": {k: v for k, v in c.items() if k not in ("pre", "iamMax", "reann", "npdu")}, "o": o, "pre": bool(c.get("pre"))})
            chk.case(json.dumps(c, sort_keys=True), nontrivial=o["reqSegd"] or o["respSegd"] or o["outcome"] != "ack")
            if n < 2:
                chk.sample({"case": c, "observation": o})
        tf = os.path.join(wd, "recs.ndjson")
        with open(tf, "w") as f:
            for r in recs:
                f.write(json.dumps(r) + "\n")
        res = tlc.run_tlc("Trace_TSMcaps", cfg_text="SPECIFICATION Spec\nINVARIANT Report\nCHECK_DEADLOCK FALSE\n", workers=8,
                          timeout=1500, env={"TRACE_FILE": tf}, name="Trace_TSMcaps")
    finally:
        shutil.rmtree(wd, ignore_errors=True)
    if res["error_kind"]:
        tlc.machinery_failure("record validation failed: %s\n%s" % (res["error"], res["output"][-3000:]))
    if res["distinct"] != len(recs):
        tlc.machinery_failure("record validation evaluated %d of %d records" % (res["distinct"], len(recs)))
    byid = {r["id"]: r for r in recs}
    flagged = {v["id"]: v for v in tlc.printed_values(res["output"])}
    for rid, v in sorted(flagged.items()):
        r = byid[rid]
        c, o = dict(r["c"], pre=r["pre"]), r["o"]
        for m in sorted(v["bad"]):
            side = "req" if ((m == "ApduFits" and c["known"] and o["reqMax"] > c["sMax"]) or (m == "SegmentedOnlyIfAllowed" and o["reqSegd"] and c["known"])) else "resp"
            sig = {"side": side, "segmented": bool(o["reqSegd"] if side == "req" else o["respSegd"]), "known": c["known"]}
            chk.violation(m, sig, {"case": c, "observed": o, "intended_design_would_give": dict(v["want"])}, {"case": c})
        if not v["bad"] and v["dev"]:
            chk.deviation({"case": c, "differs": sorted(v["dev"]), "observed": {k: o[k] for k in v["dev"]},
                           "intended": {k: dict(v["want"])[k] for k in v["dev"]}})
    chk.traces_validated += len(recs) - len(flagged)
    for m in ("ApduFits", "SegmentedOnlyIfAllowed", "AbortInsteadOfOversize", "WindowRange"):
        chk.monitor(m, len(recs))
    # windows *used*: a peer that shrinks the window it grants in the middle of a transfer must be obeyed from then on
    # (TSM.tla's WindowRespectsAck / WindowRange evaluated by TLC on recorded transfers, Trace_TSM.tla)
    import c05
    wtr = []
    # ... and before the peer has granted any window (its first segment ack lost / late): one segment at a time, also when
    # the request itself came in segments and left a window behind (every single drop / delay at every frame)
    for nq, nr, w in ([(3, 5, 4), (1, 5, 3), (4, 4, 8)] if thorough else [(3, 5, 4)]):
        rcw = tsmlib.rig_cfg(seg=50, nq=nq, nr=nr, pwc=w, pws=w, maxsegs=None)
        wtr += c05.single_fault_traces(rcw, kinds=("drop", "delay"), orders=("fifo",))
    for nq, nr, w in ([(9, 1, 4), (1, 9, 4), (10, 10, 3), (12, 1, 127)] if thorough else [(9, 1, 4), (1, 9, 4)]):
        rcw = tsmlib.rig_cfg(seg=50, nq=nq, nr=nr, pwc=w, pws=w, maxsegs=None)
        for t in c05.single_fault_traces(rcw, kinds=("shrink",), orders=("fifo",)):
            wtr.append(t)
            chk.case(("shrink", nq, nr, w, tuple(t["faults"].items())), nontrivial=True)
    for i, t in enumerate(wtr):
        t["tid"] = i + 1

    def onv(t, v):
        bad = False
        for m, l in sorted(v["viol"]):
            if m in ("WindowBound", "WindowRange"):
                bad = True
                chk.violation("WindowRange", {"side": "sender", "case": "burst_exceeds_newest_grant" if m == "WindowBound" else "range"},
                              {"cfg": t["cfg"], "faults": t["faults"], "step": l, "frames": [(f["k"], f["seq"], f["win"]) for f in t["frames"]][:40]},
                              {"case": None, "tsm": {"cfg": t["cfg"], "faults": t["faults"]}})
        if not bad:
            chk.traces_validated += 1
    tsmlib.validate(chk, wtr, tsmlib.CODE_FLAGS, onv)
    return chk.finish()


def replay(path):
    body = json.load(open(path))
    chk = Check("C12", "quick", body.get("seed", 0))
    if body["replay"].get("tsm"):
        import c05
        return c05.replay_tsm(body["replay"]["tsm"], "C12", {"WindowBound", "WindowRange"})
    c = body["replay"]["case"]
    rc, t = run_case(c)
    print("case", c)
    print("observed", observe(t))
    for f in t["frames"]:
        print("  ", f["dir"], f["k"], "seg" if f["seg"] else "", "tok=%s" % f["tok"], "len=%d" % f["len"], "win=%s" % f["win"])
    print("outcomes", t["outcomes"], "errors", t["errors"][:2])
    return 0
