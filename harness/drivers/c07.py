"""C07 -- APDU fixed headers carry every field of all eight PDU types faithfully.   (spec/APCI.tla)

D  TLC on the model: MC_APCI (Dec(Enc(c)) = c, layout facts over the flag x code-point x boundary grid),
   MC_APCI_tables (both code tables for capabilities 0..2000: round down / never up / tight / monotonic /
   idempotent / code points), MC_APCI_dec (Dec total, refuses exactly the truncated / undefined-type strings,
   re-encodes to the canonical input, payload appends - on all strings <= 2 octets and the class alphabet).
R  spec -> code: MC_APCI emits (case, Enc(case)) per state; every case is built with the real PDU class,
   encoded through _APDU.encode -> APDU.encode (APCI.encode) into a PDU and compared octet for octet
   (OctetsEqualSpec); the expected octets are decoded by APDU.decode + <class>.decode and every header field
   and the payload are compared with the case (FieldsEqualSpec).
T  code -> spec: seeded random headers (any octet value, random payloads), all octet strings <= 2, the class
   alphabet, random strings and mutated encodings (truncation at every position, bit flips, insertions,
   deletions), and the four table functions on capabilities 0..2000 / all code points are run through the
   real code, recorded as ndjson and validated by TLC (Trace_APCI.tla: one state per record, monitors
   OctetsEqualSpec, FieldsEqualSpec, TableRoundsDown, OnlyDecodingError stated in TLA+).
"""
import os, sys, json, random, shutil, itertools
from common import Check, Hang, watchdog
import tlc

from bacpypes.pdu import PDU
from bacpypes.errors import DecodingError
import bacpypes.apdu as A

NONE = -1

# ---- rendering layer (trusted, dumb): header record <-> real PDU objects --------------------------------
# field name -> (attribute, kind) ; kind: flag (bool), num (octet / code), opt (octet or absent = NONE)
# ctor: header field -> constructor keyword of the real class (everything else is set as an attribute)
TYPES = {
    "ConfirmedRequest": dict(cls="ConfirmedRequestPDU", code=0, ctor={"service": "choice"},
                             fields=[("seg", "apduSeg", "flag"), ("mor", "apduMor", "flag"), ("sa", "apduSA", "flag"),
                                     ("maxsegs", "apduMaxSegs", "num"), ("maxresp", "apduMaxResp", "num"),
                                     ("invoke", "apduInvokeID", "num"), ("seq", "apduSeq", "opt"),
                                     ("win", "apduWin", "opt"), ("service", "apduService", "num")]),
    "UnconfirmedRequest": dict(cls="UnconfirmedRequestPDU", code=1, ctor={"service": "choice"},
                               fields=[("service", "apduService", "num")]),
    "SimpleAck": dict(cls="SimpleAckPDU", code=2, ctor={"service": "choice", "invoke": "invokeID"},
                      fields=[("invoke", "apduInvokeID", "num"), ("service", "apduService", "num")]),
    "ComplexAck": dict(cls="ComplexAckPDU", code=3, ctor={"service": "choice", "invoke": "invokeID"},
                       fields=[("seg", "apduSeg", "flag"), ("mor", "apduMor", "flag"), ("invoke", "apduInvokeID", "num"),
                               ("seq", "apduSeq", "opt"), ("win", "apduWin", "opt"), ("service", "apduService", "num")]),
    "SegmentAck": dict(cls="SegmentAckPDU", code=4,
                       ctor={"nak": "nak", "srv": "srv", "invoke": "invokeID", "seq": "sequenceNumber", "win": "windowSize"},
                       fields=[("nak", "apduNak", "flag"), ("srv", "apduSrv", "flag"), ("invoke", "apduInvokeID", "num"),
                               ("seq", "apduSeq", "num"), ("win", "apduWin", "num")]),
    "Error": dict(cls="ErrorPDU", code=5, ctor={"service": "choice", "invoke": "invokeID"},
                  fields=[("invoke", "apduInvokeID", "num"), ("service", "apduService", "num")]),
    "Reject": dict(cls="RejectPDU", code=6, ctor={"invoke": "invokeID", "reason": "reason"},
                   fields=[("invoke", "apduInvokeID", "num"), ("reason", "apduAbortRejectReason", "num")]),
    "Abort": dict(cls="AbortPDU", code=7, ctor={"srv": "srv", "invoke": "invokeID", "reason": "reason"},
                  fields=[("srv", "apduSrv", "flag"), ("invoke", "apduInvokeID", "num"),
                          ("reason", "apduAbortRejectReason", "num")]),
}
BY_CODE = {v["code"]: k for k, v in TYPES.items()}


def build(c, none_for_false=False):
    """the header record as an object of the real class"""
    t = TYPES[c["type"]]
    kw = {k: c[f] for f, k in t["ctor"].items()}
    x = getattr(A, t["cls"])(**kw)
    for f, attr, kind in t["fields"]:
        if f in t["ctor"]:
            continue
        v = c[f]
        if kind == "opt" and v == NONE:
            continue
        if kind == "flag" and v is False and none_for_false:
            continue                    # the stack itself leaves unset flags at None
        setattr(x, attr, v)
    x.put_data(bytes(c["data"]))
    return x


def impl_encode(c, none_for_false=False):
    x = build(c, none_for_false)
    apdu = A.APDU()
    x.encode(apdu)
    pdu = PDU()
    apdu.encode(pdu)
    return list(pdu.pduData)


def project(y):
    """decoded object -> (header record, list of attributes that have no image in the record)"""
    name = BY_CODE.get(y.apduType)
    bad = []
    if name is None:
        return {"type": "type-%r" % (y.apduType,), "data": list(y.pduData)}, ["apduType=%r" % (y.apduType,)]
    h = {"type": name}
    for f, attr, kind in TYPES[name]["fields"]:
        v = getattr(y, attr)
        if kind == "flag":
            if v is None:
                bad.append(attr + "=None")
                v = False
            h[f] = bool(v)
        else:
            if v is None and kind == "opt":
                v = NONE
            elif isinstance(v, bool) or not isinstance(v, int):
                bad.append("%s=%r" % (attr, v))
                v = -2
            h[f] = v
    h["data"] = list(y.pduData)
    return h, bad


def impl_decode(octets):
    """the receive path of the stack: APDU.decode(PDU), then the type class decodes from the generic APDU"""
    pdu = PDU(bytes(octets))
    apdu = A.APDU()
    apdu.decode(pdu)
    klass = A.apdu_types.get(apdu.apduType)
    if klass is None:
        return project(apdu)
    y = klass()
    y.decode(apdu)
    return project(y)


HANGS = [0]


def guarded(fn, *a):
    """-> ("ok", value) | ("exc", class name) | ("hang", None)"""
    if HANGS[0] >= 3:
        return ("hang", None)
    try:
        with watchdog(10):
            return ("ok", fn(*a))
    except Hang:
        HANGS[0] += 1
        return ("hang", None)
    except DecodingError:
        return ("exc", "DecodingError")
    except Exception as e:
        return ("exc", type(e).__name__)


def rec_enc(c, none_for_false=False):
    st, v = guarded(impl_encode, c, none_for_false)
    return {"k": "enc", "hdr": c, "nff": none_for_false,
            "out": {"ok": True, "o": v} if st == "ok" else {"ok": False, "exc": v or "Hang"}}


def rec_dec(s):
    st, v = guarded(impl_decode, s)
    return {"k": "dec", "s": list(s),
            "out": {"ok": True, "hdr": v[0], "bad": v[1]} if st == "ok" else {"ok": False, "exc": v or "Hang"}}


TABFN = {"enc_segs": "encode_max_segments_accepted", "dec_segs": "decode_max_segments_accepted",
         "enc_apdu": "encode_max_apdu_length_accepted", "dec_apdu": "decode_max_apdu_length_accepted"}


def rec_tab(fn, arg, as_none=False):
    st, v = guarded(getattr(A, TABFN[fn]), None if as_none else arg)
    if st == "ok":
        if v is None:
            v = NONE
        elif isinstance(v, bool) or not isinstance(v, int):
            return {"k": "tab", "fn": fn, "arg": arg, "as_none": as_none, "out": {"ok": False, "exc": "returned %r" % (v,)}}
        out = {"ok": True, "v": v}
    else:
        out = {"ok": False, "exc": v or "Hang"}
    return {"k": "tab", "fn": fn, "arg": arg, "as_none": as_none, "out": out}


# ---- violations ------------------------------------------------------------------------------------------
class Reporter:
    """at most 3 replay files per distinct signature; everything is counted"""

    def __init__(self, chk):
        self.chk, self.n = chk, {}

    def __call__(self, monitor, sig, detail, replay):
        k = json.dumps([monitor, sig], sort_keys=True)
        self.n[k] = self.n.get(k, 0) + 1
        if self.n[k] <= 3:
            self.chk.violation(monitor, sig, detail, replay)
        self.chk.extra["violating_cases"] = self.chk.extra.get("violating_cases", 0) + 1


def hang_violation(rep, what, replay):
    rep("Terminates", {"op": what}, {"what": "the code under test did not return within 10 s", "input": replay}, replay)


def diff_fields(a, b):
    return sorted(k for k in set(a) | set(b) if a.get(k) != b.get(k))


# ---- R: spec -> code -------------------------------------------------------------------------------------
def grid(chk, rep, full):
    wd = tlc.workdir("c07grid")
    out = os.path.join(wd, "grid.ndjson")
    try:
        res = tlc.run_tlc("MC_APCI", cfg_file="MC_APCI_full.cfg" if full else "MC_APCI_quick.cfg",
                          env={"OUT_FILE": out}, timeout=1500, name="MC_APCI/" + ("full" if full else "quick"))
        chk.tlc(res)
        if res["error_kind"] or not res["finished"]:
            tlc.machinery_failure("design model MC_APCI: %s\n%s" % (res["error"], res["output"][-2000:]))
        n = 0
        per_type = {}
        with open(out) as f:
            for line in f:
                r = json.loads(json.loads(line))
                c, exp = r["c"], r["o"]
                n += 1
                per_type[c["type"]] = per_type.get(c["type"], 0) + 1
                nontrivial = any(v is True or (isinstance(v, int) and v > 0) for k, v in c.items() if k != "type") or bool(c["data"])
                chk.case(("g",) + tuple(exp), nontrivial=nontrivial, n=2)
                # encode with the real classes
                st, got = guarded(impl_encode, c)
                chk.monitor("OctetsEqualSpec")
                if st == "hang":
                    hang_violation(rep, "encode", {"k": "enc", "hdr": c})
                elif st != "ok" or got != exp:
                    where = "raises" if st != "ok" else ("length" if len(got) != len(exp) else
                                                         "octet %d" % min(i for i in range(len(exp)) if got[i] != exp[i]))
                    rep("OctetsEqualSpec", {"type": c["type"], "op": "encode", "where": where, "seg": c.get("seg", False)},
                        {"case": c, "expected_octets": exp, "got": got}, {"k": "enc", "hdr": c})
                # decode the spec's octets with the real classes
                st, got = guarded(impl_decode, exp)
                chk.monitor("FieldsEqualSpec")
                if st == "hang":
                    hang_violation(rep, "decode", {"k": "dec", "s": exp})
                elif st == "exc":
                    chk.monitor("OnlyDecodingError")
                    rep("FieldsEqualSpec" if got == "DecodingError" else "OnlyDecodingError",
                        {"type": c["type"], "op": "decode", "where": "raises " + got, "seg": c.get("seg", False)},
                        {"octets": exp, "expected_fields": c, "got": got}, {"k": "dec", "s": exp})
                elif got[0] != c or got[1]:
                    rep("FieldsEqualSpec", {"type": c["type"], "op": "decode", "where": ",".join(diff_fields(got[0], c) or got[1]),
                                            "seg": c.get("seg", False)},
                        {"octets": exp, "expected_fields": c, "got": got[0], "unrestored": got[1]}, {"k": "dec", "s": exp})
                if n % 40000 == 1:
                    chk.sample({"case": c, "spec_octets": exp, "impl_decode_of_spec_octets": got[0] if st == "ok" else got}, cap=3)
        if n != res["distinct"]:
            tlc.machinery_failure("MC_APCI emitted %d cases for %d states" % (n, res["distinct"]))
        chk.extra["grid_cases_per_type"] = per_type
        chk.traces_validated += n
    finally:
        shutil.rmtree(wd, ignore_errors=True)


# ---- T: code -> spec -------------------------------------------------------------------------------------
A1 = [0, 2, 4, 8, 14, 15, 16, 31, 32, 48, 52, 56, 60, 63, 64, 65, 66, 67, 76, 80, 96, 112, 113, 126, 128, 240, 255]
A2 = [0, 1, 127, 128, 255, 117, 245, 15]
A3 = [0, 1, 128, 255]
SEGFIRST = [8, 14, 15, 56, 60, 63]


def strings_exh():
    """all octet strings of length <= 2"""
    yield ()
    for a in range(256):
        yield (a,)
    for a in range(256):
        for b in range(256):
            yield (a, b)


def strings_alpha():
    for n in range(0, 4):
        for a in A1:
            for rest in itertools.product(A2, repeat=n):
                yield (a,) + rest
    for n in (4, 5):
        for a in SEGFIRST:
            for rest in itertools.product(A3, repeat=n):
                yield (a,) + rest


def random_header(rng, tname=None):
    tname = tname or rng.choice(sorted(TYPES))
    c = {"type": tname}
    seg = rng.random() < 0.5
    for f, attr, kind in TYPES[tname]["fields"]:
        if kind == "flag":
            c[f] = seg if f == "seg" else (rng.random() < 0.5)
        elif f == "maxsegs":
            c[f] = rng.randrange(8)
        elif f == "maxresp":
            c[f] = rng.randrange(16)
        elif kind == "opt":
            c[f] = rng.choice([0, 1, 127, 128, 255, rng.randrange(256)]) if seg else NONE
        else:
            c[f] = rng.choice([0, 1, 127, 128, 255, rng.randrange(256), rng.randrange(256)])
    if tname in ("SimpleAck", "SegmentAck", "Reject", "Abort"):
        c["data"] = []
    else:
        c["data"] = [rng.randrange(256) for _ in range(rng.choice([0, 0, 1, 2, 5, 20]))]
    return c


def mutations(rng, o):
    """octet strings around a valid encoding"""
    for n in range(len(o)):
        yield o[:n]                                           # truncation at every position
    for _ in range(3):
        if o:
            i = rng.randrange(min(len(o), 6))
            yield o[:i] + [o[i] ^ (1 << rng.randrange(8))] + o[i + 1:]     # bit flip in the header
    i = rng.randrange(len(o) + 1)
    yield o[:i] + [rng.randrange(256)] + o[i:]                # insertion
    if o:
        i = rng.randrange(len(o))
        yield o[:i] + o[i + 1:]                               # deletion
    yield o + [rng.randrange(256)]                            # payload grows


def random_string(rng):
    n = rng.choice([1, 2, 3, 3, 4, 4, 5, 6, 6, 7, 8, 12])
    first = rng.choice(A1) if rng.random() < 0.6 else rng.randrange(256)
    return [first] + [rng.choice(A2) if rng.random() < 0.3 else rng.randrange(256) for _ in range(n - 1)]


def validate(chk, rep, recs, label, timeout=1500):
    """one TLC run over the recorded evaluations; verdicts for the records that fail a monitor"""
    if not recs:
        return
    for i, r in enumerate(recs):
        r["id"] = i + 1
    wd = tlc.workdir("c07tr")
    tf = os.path.join(wd, "recs.ndjson")
    try:
        with open(tf, "w") as f:
            for r in recs:
                f.write(json.dumps(r) + "\n")
        res = tlc.run_tlc("Trace_APCI", cfg_file="Trace_APCI.cfg", env={"TRACE_FILE": tf}, workers=1, timeout=timeout,
                          name="Trace_APCI/" + label)
    finally:
        shutil.rmtree(wd, ignore_errors=True)
    if res["error_kind"] or not res["finished"]:
        tlc.machinery_failure("trace validation %s failed: %s\n%s" % (label, res["error"], res["output"][-3000:]))
    if res["distinct"] != len(recs):
        tlc.machinery_failure("trace validation %s: %d states for %d records" % (label, res["distinct"], len(recs)))
    chk.tlc(res)
    chk.extra["trace_validation_states"] = chk.extra.get("trace_validation_states", 0) + res["distinct"]
    verdicts = {v["id"]: v for v in tlc.printed_values(res["output"])}
    for r in recs:
        out = r["out"]
        hung = (not out["ok"]) and out.get("exc") == "Hang"
        if r["k"] == "enc":
            chk.monitor("OctetsEqualSpec")
            chk.case(("e", json.dumps(r["hdr"], sort_keys=True), r["nff"]), n=1)
        elif r["k"] == "dec":
            chk.case(("d",) + tuple(r["s"]), n=1)
            if out["ok"]:
                chk.monitor("FieldsEqualSpec")
            else:
                chk.monitor("OnlyDecodingError")
        else:
            chk.monitor("TableRoundsDown")
            chk.case(("t", r["fn"], r["arg"], r.get("as_none", False)), n=1)
        replay = {x: r[x] for x in r if x not in ("id", "out")}
        if hung:
            hang_violation(rep, r["k"], replay)
            continue
        v = verdicts.get(r["id"])
        if v is None:
            chk.traces_validated += 1
            continue
        if v["kind"] == "badinput":
            tlc.machinery_failure("harness produced a malformed record: %s %s" % (v["note"], json.dumps(r)[:500]))
        detail = {"input": replay, "impl": out, "spec": v["exp"], "note": v["note"]}
        if v["kind"] == "deviation":
            chk.deviation(detail)
            continue
        if r["k"] == "enc":
            sig = {"type": r["hdr"]["type"], "op": "encode", "seg": r["hdr"].get("seg", False),
                   "where": "raises" if not out["ok"] else "octets"}
        elif r["k"] == "dec":
            spec_type = v["exp"].get("type") if isinstance(v["exp"], dict) else None
            sig = {"type": spec_type, "op": "decode", "seg": v["exp"].get("seg", False) if isinstance(v["exp"], dict) else False,
                   "where": ("raises " + out["exc"]) if not out["ok"] else ",".join(diff_fields(out["hdr"], spec_as_json(v["exp"])) or out["bad"])}
        else:
            sig = {"fn": TABFN[r["fn"]], "arg": r["arg"] if r["fn"].startswith("dec") or r["arg"] < 70 else "cap>=70",
                   "got": out.get("v", out.get("exc"))}
        rep(v["monitor"], sig, detail, replay)


def spec_as_json(v):
    """TLA+ value parsed by tlaval -> the shape json.loads gives (tuples -> lists)"""
    if isinstance(v, dict):
        return {k: spec_as_json(x) for k, x in v.items()}
    if isinstance(v, tuple):
        return [spec_as_json(x) for x in v]
    return v


def model_run(chk, module, cfg, name, timeout=900):
    res = tlc.run_tlc(module, cfg_file=cfg, timeout=timeout, name=name)
    chk.tlc(res)
    if res["error_kind"] or not res["finished"]:
        tlc.machinery_failure("design model %s violates %s\n%s" % (name, res["error"], res["output"][-2000:]))
    return res


# ---------------------------------------------------------------------------------------------------------
def main(tier, seed):
    chk = Check("C07", tier, seed)
    rng = random.Random(seed)
    thorough = tier == "thorough"
    rep = Reporter(chk)
    chk.rule = ("one evaluation = one call of the real encoder, decoder or table function whose result is compared with the "
                "APCI.tla operator (grid cases count 2: encode + decode); distinct = distinct (octet string | header record | "
                "table function, argument); non-trivial = anything but the all-zero header without payload")
    chk.assumptions = [
        "APCI.tla is my transcription of clause 20.1.2-20.1.9 (the standard is not available offline)",
        "Dec ignores reserved bits and hands back the octets after a header-only PDU (SimpleACK, SegmentACK, Reject, Abort) as data",
        "max-segments: capability 0 = 'not stated' -> B'000'; capability 1 has no code point (NoCode); the non-numeric "
        "meanings of B'000' (unspecified) and B'111' (more than 64) are both projected from the implementation's None",
        "quick replaces the 5^4 octet-field product of the segmented ConfirmedRequest by a strength-2 orthogonal array; "
        "thorough runs the full product",
    ]
    # D: the model
    model_run(chk, "MC_APCI_tables", "MC_APCI_tables.cfg", "MC_APCI_tables")
    model_run(chk, "MC_APCI_dec", "MC_APCI_dec_alpha.cfg", "MC_APCI_dec/alpha")
    model_run(chk, "MC_APCI_dec", "MC_APCI_dec_exh2.cfg", "MC_APCI_dec/exh2")
    # R: spec -> code over the grid (the same run checks Dec(Enc(c)) = c on the model)
    grid(chk, rep, full=thorough)
    # T: code -> spec
    recs = []
    for fn, args in (("enc_segs", range(0, 2001)), ("enc_apdu", range(0, 2001)), ("dec_segs", range(8)), ("dec_apdu", range(16))):
        for a in args:
            recs.append(rec_tab(fn, a))
    recs.append(rec_tab("enc_segs", 0, as_none=True))
    chk.sample({"table": "encode_max_segments_accepted", "cap->code": {str(a): recs[a]["out"] for a in (0, 1, 2, 3, 63, 64, 65, 2000)}})
    chk.sample({"table": "encode_max_apdu_length_accepted",
                "cap->code": {str(a): recs[2001 + a]["out"] for a in (0, 49, 50, 127, 128, 1475, 1476, 2000)}})
    validate(chk, rep, recs, "tables")
    recs = []
    nhdr = 50000 if thorough else 4000
    encs = []
    for i in range(nhdr):
        c = random_header(rng, sorted(TYPES)[i % 8])
        r = rec_enc(c, none_for_false=bool(i & 8))
        recs.append(r)
        if r["out"]["ok"]:
            encs.append(r["out"]["o"])
            recs.append(rec_dec(r["out"]["o"]))
            if i < 2:
                chk.sample({"header": c, "impl_octets": r["out"]["o"], "impl_decode": recs[-1]["out"]})
    validate(chk, rep, recs, "random-headers")
    recs = []
    for s in strings_exh():
        recs.append(rec_dec(s))
    chk.extra["exhaustive_strings_le2"] = len(recs)
    validate(chk, rep, recs, "strings<=2")
    recs = [rec_dec(s) for s in strings_alpha()]
    chk.extra["class_alphabet_strings"] = len(recs)
    nrand = 300000 if thorough else 15000
    for _ in range(nrand):
        recs.append(rec_dec(random_string(rng)))
    nmut = 0
    for o in encs[:(20000 if thorough else 1500)]:
        for m in mutations(rng, o):
            recs.append(rec_dec(m))
            nmut += 1
    chk.extra["random_strings"] = nrand
    chk.extra["mutated_encodings"] = nmut
    for r in recs[-3:]:
        chk.sample({"octets": r["s"], "impl": r["out"]})
    validate(chk, rep, recs, "alphabet+random+mutated")
    return chk.finish()


def replay(path):
    body = json.load(open(path))
    rp = body["replay"]
    chk = Check("C07", "quick", body.get("seed", 0))
    rep = Reporter(chk)
    if rp["k"] == "enc":
        r = rec_enc(rp["hdr"], rp.get("nff", False))
    elif rp["k"] == "dec":
        r = rec_dec(rp["s"])
    else:
        r = rec_tab(rp["fn"], rp["arg"], rp.get("as_none", False))
    print("input:", json.dumps(rp))
    print("impl :", json.dumps(r["out"]))
    validate(chk, rep, [r], "replay")
    return chk.finish()
