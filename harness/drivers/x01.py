"""X01 -- Device Communication Control switches, times and gates the device's communication.   (spec/DCC.tla)

D  TLC exhaustive on MC_DCC (every request: 3 states x durations x {no, right, wrong} password, both password
   configurations, every incoming / initiated kind, clock in half-minutes), plus the two named deviations
   (Dev_SwallowBlocksQueue, Dev_UnsolicitedIAmPasses) which must violate the properties.
R  state graph of the design dumped by TLC, quotiented by the observation variables, covered edge by edge; every
   walk is executed on a REAL device stack (ApplicationIOController + WhoIsIAm / ReadWriteProperty /
   DeviceCommunicationControl services + ASAP + SMAP + NSAP + vlan Node): requests are really sent by a REAL client
   stack over the vlan, the device's own application really calls request_io / who_is / i_am, virtual time is
   advanced across the durations (to within 1 ms of each deadline, from both sides).
T  seeded random sequences (durations 0..3 min, password variants, request renderings) on the same stacks.
   Every execution of R and T is recorded (event + projection of the real objects + what the client received and
   what a sniffer saw on the vlan) and validated by TLC (Trace_DCC.tla): conformance step by step, and all X01
   monitors against a ghost TLC computes from the inputs alone.  A conformance deviation without monitor failure is
   re-run from the deviating prefix with a suffix of probe events (DESIGN 1.2).
   One violation is reported per class (monitor, ghost state, event kind), with a delta-debugged failing sequence.
   Development aid: X01_EXTRA_FINDINGS=<json like known_findings.json> is consulted in addition to known_findings.json.
"""
import os, sys, json, random, collections, heapq, shutil
from common import Check, VERIF, WORK, Hang, watchdog
import tlc, tlaval
import vtime

vt = vtime.install()
import bacpypes.core as core
from bacpypes.comm import bind
from bacpypes.pdu import Address, LocalBroadcast
from bacpypes.vlan import Network, Node
from bacpypes.app import Application, ApplicationIOController
from bacpypes.appservice import StateMachineAccessPoint, ApplicationServiceAccessPoint
from bacpypes.netservice import NetworkServiceAccessPoint, NetworkServiceElement
from bacpypes.local.device import LocalDeviceObject
from bacpypes.service.device import WhoIsIAmServices, DeviceCommunicationControlServices
from bacpypes.service.object import ReadWritePropertyServices
from bacpypes.apdu import (DeviceCommunicationControlRequest, ReinitializeDeviceRequest, ReadPropertyRequest,
                           SimpleAckPDU, ComplexAckPDU, Error, UnconfirmedPrivateTransferRequest, IHaveRequest)
from bacpypes.iocb import IOCB

NONE = -1
OFFGRID = -2
STEP_BUDGET = 2000              # run_once passes per event; more = the stacks do not come to rest
GOOD_PW = "xyzzy"
BAD_PWS = ["plugh", "xyzzy ", "XYZZY", "xyzz", ""]
TPM = 2                         # model ticks per minute
# An even tick n is rendered at (n/2) minutes, an odd one 2^-10 s before the next even one: two consecutive ticks
# always add up to exactly one minute (all values exact in binary floating point), and every deadline set at an
# even tick is probed 1 ms before it (must still hold) and exactly at it (must be over).
ODD = 60.0 - 2.0 ** -10


def real(n):
    return (n // 2) * 60.0 + (n % 2) * ODD


def unreal(t):
    k = int(t // 60.0)
    for n in (2 * k, 2 * k + 1, 2 * k + 2):
        if real(n) == t:
            return n
    return OFFGRID


# ---- the stacks (own code; nothing imported from /repo/tests) ---------------------------------------------
class _NSE(NetworkServiceElement):
    _startup_disabled = True


def _wire(app, ldo, addr, vlan):
    app.address = Address(addr)
    app.asap = ApplicationServiceAccessPoint()
    app.smap = StateMachineAccessPoint(ldo)
    app.smap.deviceInfoCache = app.deviceInfoCache
    app.nsap = NetworkServiceAccessPoint()
    app.nse = _NSE()
    bind(app.nse, app.nsap)
    bind(app, app.asap, app.smap, app.nsap)
    app.node = Node(app.address, vlan)
    app.nsap.bind(app.node)


def _ldo(name, inst, **kw):
    return LocalDeviceObject(objectName=name, objectIdentifier=("device", inst), maxApduLengthAccepted=1024,
                             segmentationSupported="noSegmentation", vendorIdentifier=999, **kw)


class DevApp(ApplicationIOController, WhoIsIAmServices, ReadWritePropertyServices, DeviceCommunicationControlServices):
    """the device under test; the do_* overrides only note that the request reached the application"""
    _startup_disabled = True

    def __init__(self, rig, vlan):
        self.rig = rig
        self.ldo = _ldo("dev", 1)
        ApplicationIOController.__init__(self, self.ldo)
        _wire(self, self.ldo, 1, vlan)

    def do_ReadPropertyRequest(self, apdu):
        self.rig.up = True
        ReadWritePropertyServices.do_ReadPropertyRequest(self, apdu)

    def do_WhoIsRequest(self, apdu):
        self.rig.up = True
        WhoIsIAmServices.do_WhoIsRequest(self, apdu)

    def do_DeviceCommunicationControlRequest(self, apdu):
        self.rig.up = True
        DeviceCommunicationControlServices.do_DeviceCommunicationControlRequest(self, apdu)

    def do_ReinitializeDeviceRequest(self, apdu):
        # the library has no ReinitializeDevice service: the application of this rig accepts every request
        self.rig.up = True
        self.response(SimpleAckPDU(context=apdu))


class CliApp(Application, WhoIsIAmServices, ReadWritePropertyServices):
    """the requesting peer: a plain Application (no IOCB queue: every request goes out at once); it never retries, so
    an unanswered request leaves nothing on the wire later"""
    _startup_disabled = True

    def __init__(self, rig, vlan):
        self.rig = rig
        self.ldo = _ldo("cli", 2, numberOfApduRetries=0)
        Application.__init__(self, self.ldo)
        _wire(self, self.ldo, 2, vlan)

    def confirmation(self, apdu):
        self.rig.inbox.append(apdu)

    def do_IAmRequest(self, apdu):
        self.rig.iams.append(apdu)


class NotEnabled(Exception):
    pass


class Rig:
    DEV, CLI = 1, 2

    def __init__(self, cfgpw):
        vt.reset(0.0)
        self.vlan = Network(broadcast_address=LocalBroadcast())
        self.vlan.traffic_log = self._traffic
        self.dev = DevApp(self, self.vlan)
        self.cli = CliApp(self, self.vlan)
        if cfgpw == "set":
            self.dev.ldo._dcc_password = GOOD_PW
        self.n = 0
        self.frames, self.inbox, self.iams = [], [], []
        self.up, self.resp = False, "none"

    def _traffic(self, name, pdu):
        self.frames.append((str(pdu.pduSource), str(pdu.pduDestination), bytes(pdu.pduData).hex()))

    # ---- the event loop -----------------------------------------------------------------------------------
    def dcc_entries(self):
        t = getattr(self.dev, "_dcc_enable_task", None)
        return [e for e in vt.due() if t is not None and e[2] is t]

    def loop(self, hold_dcc=False):
        """the library's own loop until the stacks are at rest; hold_dcc: a due enable task is left for the
        `expire` event"""
        tm = vt.tm
        n = 0
        while True:
            n += 1
            if n > STEP_BUDGET:
                raise vtime.Livelock("more than %d passes at t=%r" % (STEP_BUDGET, vt.now))
            lifted = self.dcc_entries() if hold_dcc else []
            if lifted:
                tm.tasks = [e for e in tm.tasks if not any(e is x for x in lifted)]
                heapq.heapify(tm.tasks)
            try:
                core.run_once()
            finally:
                for e in lifted:
                    if e[2].isScheduled and not any(x[2] is e[2] for x in tm.tasks):
                        heapq.heappush(tm.tasks, e)
            due = [e for e in vt.due() if not (hold_dcc and any(e is x for x in self.dcc_entries()))]
            if not core.deferredFns and not due:
                return

    # ---- rendering of abstract events -----------------------------------------------------------------------
    def _confirmed(self, req):
        req.pduDestination = self.dev.address
        self.cli.request(req)
        self.loop()
        got = [a for a in self.inbox if getattr(a, "apduInvokeID", None) == req.apduInvokeID]
        if not got:
            return "none"
        if len(got) > 1:
            return "other"
        a = got[0]
        if isinstance(a, (SimpleAckPDU, ComplexAckPDU)):
            return "ack"
        if isinstance(a, Error) and str(a.errorClass) == "security" and str(a.errorCode) == "passwordFailure":
            return "pwfail"
        return "other"

    def apply(self, ev):
        op, k, v = ev["op"], ev["k"], ev.get("v", 0)
        self.frames, self.inbox, self.iams = [], [], []
        self.up, self.resp = False, "none"
        if op == "dcc":
            kw = {"enableDisable": ev["m"]}
            if ev["d"] > 0:
                kw["timeDuration"] = ev["d"]
            elif v & 1:
                kw["timeDuration"] = 0
            if ev["pw"] == "good":
                kw["password"] = GOOD_PW
            elif ev["pw"] == "bad":
                kw["password"] = BAD_PWS[(v >> 1) % len(BAD_PWS)]
            self.resp = self._confirmed(DeviceCommunicationControlRequest(**kw))
        elif op == "in" and k == "conf":
            prop = ["objectName", "objectIdentifier", "vendorIdentifier", "maxApduLengthAccepted"][v % 4]
            self.resp = self._confirmed(ReadPropertyRequest(objectIdentifier=("device", 1), propertyIdentifier=prop))
        elif op == "in" and k == "reinit":
            state = ["startBackup", "endBackup", "endRestore"][v % 3]
            self.resp = self._confirmed(ReinitializeDeviceRequest(reinitializedStateOfDevice=state))
        elif op == "in" and k == "whois":
            if v % 4 == 0:
                self.cli.who_is(address=LocalBroadcast())
            elif v % 4 == 1:
                self.cli.who_is(address=self.dev.address)
            elif v % 4 == 2:
                self.cli.who_is(1, 1, address=LocalBroadcast())
            else:
                self.cli.who_is(0, 4194303, address=self.dev.address)
            self.loop()
            mine = [a for a in self.iams if a.pduSource == self.dev.address]
            self.resp = "none" if not mine else "iam" if len(mine) == 1 else "other"
        elif op == "init" and k == "conf":
            req = ReadPropertyRequest(objectIdentifier=("device", 2), propertyIdentifier="objectName")
            req.pduDestination = self.cli.address
            self.dev.request_io(IOCB(req))
            self.loop()
        elif op == "init" and k == "unconf":
            if v % 4 == 0:
                self.dev.who_is()
            elif v % 4 == 1:
                self.dev.who_is(0, 100, address=self.cli.address)
            elif v % 4 == 2:
                req = UnconfirmedPrivateTransferRequest(vendorID=999, serviceNumber=1)
                req.pduDestination = self.cli.address
                self.dev.request(req)
            else:
                req = IHaveRequest(deviceIdentifier=("device", 1), objectIdentifier=("device", 1), objectName="dev")
                req.pduDestination = LocalBroadcast()
                self.dev.request(req)
            self.loop()
        elif op == "init" and k == "iam":
            if v % 2 == 0:
                self.dev.i_am()
            else:
                self.dev.i_am(address=self.cli.address)
            self.loop()
        elif op == "tick":
            self.n += 1
            vt.now = real(self.n)
            self.loop(hold_dcc=True)         # the peer's timeouts etc.; the enable task is an event of its own
        elif op == "expire":
            self.loop()
        else:
            raise ValueError(ev)

    def expire_due(self):
        return bool(self.dcc_entries())

    # ---- projection ---------------------------------------------------------------------------------------------
    def proj(self):
        t = getattr(self.dev, "_dcc_enable_task", None)
        deadline = unreal(t.taskTime) if (t is not None and t.isScheduled) else NONE
        mode = self.dev.smap.dccEnableDisable
        return {"now": unreal(vt.now), "mode": mode if isinstance(mode, str) else repr(mode), "deadline": deadline,
                "blocked": any(q.active_iocb is not None for q in self.dev.queue_by_address.values()),
                "resp": self.resp, "sent": any(f[0] == str(self.dev.address) for f in self.frames), "up": bool(self.up)}


# ---- code -> spec: record + validate ------------------------------------------------------------------------
HANGS = [0]
PROBES = [("in", "whois"), ("in", "conf"), ("in", "reinit"), ("init", "unconf"), ("init", "iam"), ("init", "conf")]


def E(op, k="", m="", d=0, pw="", v=0):
    return {"op": op, "k": k, "m": m, "d": d, "pw": pw, "v": v}


def record(cfgpw, ops=None, gen=None, auto_expire=False):
    """Execute events on fresh real stacks: `ops` (list of event dicts) or `gen(rig)` (a generator).  With
    auto_expire an `expire` event is inserted whenever the real enable task is due.  Returns dict(cfgpw, evs, ops,
    abort): evs carry the projection after every step, ops the events actually executed."""
    rig = Rig(cfgpw)
    evs, done, abort = [], [], None

    def one(ev):
        nonlocal abort
        try:
            with watchdog(10):
                rig.apply(ev)
        except (Hang, vtime.Livelock) as err:
            HANGS[0] += 1
            abort = {"event": ev, "why": repr(err)}
            return False
        done.append(ev)
        evs.append(dict(ev, st=rig.proj()))
        return True
    it = iter(ops) if ops is not None else gen(rig)
    for ev in it:
        if HANGS[0] >= 3:
            break
        if auto_expire and ev["op"] != "expire" and rig.expire_due():
            if not one(E("expire")):
                break
        if auto_expire and ev["op"] == "expire" and not rig.expire_due():
            continue
        if not one(ev):
            break
    return {"cfgpw": cfgpw, "evs": evs, "ops": done, "abort": abort}


TRACE_CONSTS = {"Durations": "{0}", "TPM": str(TPM), "MaxNow": "100000", "CfgPws": '{"none", "set"}',
                "ReqPws": '{"none", "good", "bad"}', "Dev_SwallowBlocksQueue": "FALSE", "Dev_UnsolicitedIAmPasses": "FALSE"}


def run_trace_tlc(traces, label):
    """traces: list of dict(tid, cfgpw, evs).  One JVM; returns {tid: verdict}"""
    wd = tlc.workdir("x01tr")
    tf = os.path.join(wd, "traces.ndjson")
    try:
        with open(tf, "w") as f:
            for t in traces:
                f.write(json.dumps({"tid": t["tid"], "cfgpw": t["cfgpw"], "evs": t["evs"]}) + "\n")
        cfg = "SPECIFICATION TSpec\nCHECK_DEADLOCK FALSE\nCONSTANTS\n" + "".join("  %s = %s\n" % kv for kv in TRACE_CONSTS.items())
        res = tlc.run_tlc("Trace_DCC", cfg_text=cfg, workers=min(4, int(os.environ.get("VERIF_TLC_WORKERS", "16"))),
                          timeout=1200, env={"TRACE_FILE": tf}, name="Trace_DCC/" + label)
    finally:
        shutil.rmtree(wd, ignore_errors=True)
    if res["error_kind"] or not res["finished"]:
        tlc.machinery_failure("trace validation run failed: %s\n%s" % (res["error"], res["output"][-3000:]))
    verdicts = {v["tid"]: v for v in tlc.printed_values(res["output"])}
    if len(verdicts) != len(traces):
        tlc.machinery_failure("trace validation returned %d verdicts for %d traces\n%s" % (len(verdicts), len(traces), res["output"][-2000:]))
    return verdicts, res


MON = ["M_CorrectPasswordAcked", "M_WrongPasswordRefused", "M_DisableSilent", "M_DisableAnswersReinit",
       "M_DisableInitiatesNothing", "M_DisInitResponds", "M_DisInitInitiatesNothing", "M_EnableNormal"]


def seq(v):
    return [v[k] for k in sorted(v)] if isinstance(v, dict) else list(v)


class Judge:
    """collects the verdicts of all validated traces; one violation is reported per class (monitor, ghost state, event
    [, queue blocked]) with the shortest failing sequence"""

    def __init__(self, chk):
        self.chk = chk
        self.classes = {}

    def sig_of(self, t, viol):
        m, l, gmode, via, timed, op, k, before = viol
        event = op + (":" + k if k else "")
        sig = {"mode": gmode, "event": event,
               "timing": "after_expiry" if via == "expiry" else "before_expiry" if timed else "untimed",
               "queue_blocked_before": bool(before)}
        key = (m, gmode, event, bool(before) if event == "init:conf" else None)
        return m, l, sig, key

    def judge(self, traces, label, escalate=True):
        chk = self.chk
        for t in traces:
            if t.get("abort"):
                chk.violation("Terminates", {"event": t["abort"]["event"]["op"] + ":" + t["abort"]["event"]["k"]},
                              {"what": "the stacks did not come to rest within the budget", "abort": t["abort"],
                               "prefix": t["ops"][-8:]}, {"cfgpw": t["cfgpw"], "ops": t["ops"] + [t["abort"]["event"]]})
        traces = [t for t in traces if t["evs"]]
        if not traces:
            return
        verdicts, chunk, size = {}, [], 0
        for t in traces + [None]:                      # one TLC run per ~40 k recorded steps
            if t is not None:
                chunk.append(t)
                size += len(t["evs"])
            if chunk and (t is None or size > 40000):
                vs, res = run_trace_tlc(chunk, label)
                verdicts.update(vs)
                chk.extra["trace_validation_states"] = chk.extra.get("trace_validation_states", 0) + res["distinct"]
                chunk, size = [], 0
        again = []
        for t in traces:
            v = verdicts[t["tid"]]
            for i, h in enumerate(seq(v["hits"])):
                if h:
                    chk.monitor(MON[i], h)
            if v["viol"]:
                for viol in v["viol"]:
                    m, l, sig, key = self.sig_of(t, viol)
                    c = self.classes.setdefault(key, {"n": 0, "best": None})
                    c["n"] += 1
                    if c["best"] is None or l < c["best"][1]:
                        c["best"] = (t, l, m, sig)
            elif v["rej"]:
                if escalate:
                    again.append((t, v["rej"]))
                else:
                    chk.deviation({"tid": t["tid"], "cfgpw": t["cfgpw"], "step": v["rej"], "event": t["evs"][v["rej"] - 1],
                                   "before": t["evs"][v["rej"] - 2]["st"] if v["rej"] >= 2 else "initial state",
                                   "ops": t["ops"][max(0, v["rej"] - 6):v["rej"]]})
            else:
                chk.traces_validated += 1
        if again:
            # DESIGN 1.2: a deviation triggers exploration from the deviating prefix
            esc = []
            for i, (t, l) in enumerate(again[:200]):
                ops = t["ops"][:l] + [E(op, k, v=j) for j, (op, k) in enumerate(PROBES)] + [E("tick"), E("tick")] + \
                      [E(op, k) for op, k in PROBES]
                r = record(t["cfgpw"], ops, auto_expire=True)
                r["tid"] = 9000000 + i
                r["deviated_at"] = l
                esc.append(r)
                chk.case(("esc", label, t["tid"]), n=len(r["evs"]))
            self.judge(esc, label + "/escalated", escalate=False)

    def report(self):
        chk = self.chk
        small = minimize_all({key: (c["best"][0]["cfgpw"], c["best"][0]["ops"][:c["best"][1]], c["best"][2])
                              for key, c in self.classes.items()}, self)
        for key, c in sorted(self.classes.items(), key=lambda kv: str(kv[0])):
            t, l, m, sig = c["best"]
            ops = small[key]
            r = record(t["cfgpw"], ops)
            r["tid"] = 1
            for viol in run_trace_tlc([r], "minimized")[0][1]["viol"]:
                if viol[0] == m and viol[1] == len(r["evs"]):
                    sig = self.sig_of(r, viol)[2]          # the signature of the sequence that is reported
            chk.violation(m, sig, {"cfgpw": t["cfgpw"], "failing_sequence": [brief(e) for e in r["evs"]],
                                   "violating_traces_in_this_class": c["n"],
                                   "expected": EXPECT.get(m, ""), "got": r["evs"][-1]["st"] if r["evs"] else None},
                          {"cfgpw": t["cfgpw"], "ops": ops})
        chk.extra["violation_classes"] = {str(k): c["n"] for k, c in self.classes.items()}


EXPECT = {
    "M_CorrectPasswordAcked": "a request with the right password (or no password configured) is acknowledged",
    "M_WrongPasswordRefused": "a wrong password is answered with error security/passwordFailure",
    "M_DisableSilent": "disable: no answer (and no frame at all) to Who-Is and to confirmed requests of other services",
    "M_DisableAnswersReinit": "disable: ReinitializeDevice is still answered",
    "M_DisableInitiatesNothing": "disable: nothing the application initiates reaches the medium",
    "M_DisInitResponds": "disableInitiation: every request is still answered (Who-Is with I-Am)",
    "M_DisInitInitiatesNothing": "disableInitiation: nothing the application initiates reaches the medium (only I-Am in answer to Who-Is)",
    "M_EnableNormal": "enable (by request, by default or after the duration ran out): requests are answered, initiated requests are sent",
}


def brief(e):
    s = e["op"] + (":" + e["k"] if e["k"] else "")
    if e["op"] == "dcc":
        s += "(%s, %s min, pw %s)" % (e["m"], e["d"] or "no", e["pw"])
    st = e["st"]
    return "%s -> resp=%s sent=%s [mode=%s deadline=%s now=%s blocked=%s]" % (
        s, st["resp"], st["sent"], st["mode"], st["deadline"], st["now"], st["blocked"])


def minimize_all(items, judge, rounds=8):
    """items: {key: (cfgpw, ops, monitor)}.  Delta-debugging by deletion of contiguous chunks (halves ... single
    events); all candidates of a round, for all classes, are judged in one TLC run; a candidate is kept when its LAST
    step fails the same monitor in the same class.  Returns {key: ops}."""
    cur = {k: list(v[1]) for k, v in items.items()}
    active = set(cur)
    for _ in range(rounds):
        cands = []
        for key in sorted(active, key=str):
            ops = cur[key]
            n = len(ops) - 1                    # the last event is the failing one
            size = max(n // 2, 1)
            seen = set()
            while size >= 1 and n >= 1:
                for i in range(0, n, size):
                    c = ops[:i] + ops[i + size:] if i + size < len(ops) else None
                    if c is None:
                        c = ops[:i] + ops[-1:]
                    sig = json.dumps(c, sort_keys=True)
                    if sig in seen or len(c) >= len(ops):
                        continue
                    seen.add(sig)
                    r = record(items[key][0], c, auto_expire=True)
                    r["tid"] = len(cands) + 1
                    r["key"] = key
                    cands.append(r)
                if size == 1:
                    break
                size //= 2
        if not cands:
            break
        verdicts, _ = run_trace_tlc([c for c in cands if c["evs"]], "minimize")
        progress = set()
        for r in cands:
            if not r["evs"]:
                continue
            key = r["key"]
            for viol in verdicts[r["tid"]]["viol"]:
                m, l, sig, k2 = judge.sig_of(r, viol)
                if m == items[key][2] and k2 == key and l == len(r["evs"]) and len(r["ops"]) < len(cur[key]):
                    cur[key] = r["ops"]
                    progress.add(key)
        active = progress
        if not active:
            break
    return cur


# ---- D: the design ------------------------------------------------------------------------------------------------
PROPS = ["P_CorrectPasswordAcked", "P_WrongPasswordRefused", "P_DisableSilent", "P_DisableAnswersReinit",
         "P_DisableInitiatesNothing", "P_DisInitResponds", "P_DisInitInitiatesNothing", "P_EnableNormal",
         "P_RefusedChangesNothing", "P_LaterRequestReplaces", "P_ReturnsOnTime"]


def cfg_text(durations, maxnow, dev_block=False, dev_iam=False, cfgpws=("none", "set"), props=True):
    c = {"Durations": "{" + ", ".join(str(d) for d in durations) + "}", "TPM": str(TPM), "MaxNow": str(maxnow),
         "CfgPws": "{" + ", ".join('"%s"' % p for p in cfgpws) + "}", "ReqPws": '{"none", "good", "bad"}',
         "Dev_SwallowBlocksQueue": "TRUE" if dev_block else "FALSE", "Dev_UnsolicitedIAmPasses": "TRUE" if dev_iam else "FALSE"}
    s = "SPECIFICATION Spec\nCHECK_DEADLOCK FALSE\nCONSTANTS\n" + "".join("  %s = %s\n" % kv for kv in c.items())
    s += "INVARIANT TypeOK\nINVARIANT DesignSane\n"
    if props:
        s += "".join("PROPERTY %s\n" % p for p in PROPS)
    return s


def run_design(chk, thorough):
    res = tlc.run_tlc("MC_DCC", cfg_file="MC_DCC.cfg", timeout=600, name="DCC/MC_DCC.cfg")
    chk.tlc(res)
    if res["error_kind"]:
        tlc.machinery_failure("design model DCC violates %s\n%s" % (res["error"], res["output"][-3000:]))
    if thorough:
        res = tlc.run_tlc("MC_DCC", cfg_text=cfg_text([0, 1, 2, 3], 12), timeout=900, name="DCC/durations 0..3, 6 minutes")
        chk.tlc(res)
        if res["error_kind"]:
            tlc.machinery_failure("design model DCC violates %s\n%s" % (res["error"], res["output"][-3000:]))
    for flag, kw in (("Dev_SwallowBlocksQueue", {"dev_block": True}), ("Dev_UnsolicitedIAmPasses", {"dev_iam": True})):
        res = tlc.run_tlc("MC_DCC", cfg_text=cfg_text([0, 1], 3, **kw), timeout=300, name="DCC/" + flag)
        if res["error_kind"] not in ("invariant", "action_property", "property", "temporal"):
            tlc.machinery_failure("sanity: DCC with %s=TRUE should violate a property, got %r\n%s" % (flag, res["error"], res["output"][-2000:]))
        chk.extra.setdefault("sanity", []).append("%s=TRUE violates %s as expected (counterexample of %d states)" % (
            flag, res["error"], len(res["trace"])))


# ---- R: spec -> code ------------------------------------------------------------------------------------------------
CORE = ("now", "mode", "deadline", "cfgpw", "blocked")


def graph_walks(chk, durations, maxnow):
    """TLC dumps the state graph; nodes are merged when they differ only in the observation variables of the step
    that led to them (act, resp, sent, up, and the ghost, which the design invariant ties to mode/deadline); every
    (state, event) edge of the quotient is covered by walks from the initial states."""
    wd = tlc.workdir("x01dot")
    dot = os.path.join(wd, "g")
    try:
        res = tlc.run_tlc("MC_DCC", cfg_text=cfg_text(durations, maxnow, props=False), timeout=600, dump_dot=dot,
                          name="DCC/graph durations %s maxnow %d" % (durations, maxnow))
        chk.tlc(res)
        if res["error_kind"]:
            tlc.machinery_failure("design model DCC violates %s\n%s" % (res["error"], res["output"][-3000:]))
        nodes, edges, _ = tlaval.parse_dot(dot + ".dot")
    finally:
        shutil.rmtree(wd, ignore_errors=True)

    def core_of(st):
        return tuple(st[k] for k in CORE)

    def ev_of(st):
        a = st["act"]
        return (a["op"], a["k"], a["m"], a["d"], a["pw"])
    succ = collections.defaultdict(dict)
    for u, v in edges:
        cu, cv = core_of(nodes[u]), core_of(nodes[v])
        succ[cu][ev_of(nodes[v])] = cv
    inits = sorted(set(core_of(st) for st in nodes.values() if st["act"]["op"] == "start"))
    out, nedges = [], 0
    for init in inits:
        parent = {init: None}
        dq = collections.deque([init])
        while dq:
            u = dq.popleft()
            for ev, v in sorted(succ[u].items()):
                if v not in parent:
                    parent[v] = (u, ev)
                    dq.append(v)

        def path_to(u):
            p = []
            while parent[u] is not None:
                u, ev = parent[u]
                p.append(ev)
            return p[::-1]
        todo = {u: sorted(succ[u].items(), reverse=True) for u in parent}
        nedges += sum(len(x) for x in todo.values())
        for start in sorted(todo, key=lambda u: (len(path_to(u)), u)):
            while todo[start]:
                walk = path_to(start)
                new = []
                u = start
                while todo[u]:
                    ev, v = todo[u].pop()
                    walk.append(ev)
                    new.append((u, ev))
                    u = v
                out.append((init[CORE.index("cfgpw")], walk, new))
    chk.extra.setdefault("replay", []).append({"graph_nodes": len(nodes), "graph_edges": len(edges),
                                               "quotient_states": len(succ), "quotient_edges": nedges, "walks": len(out),
                                               "steps_executed_on_impl": sum(len(w) for _, w, _ in out)})
    return out


# ---- T: random sequences ----------------------------------------------------------------------------------------------
def random_ops(rng, n):
    ops = []
    since_tick = 0
    for _ in range(n):
        r = rng.random()
        v = rng.randrange(64)
        if r < 0.25:
            ops.append(E("dcc", m=rng.choice(["enable", "disable", "disable", "disableInitiation", "disableInitiation"]),
                         d=rng.choice([0, 0, 1, 1, 2, 3]), pw=rng.choice(["good", "good", "good", "bad", "bad", "none"]), v=v))
        elif r < 0.47:
            ops.append(E("in", rng.choice(["conf", "whois", "whois", "reinit"]), v=v))
        elif r < 0.72:
            ops.append(E("init", rng.choice(["conf", "unconf", "unconf", "iam"]), v=v))
        else:
            ops.append(E("tick"))
            since_tick = 0
            continue
        since_tick += 1
        if since_tick > 60:
            ops.append(E("tick"))
            since_tick = 0
    return ops


# -----------------------------------------------------------------------------------------------------------------------
def new_check(tier, seed):
    chk = Check("X01", tier, seed)
    extra = os.environ.get("X01_EXTRA_FINDINGS")          # development aid: a local copy of known findings
    if extra and os.path.exists(extra):
        chk.findings = chk.findings + json.load(open(extra)).get("findings", [])
    return chk


def main(tier, seed):
    chk = new_check(tier, seed)
    rng = random.Random(seed)
    thorough = tier == "thorough"
    chk.rule = ("model: every behaviour of DCC.tla within the clock bound; implementation: one evaluation = one event (a "
                "request really sent by the client stack over the vlan / a request of the device's own application / a "
                "clock step / the enable task) executed on the real stacks, its observations and projection validated by "
                "TLC; distinct = distinct (quotient state, event) edges of the graph | (sequence, position); non-trivial = all")
    chk.assumptions = [
        "virtual clock; loss-free vlan; one requesting peer; the device application is an ApplicationIOController "
        "(confirmed requests are initiated with request_io, unconfirmed ones with request / who_is / i_am)",
        "the library has no ReinitializeDevice service: the rig's device application acknowledges every such request "
        "(backup/restore states, which do not re-enable communication)",
        "a time duration of 0 is treated like an absent one (indefinite), as the code does",
        "clock probes are 1 ms before and exactly at whole minutes; requests are issued at those instants only"]
    run_design(chk, thorough)
    judge = Judge(chk)
    # R
    walks = graph_walks(chk, [0, 1, 2, 3] if thorough else [0, 1, 2], 10 if thorough else 5)
    traces = []
    for i, (cfgpw, walk, new) in enumerate(walks):
        ops = [E(op, k, m, d, pw, v=(i + j) % 16) for j, (op, k, m, d, pw) in enumerate(walk)]
        r = record(cfgpw, ops)
        r["tid"] = 1000000 + i
        traces.append(r)
        chk.case(None, n=len(walk) - len(new))            # the prefix that leads to the uncovered edges
        for edge in new:
            chk.case(("R", edge))
        if i == 1 and r["evs"]:
            chk.sample({"kind": "graph walk", "cfgpw": cfgpw, "first_steps": [brief(e) for e in r["evs"][:8]]})
    judge.judge(traces, "graph walks")
    # T
    traces = []
    for i in range(1500 if thorough else 60):
        cfgpw = rng.choice(["none", "set", "set"])
        ops = random_ops(rng, rng.choice([20, 60, 150, 400] if thorough else [20, 60, 150]))
        r = record(cfgpw, ops, auto_expire=True)
        r["tid"] = i + 1
        traces.append(r)
        chk.case(("T", i), n=len(r["evs"]))
        if i < 2 and r["evs"]:
            chk.sample({"kind": "random sequence", "cfgpw": cfgpw, "first_steps": [brief(e) for e in r["evs"][:8]]})
    judge.judge(traces, "random sequences")
    judge.report()
    return chk.finish()


def replay(path):
    body = json.load(open(path))
    rp = body["replay"]
    chk = new_check("quick", body.get("seed", 0))
    r = record(rp["cfgpw"], rp["ops"])
    r["tid"] = 1
    for e in r["evs"]:
        print(brief(e))
    judge = Judge(chk)
    judge.judge([r], "replay", escalate=False)
    for key, c in judge.classes.items():
        t, l, m, sig = c["best"]
        chk.violation(m, sig, {"cfgpw": t["cfgpw"], "failing_sequence": [brief(e) for e in t["evs"][:l]],
                               "expected": EXPECT.get(m, "")}, rp)
    return chk.finish()
