"""C16 -- COV subscribers are told of every qualifying change, and only while subscribed.   (spec/COV.tla)

D  TLC exhaustive on COV.tla: the full configuration (1 analog + 1 binary object, 2 subscribers, lifetimes {0,1,2},
   confirmed/unconfirmed, 4-point value grid around the increment, status flags) to the depth that fits the budget,
   and three slices of it (subscriptions / criteria / pair) to depth 8..10; plus the named deviation
   Dev_RenewKeepsOldParams (finding F11) which must violate the properties.
R  state graph of small configurations dumped by TLC, covered edge by edge, every walk executed on a REAL device
   stack (Application + ChangeOfValueServices + ASAP + SMAP + NSAP + vlan Node) with REAL subscriber stacks on a
   loss-free vlan under virtual time.
T  seeded random timelines at the property's sizes (1..3 subscribers x 2 process ids, lifetimes 0..120 s,
   confirmed/unconfirmed, analog-value / binary-value / multi-state-value / pulse-converter objects, sub-increment
   steps, returns to the old value, bursts within one instant, status-flag writes, reads of
   activeCovSubscriptions over the wire, time advanced across every expiry).
   Every execution of R and T is recorded (event + full projection of the real objects + what every subscriber
   application received) and validated by TLC (Trace_COV.tla): conformance step by step against the design
   actions, and all C16 monitors (TLA+ formulas over inputs, outputs and ghosts computed by TLC from the inputs).
"""
import os, sys, json, random, collections, heapq, shutil
from common import Check, VERIF, WORK, Hang, watchdog
import tlc, tlaval
import vtime

vt = vtime.install()
import bacpypes.core as core
from bacpypes.comm import bind
from bacpypes.pdu import Address, LocalBroadcast
from bacpypes.vlan import Network, Node
from bacpypes.app import ApplicationIOController
from bacpypes.appservice import StateMachineAccessPoint, ApplicationServiceAccessPoint
from bacpypes.netservice import NetworkServiceAccessPoint, NetworkServiceElement
from bacpypes.local.device import LocalDeviceObject
from bacpypes.service.cov import ChangeOfValueServices, Subscription
from bacpypes.service.object import ReadWritePropertyServices
from bacpypes.object import AnalogValueObject, BinaryValueObject, MultiStateValueObject, PulseConverterObject
from bacpypes.apdu import SubscribeCOVRequest, SubscribeCOVPropertyRequest, SimpleAckPDU, ReadPropertyRequest, ReadPropertyACK
from bacpypes.basetypes import PropertyReference
from bacpypes.primitivedata import Real, Unsigned
from bacpypes.basetypes import StatusFlags, BinaryPV, COVSubscription
from bacpypes.constructeddata import ListOf
from bacpypes.iocb import IOCB

NONE = -1
STEP_BUDGET = 3000          # run_once passes per harness event; more = the stack does not come to rest


class _NSE(NetworkServiceElement):
    _startup_disabled = True


class Stack(ApplicationIOController):
    """Application + ASAP + SMAP + NSAP + NSE + vlan Node (own code; nothing imported from /repo/tests)."""

    def __init__(self, rig, name, inst, addr, vlan):
        self.rig = rig
        self.ldo = LocalDeviceObject(objectName=name, objectIdentifier=("device", inst), maxApduLengthAccepted=1024,
                                     segmentationSupported="noSegmentation", vendorIdentifier=999)
        ApplicationIOController.__init__(self, self.ldo)
        self.address = Address(addr)
        self.asap = ApplicationServiceAccessPoint()
        self.smap = StateMachineAccessPoint(self.ldo)
        self.smap.deviceInfoCache = self.deviceInfoCache
        self.nsap = NetworkServiceAccessPoint()
        self.nse = _NSE()
        bind(self.nse, self.nsap)
        bind(self, self.asap, self.smap, self.nsap)
        self.node = Node(self.address, vlan)
        self.nsap.bind(self.node)

    # subscriber side: record what the application receives
    def do_ConfirmedCOVNotificationRequest(self, apdu):
        self.rig.on_note(self, apdu, True)
        self.response(SimpleAckPDU(context=apdu))

    def do_UnconfirmedCOVNotificationRequest(self, apdu):
        self.rig.on_note(self, apdu, False)


# object kinds: (class, object type, analog?)
KINDS = {
    "av": (AnalogValueObject, "analogValue", True),
    "bv": (BinaryValueObject, "binaryValue", False),
    "msv": (MultiStateValueObject, "multiStateValue", False),
    "pc": (PulseConverterObject, "pulseConverter", True),
}


def bits(f):
    return [(f >> 3) & 1, (f >> 2) & 1, (f >> 1) & 1, f & 1]


def unbits(b):
    b = list(b)
    return b[0] * 8 + b[1] * 4 + b[2] * 2 + b[3]


class Rig:
    """One device with ChangeOfValueServices and `nsubs` subscribers; driven by COV.tla events.
    layout: dict(kinds=[...], inc=[grid units], scale=real per grid unit, tps=ticks per second, initpv=[...])"""

    DEV_ADDR = 1

    def __init__(self, layout, nsubs):
        self.L = layout
        self.tps = layout["tps"]
        self.scale = layout["scale"]
        self.nsubs = nsubs
        vt.reset(0.0)
        self.vlan = Network(broadcast_address=LocalBroadcast())
        self.dev = Stack(self, "dev", 1, self.DEV_ADDR, self.vlan)
        self.dev.add_capability(ChangeOfValueServices)
        self.dev.add_capability(ReadWritePropertyServices)
        self.objs = []
        for i, kind in enumerate(layout["kinds"]):
            cls, otype, analog = KINDS[kind]
            kw = dict(objectIdentifier=(otype, i + 1), objectName="o%d" % (i + 1), statusFlags=[0, 0, 0, 0],
                      presentValue=self.render(i + 1, layout["initpv"][i]))
            if analog:
                kw["covIncrement"] = layout["inc"][i] * self.scale
            if kind == "pc":
                kw["covPeriod"] = 0
            if kind == "msv":
                kw["numberOfStates"] = 1000
            o = cls(**kw)
            self.dev.add_object(o)
            self.objs.append(o)
        self.subs = [Stack(self, "s%d" % (k + 1), 11 + k, 11 + k, self.vlan) for k in range(nsubs)]
        # a station that is none of the subscribers (it uses SubscribeCOVProperty; what it receives is its own business)
        self.stranger = Stack(self, "x", 41, 41, self.vlan)
        self.out = [[] for _ in range(nsubs)]
        self.alist, self.alen = [], NONE
        self.problems = []          # things the projection could not express (reported as machinery / deviation)

    # ---- rendering of abstract values --------------------------------------------------------------------
    def kind(self, o):
        return self.L["kinds"][o - 1]

    def render(self, o, v):
        k = self.L["kinds"][o - 1]
        if k in ("av", "pc"):
            return float(v) * self.scale
        if k == "bv":
            return "active" if v else "inactive"
        return int(v)

    def unrender(self, o, x):
        k = self.kind(o)
        if k in ("av", "pc"):
            g = x / self.scale
            if abs(g - round(g)) > 1e-6:
                self.problems.append("present value %r of object %d is off the grid" % (x, o))
            return int(round(g))
        if k == "bv":
            return {"inactive": 0, "active": 1, 0: 0, 1: 1}[x]
        return int(x)

    def ticks(self, t):
        if t is None:
            return NONE
        g = t * self.tps
        if abs(g - round(g)) > 1e-6:
            self.problems.append("time %r is off the tick grid" % (t,))
        return int(round(g))

    def oid(self, o):
        return (KINDS[self.kind(o)][1], o)

    def sub_index(self, addr):
        a = addr.addrAddr[0] if isinstance(addr, Address) else addr[0]
        return a - 10

    # ---- observations ---------------------------------------------------------------------------------------
    def on_note(self, stack, apdu, confirmed):
        if stack is self.stranger:
            return
        s = self.subs.index(stack) + 1
        o = apdu.monitoredObjectIdentifier[1]
        vals = {}
        for pvl in apdu.listOfValues:
            vals[pvl.propertyIdentifier] = pvl.value
        k = self.kind(o)
        dt = Real if k in ("av", "pc") else BinaryPV if k == "bv" else Unsigned
        pv = vals["presentValue"].cast_out(dt)
        fl = vals["statusFlags"].cast_out(StatusFlags)
        self.out[s - 1].append({"t": "note", "p": int(apdu.subscriberProcessIdentifier), "o": o, "pv": self.unrender(o, pv),
                                "fl": unbits(fl.value if hasattr(fl, "value") else fl), "tr": int(apdu.timeRemaining),
                                "conf": bool(confirmed)})

    def on_sub_reply(self, s, iocb):
        if iocb.ioResponse is not None and isinstance(iocb.ioResponse, SimpleAckPDU):
            self.out[s - 1].append({"t": "ack", "p": 0, "o": 0, "pv": 0, "fl": 0, "tr": 0, "conf": False})
        else:
            self.out[s - 1].append({"t": "err", "p": 0, "o": 0, "pv": 0, "fl": 0, "tr": 0, "conf": False})

    # ---- the event loop --------------------------------------------------------------------------------------
    def _due_subscription_tasks(self):
        return [e for e in vt.due() if isinstance(e[2], Subscription)]

    def loop(self, keep=None):
        """Run the library's own loop (core.run_once) until the stacks are at rest.  Lifetime tasks that are due are
        lifted out of the heap for the duration (each expiry is an event of its own) except `keep`; budgeted."""
        tm = vt.tm
        n = 0
        while True:
            n += 1
            if n > STEP_BUDGET:
                raise vtime.Livelock("more than %d passes at t=%r" % (STEP_BUDGET, vt.now))
            lifted = [e for e in self._due_subscription_tasks() if e[2] is not keep]
            if lifted:
                tm.tasks = [e for e in tm.tasks if not any(e is x for x in lifted)]
                heapq.heapify(tm.tasks)
            try:
                core.run_once()
            finally:
                for e in lifted:
                    if e[2].isScheduled and not any(x[2] is e[2] for x in tm.tasks):
                        heapq.heappush(tm.tasks, e)
            keep = None
            if not core.deferredFns and not [e for e in vt.due() if not isinstance(e[2], Subscription)]:
                return

    # ---- events ----------------------------------------------------------------------------------------------
    def apply(self, ev):
        """ev: dict(op, s, p, o, c, l, v).  Executes the event on the real stacks."""
        op = ev["op"]
        self.out = [[] for _ in range(self.nsubs)]
        self.alist, self.alen = [], NONE
        if op in ("sub", "cancel"):
            s = ev["s"]
            req = SubscribeCOVRequest(subscriberProcessIdentifier=ev["p"], monitoredObjectIdentifier=self.oid(ev["o"]))
            if op == "sub":
                req.issueConfirmedNotifications = bool(ev["c"])
                req.lifetime = int(ev["l"])
            req.pduDestination = self.dev.address
            iocb = IOCB(req)
            iocb.add_callback(lambda io, s=s: self.on_sub_reply(s, io))
            self.subs[s - 1].request_io(iocb)
            self.loop()
        elif op == "expire":
            cov = None
            for e in self._due_subscription_tasks():
                t = e[2]
                if (self.sub_index(t.client_addr), int(t.proc_id), int(t.obj_id[1])) == (ev["s"], ev["p"], ev["o"]):
                    cov = t
                    break
            if cov is None:
                raise NotEnabled("no due lifetime task for %r" % ((ev["s"], ev["p"], ev["o"]),))
            self.loop(keep=cov)
        elif op == "drain":
            self.loop()
        elif op == "stranger":
            for cancel in (False, True):
                req = SubscribeCOVPropertyRequest(subscriberProcessIdentifier=77, monitoredObjectIdentifier=self.oid(ev["o"]),
                                                  monitoredPropertyIdentifier=PropertyReference(propertyIdentifier="presentValue"))
                if not cancel:
                    req.issueConfirmedNotifications = False
                    req.lifetime = 60
                req.pduDestination = self.dev.address
                self.stranger.request_io(IOCB(req))
                self.loop()
        elif op == "tick":
            vt.now = (self.ticks(vt.now) + ev["v"]) / float(self.tps)
        elif op == "wpv":
            self.objs[ev["o"] - 1].presentValue = self.render(ev["o"], ev["v"])
        elif op == "wfl":
            self.objs[ev["o"] - 1].statusFlags = bits(ev["v"])
        elif op == "read":
            req = ReadPropertyRequest(objectIdentifier=("device", 1), propertyIdentifier="activeCovSubscriptions")
            req.pduDestination = self.dev.address
            iocb = IOCB(req)
            self.subs[ev["s"] - 1].request_io(iocb)
            self.loop()
            if isinstance(iocb.ioResponse, ReadPropertyACK):
                lst = iocb.ioResponse.propertyValue.cast_out(ListOf(COVSubscription))
                for c in lst:
                    self.alist.append({"s": self.sub_index(c.recipient.recipient.address.macAddress),
                                       "p": int(c.recipient.processIdentifier),
                                       "o": int(c.monitoredPropertyReference.objectIdentifier[1]),
                                       "conf": bool(c.issueConfirmedNotifications), "tr": int(c.timeRemaining)})
                self.alen = len(self.alist)
                self.alist.sort(key=lambda a: (a["s"], a["p"], a["o"], a["conf"], a["tr"]))
            else:
                self.alen = -2
        else:
            raise ValueError(op)

    def find_cov(self, s, p, o):
        det = self.dev.cov_detections.get(self.objs[o - 1])
        if det is None:
            return None
        for cov in det.cov_subscriptions:
            if self.sub_index(cov.client_addr) == s and cov.proc_id == p:
                return cov
        return None

    # ---- projection --------------------------------------------------------------------------------------------
    def proj(self):
        dev = self.dev
        n = len(self.objs)
        det, last, trig, subs = [], [], [], []
        listed = set()
        for i, obj in enumerate(self.objs):
            d = dev.cov_detections.get(obj)
            det.append(d is not None)
            trig.append(bool(d._triggered) if d is not None else False)
            prv = getattr(d, "previous_reported_value", None) if d is not None else None
            last.append(NONE if prv is None else self.unrender(i + 1, prv))
            recs = []
            if d is not None:
                for cov in d.cov_subscriptions:
                    listed.add(id(cov))
                    recs.append({"s": self.sub_index(cov.client_addr), "p": int(cov.proc_id), "o": int(cov.obj_id[1]),
                                 "conf": bool(cov.confirmed), "life": int(cov.lifetime or 0),
                                 "exp": self.ticks(cov.taskTime), "armed": bool(cov.isScheduled)})
            subs.append(recs)
        dq = []
        for fn, args, kw in core.deferredFns:
            owner = getattr(fn, "__self__", None)
            name = getattr(fn, "__name__", "")
            o = self.objs.index(owner.obj) + 1 if hasattr(owner, "obj") and owner.obj in self.objs else 0
            if name == "_execute" and o:
                dq.append({"k": "exec", "o": o, "s": 0, "p": 0})
            elif name == "send_cov_notifications" and o and args:
                dq.append({"k": "init", "o": o, "s": self.sub_index(args[0].client_addr), "p": int(args[0].proc_id)})
            else:
                dq.append({"k": "other", "o": 0, "s": 0, "p": 0})
        stuck = sorted(self.sub_index(a) for a, q in dev.queue_by_address.items() if q.active_iocb is not None)
        orph = 0
        for e in vt.tm.tasks:
            if isinstance(e[2], Subscription):
                if id(e[2]) not in listed:
                    orph += 1
            else:
                orph += 1               # at rest nothing but lifetime tasks of listed subscriptions may be scheduled
        return {"now": self.ticks(vt.now),
                "pv": [self.unrender(i + 1, o._values["presentValue"]) for i, o in enumerate(self.objs)],
                "fl": [unbits(o._values["statusFlags"]) for o in self.objs],
                "det": det, "lastRep": last, "trig": trig, "subs": subs, "dq": dq, "stuck": stuck,
                "out": [list(x) for x in self.out], "alist": list(self.alist), "alen": self.alen, "orph": orph}


class NotEnabled(Exception):
    pass


# =========================================================================================================
# configurations (constants of COV.tla) -- `layout` is how the harness renders them on real objects
def tla_seq(xs):
    return "<<" + ", ".join(str(x) for x in xs) + ">>"


def tla_set(xs):
    return "{" + ", ".join(str(x) for x in xs) + "}"


def tla_bool(b):
    return "TRUE" if b else "FALSE"


MONITORS = ["AckThenInitial", "OnePerBurstPerSubscription", "NoneForSubThreshold", "NothingAfterCancelOrExpiry",
            "ConfirmedAsRequested", "TimeRemaining", "RenewReplaces", "ActiveListExact"]

CONFIGS = {
    # the configuration of the property's design row: 1 analog + 1 binary object, 2 subscribers, lifetimes {0,1,2},
    # values on a 4-point grid around the increment (0, inc-1, inc, inc+1)
    "full": dict(kinds=["av", "bv"], inc=[2, 0], vals=[[0, 1, 2, 3], [0, 1]], initpv=[0, 0], flags=[0, 1], nsubs=2,
                 procs=[1], lifetimes=[0, 1, 2], confs=[True, False], scale=1.0, tps=1),
    # slices of it that can be explored deeper
    "pair": dict(kinds=["av", "bv"], inc=[2, 0], vals=[[0, 1, 2, 3], [0, 1]], initpv=[0, 0], flags=[0], nsubs=2,
                 procs=[1], lifetimes=[0, 1], confs=[True], scale=1.0, tps=1),
    "subs": dict(kinds=["bv"], inc=[0], vals=[[0, 1]], initpv=[0], flags=[0], nsubs=2,
                 procs=[1], lifetimes=[0, 1, 2], confs=[True, False], scale=1.0, tps=1),
    "crit": dict(kinds=["av"], inc=[2], vals=[[0, 1, 2, 3]], initpv=[0], flags=[0, 1], nsubs=2,
                 procs=[1], lifetimes=[0, 1], confs=[True], scale=1.0, tps=1),
    # replay graphs (dumped without VIEW: every node carries act/out)
    "g_subs": dict(kinds=["bv"], inc=[0], vals=[[0, 1]], initpv=[0], flags=[0], nsubs=2,
                   procs=[1], lifetimes=[0, 1, 2], confs=[True, False], scale=1.0, tps=1),
    "g_crit": dict(kinds=["av", "bv"], inc=[2, 0], vals=[[0, 1, 2, 3], [0, 1]], initpv=[0, 0], flags=[0, 1], nsubs=1,
                   procs=[1], lifetimes=[0, 1], confs=[False], scale=1.0, tps=1),
    # random timelines: four object kinds, 3 subscribers x 2 process ids; two groups with different grids
    "t1": dict(kinds=["av", "bv", "msv", "pc"], inc=[2, 0, 0, 3], vals=[[0], [0], [1], [0]], initpv=[10, 0, 1, 20],
               flags=[0], nsubs=3, procs=[1, 2], lifetimes=[0], confs=[True], scale=1.0, tps=1, strangers=True),
    "t2": dict(kinds=["av", "bv", "msv", "pc"], inc=[5, 0, 0, 1], vals=[[0], [0], [1], [0]], initpv=[40, 1, 3, 7],
               flags=[0], nsubs=3, procs=[1, 2], lifetimes=[0], confs=[True], scale=0.25, tps=4, strangers=True),
    # the subs slice with a station outside Subs using SubscribeCOVProperty on the same object
    "subs_x": dict(kinds=["bv"], inc=[0], vals=[[0, 1]], initpv=[0], flags=[0], nsubs=2,
                   procs=[1], lifetimes=[0, 1], confs=[True, False], scale=1.0, tps=1, strangers=True),
}


def constants_of(c, maxlevel=0, dev=False):
    n = len(c["kinds"])
    analog = [i + 1 for i, k in enumerate(c["kinds"]) if KINDS[k][2]]
    defs = {"Inc": tla_seq(c["inc"]), "Vals": tla_seq(tla_set(v) for v in c["vals"]), "InitPV": tla_seq(c["initpv"])}
    consts = {"Objs": tla_set(range(1, n + 1)), "Analog": tla_set(analog), "FlagVals": tla_set(c["flags"]),
              "Subs": tla_set(range(1, c["nsubs"] + 1)), "Procs": tla_set(c["procs"]),
              "Lifetimes": tla_set(c["lifetimes"]), "Confs": tla_set(tla_bool(b) for b in c["confs"]),
              "TickSteps": "{1}", "TPS": str(c["tps"]), "MaxLevel": str(maxlevel),
              "Dev_RenewKeepsOldParams": tla_bool(dev), "Strangers": tla_bool(c.get("strangers", False))}
    return defs, consts


def run_mc(chk, name, maxlevel, dev=False, expect_error=False, dump=None, view=True, timeout=900, simulate=None, seed=None):
    c = CONFIGS[name]
    defs, consts = constants_of(c, maxlevel, dev)
    lines = ["SPECIFICATION Spec", "CONSTRAINT Bound", "CHECK_DEADLOCK FALSE"]
    if view:
        lines.append("VIEW View")
    lines += ["PROPERTY P_" + m for m in MONITORS + ["DesignSane"]]
    mod = "MCgen_COV_" + name
    files, cfg = tlc.mc_wrapper(mod, "COV", defs, lines, consts)
    res = tlc.run_tlc(mod, cfg_text=cfg, files=files, timeout=timeout, dump_dot=dump, simulate=simulate,
                      depth=maxlevel if simulate else None, seed=seed,
                      name="COV/%s depth %d%s%s" % (name, maxlevel, " Dev_RenewKeepsOldParams" if dev else "",
                                                    " simulate %d" % simulate if simulate else ""))
    if not expect_error:
        chk.tlc(res)
        if res["error_kind"]:
            tlc.machinery_failure("design model COV/%s violates %s\n%s" % (name, res["error"], res["output"][-3000:]))
    else:
        if res["error_kind"] not in ("invariant", "action_property", "property", "temporal", "assert"):
            tlc.machinery_failure("sanity: COV/%s with Dev_RenewKeepsOldParams should violate a property, got %r\n%s" % (
                name, res["error"], res["output"][-2000:]))
        chk.extra.setdefault("sanity", []).append(
            "config %s with Dev_RenewKeepsOldParams=TRUE violates %s as expected (counterexample of %d states)" % (
                name, res["error"], len(res["trace"])))
    return res


# ---- code -> spec: record + validate ---------------------------------------------------------------------
HANGS = [0]
REPORTED = set()


def record(cname, ops=None, gen=None):
    """Execute events on fresh real stacks: `ops` (list of event dicts) or `gen(rig)` (a generator that may look at
    the rig between events).  Returns dict(init, evs, ops, abort, problems); evs carry the projection after every
    step; abort describes a hang / livelock / event that could not be executed."""
    c = CONFIGS[cname]
    rig = Rig(c, c["nsubs"])
    init = rig.proj()
    evs, done = [], []
    abort = None
    for ev in (ops if gen is None else gen(rig)):
        done.append(ev)
        if HANGS[0] >= 3:
            abort = {"kind": "skipped"}
            break
        vt.errors = []
        try:
            with watchdog(10):
                rig.apply(ev)
        except NotEnabled as e:
            abort = {"kind": "not_enabled", "what": str(e), "event": ev}
            break
        except Hang:
            HANGS[0] += 1
            abort = {"kind": "hang", "event": ev}
            break
        except vtime.Livelock as e:
            abort = {"kind": "livelock", "what": str(e), "event": ev}
            break
        rec = dict(ev)
        rec["st"] = rig.proj()
        if vt.errors:
            rec["errs"] = [str(x)[:200] for x in vt.errors[:3]]
        evs.append(rec)
    return {"init": {"pv": init["pv"], "fl": init["fl"]}, "evs": evs, "ops": done, "abort": abort, "problems": rig.problems[:3]}


def ev(op, s=0, p=0, o=0, c=False, l=0, v=0):
    return {"op": op, "s": s, "p": p, "o": o, "c": bool(c), "l": l, "v": v}


def classify(ops, step):
    """History class of a failing trace (for the signature): the renewals before `step` that changed the parameters
    of a live subscription -- this only names the input class, it decides nothing."""
    cur = {}
    cases = []
    for i, e in enumerate(ops[:step]):
        k = (e["s"], e["p"], e["o"])
        if e["op"] == "sub":
            if k in cur:
                oc, ol = cur[k]
                if (ol == 0) != (e["l"] == 0):
                    cases.append({"case": "renew_changes_lifetime", "from": 0 if ol == 0 else "N", "to": 0 if e["l"] == 0 else "N"})
                if oc != e["c"]:
                    cases.append({"case": "renew_changes_confirmed"})
            cur[k] = (e["c"], e["l"])
        elif e["op"] in ("cancel", "expire"):
            cur.pop(k, None)
    return cases


def sig_for(monitor, ops, step, st=None):
    """Signature of a violation = the input class: which kind of parameter-changing renewal (if any) the failing
    step goes back to.  Looks at the requests made so far and at where the outputs of the failing step differ from
    the latest request of their key; it only names the class, the verdict was TLC's."""
    cases = classify(ops, step)
    n_to_0 = {"case": "renew_changes_lifetime", "from": "N", "to": 0}
    cur = {}
    for e in ops[:step]:
        k = (e["s"], e["p"], e["o"])
        if e["op"] == "sub":
            cur[k] = (e["c"], e["l"])
        elif e["op"] == "cancel":
            cur.pop(k, None)
    conf_mis, life_mis = False, None
    if st is not None:
        seen = [((i + 1, n["p"], n["o"]), n) for i, seq in enumerate(st["out"]) for n in seq if n["t"] == "note"]
        seen += [((a["s"], a["p"], a["o"]), a) for a in st["alist"]]
        for k, n in seen:
            if k in cur:
                c, l = cur[k]
                if n["conf"] != c:
                    conf_mis = True
                if (n["tr"] == 0) != (l == 0) and life_mis is None:
                    life_mis = {"case": "renew_changes_lifetime", "from": "N" if l == 0 else 0, "to": 0 if l == 0 else "N"}
    if monitor == "ConfirmedAsRequested" and conf_mis and {"case": "renew_changes_confirmed"} in cases:
        return {"case": "renew_changes_confirmed"}
    if monitor in ("TimeRemaining", "ActiveListExact") and life_mis and life_mis in cases:
        return life_mis
    if monitor == "ActiveListExact" and conf_mis and {"case": "renew_changes_confirmed"} in cases:
        return {"case": "renew_changes_confirmed"}
    stale = st is not None and any(r["life"] != 0 and not r["armed"] and cur.get((r["s"], r["p"], r["o"]), (None, 1))[1] == 0
                                   for lst in st["subs"] for r in lst)
    if st is not None and (st["stuck"] or st["alen"] == -2 or stale) and n_to_0 in cases:
        return n_to_0           # a stale, by now negative, time remaining cannot be encoded: queue blocked / read fails
    if monitor == "Terminates" and n_to_0 in cases:
        return n_to_0
    return {"case": "other", "op": ops[step - 1]["op"] if 0 < step <= len(ops) else "?"}


def validate(chk, cname, traces, label):
    """traces: list of dict(tid, ops, rec=record(...)).  One Trace_COV run for all of them."""
    c = CONFIGS[cname]
    for t in traces:
        ab = t["rec"]["abort"]
        rp = {"config": cname, "ops": t["ops"]}
        if ab and ab["kind"] in ("hang", "livelock"):
            step = len(t["rec"]["evs"]) + 1
            sg = sig_for("Terminates", t["ops"], step)
            sg["how"] = ab["kind"]
            chk.violation("Terminates", sg, {"config": cname, "what": "the stacks did not come to rest within the step "
                          "budget / 10 s after this event", "abort": ab, "prefix_ops": t["ops"][:step]}, rp)
        elif ab and ab["kind"] == "not_enabled":
            chk.deviation({"config": cname, "tid": t["tid"], "what": ab["what"], "step": len(t["rec"]["evs"]) + 1,
                           "prefix_ops": t["ops"][:len(t["rec"]["evs"]) + 1]})
        if t["rec"]["problems"]:
            chk.deviation({"config": cname, "tid": t["tid"], "what": "projection problem", "problems": t["rec"]["problems"]})
    traces = [t for t in traces if t["rec"]["evs"]]
    if not traces:
        return
    wd = tlc.workdir("tr")
    tf = os.path.join(wd, "traces.ndjson")
    with open(tf, "w") as f:
        for t in traces:
            f.write(json.dumps({"tid": t["tid"], "init": t["rec"]["init"], "evs": t["rec"]["evs"]}) + "\n")
    defs, consts = constants_of(c)
    mod = "TRgen_COV_" + cname
    body = "---- MODULE %s ----\nEXTENDS Trace_COV\n" % mod
    for k, v in defs.items():
        body += "c_%s == %s\n" % (k, v)
    body += "====\n"
    cfg = "CONSTANTS\n" + "\n".join(["  %s <- c_%s" % (k, k) for k in defs] + ["  %s = %s" % (k, v) for k, v in consts.items()])
    cfg += "\nSPECIFICATION TSpec\nCHECK_DEADLOCK FALSE\n"
    try:
        res = tlc.run_tlc(mod, cfg_text=cfg, files={mod + ".tla": body}, workers=min(8, int(os.environ.get("VERIF_TLC_WORKERS", "8"))),
                          timeout=3000, env={"TRACE_FILE": tf}, name="Trace_COV/" + label)
    finally:
        shutil.rmtree(wd, ignore_errors=True)
    if res["error_kind"]:
        tlc.machinery_failure("trace validation run failed: %s\n%s" % (res["error"], res["output"][-3000:]))
    verdicts = {v["tid"]: v for v in tlc.printed_values(res["output"])}
    if len(verdicts) != len(traces):
        tlc.machinery_failure("trace validation returned %d verdicts for %d traces\n%s" % (len(verdicts), len(traces), res["output"][-2000:]))
    chk.extra["trace_validation_states"] = chk.extra.get("trace_validation_states", 0) + res["distinct"]
    for t in traces:
        v = verdicts[t["tid"]]
        evs = t["rec"]["evs"]
        rp = {"config": cname, "ops": t["ops"]}
        count_monitors(chk, evs)
        if v["viol"]:
            byname = {}
            for m, l in v["viol"]:
                byname.setdefault(m, []).append(l)
            for m, ls in sorted(byname.items()):
                l = min(ls)
                e = evs[l - 1]
                sg = sig_for(m, t["ops"], l, e["st"])
                key = (m, json.dumps(sg, sort_keys=True))
                cnt = chk.extra.setdefault("violating_traces_by_signature", {})
                cnt["%s %s" % key] = cnt.get("%s %s" % key, 0) + 1
                if key in REPORTED:
                    continue            # one replay file per (monitor, signature): the first = shortest walks come first
                REPORTED.add(key)
                chk.violation(m, sg,
                              {"config": cname, "step": l, "first_step_only_the_deviation_explains": v["dev"],
                               "event": {k: e[k] for k in e if k != "st"}, "received": e["st"]["out"],
                               "active_list": [e["st"]["alen"], e["st"]["alist"]], "subscriptions": e["st"]["subs"],
                               "now": e["st"]["now"], "stuck": e["st"]["stuck"], "errs": e.get("errs"),
                               "prefix_ops": [compact(x) for x in t["ops"][:l]]}, rp)
        elif v["rej"]:
            l = v["rej"]
            chk.deviation({"config": cname, "tid": t["tid"], "step": l, "event": evs[l - 1],
                           "prefix_ops": [compact(x) for x in t["ops"][:l]]})
        elif v["dev"]:
            # no monitor failed and every step is a step of the design with the NAMED deviation Dev_RenewKeepsOldParams
            # (the stale lifetime kept by a renewal N -> M is not observable): accounted for, not counted as validated
            x = chk.extra.setdefault("traces_following_only_Dev_RenewKeepsOldParams", {"count": 0, "first": None})
            x["count"] += 1
            if x["first"] is None:
                x["first"] = {"config": cname, "step": v["dev"], "prefix_ops": [compact(y) for y in t["ops"][:v["dev"]]],
                              "subscriptions": evs[v["dev"] - 1]["st"]["subs"]}
        elif not t["rec"]["abort"]:
            chk.traces_validated += 1


def compact(e):
    op = e["op"]
    if op == "sub":
        return "sub(s%d,p%d,o%d,%s,%d)" % (e["s"], e["p"], e["o"], "conf" if e["c"] else "unconf", e["l"])
    if op in ("cancel", "expire"):
        return "%s(s%d,p%d,o%d)" % (op, e["s"], e["p"], e["o"])
    if op in ("wpv", "wfl"):
        return "%s(o%d,%d)" % (op, e["o"], e["v"])
    if op == "tick":
        return "tick(%d)" % e["v"]
    if op == "read":
        return "read(s%d)" % e["s"]
    return op


def count_monitors(chk, evs):
    """vacuity accounting: how often each monitor's antecedent was exercised in the implementation runs"""
    for e in evs:
        op = e["op"]
        notes = sum(1 for o in e["st"]["out"] for n in o if n["t"] == "note")
        if op in ("sub", "cancel"):
            chk.monitor("AckThenInitial")
        if op == "sub":
            chk.monitor("RenewReplaces")
        if notes:
            chk.monitor("OnePerBurstPerSubscription", notes)
            chk.monitor("ConfirmedAsRequested", notes)
            chk.monitor("TimeRemaining", notes)
        if op == "drain" and not notes:
            chk.monitor("NoneForSubThreshold")
        if op in ("cancel", "expire"):
            chk.monitor("NothingAfterCancelOrExpiry")
        if op == "read":
            chk.monitor("ActiveListExact")


# ---- R: spec -> code ------------------------------------------------------------------------------------
def edge_cover(nodes, edges, init):
    succ = collections.defaultdict(list)
    for u, v in edges:
        succ[u].append(v)
    parent = {init: None}
    dq = collections.deque([init])
    while dq:
        u = dq.popleft()
        for v in succ[u]:
            if v not in parent:
                parent[v] = u
                dq.append(v)

    def path_to(u):
        p = []
        while parent[u] is not None:
            p.append(u)
            u = parent[u]
        return p[::-1]
    todo = collections.defaultdict(list)
    for u, v in edges:
        if u in parent:
            todo[u].append(v)
    walks = []
    for start in sorted(todo, key=lambda u: len(path_to(u))):
        while todo[start]:
            walk = path_to(start)
            u = start
            while todo[u]:
                v = todo[u].pop()
                walk.append(v)
                u = v
            walks.append(walk)
    return walks


def parse_dot_acts(path):
    """like tlaval.parse_dot, but keeps only the `act` record of every node (the other variables hold sets of
    records, which the shared value parser cannot hash, and are not needed: the walk is re-validated by TLC)"""
    import re
    nodes, edges, init = {}, [], None
    node_re = re.compile(r'^(-?\d+) \[label="((?:[^"\\]|\\.)*)"(,style = filled)?[,\]]')
    edge_re = re.compile(r'^(-?\d+) -> (-?\d+) ')
    for line in open(path):
        m = edge_re.match(line)
        if m:
            edges.append((m.group(1), m.group(2)))
            continue
        m = node_re.match(line)
        if m:
            lab = m.group(2).replace('\\n', '\n').replace('\\\\', '\\').replace('\\"', '"')
            i = lab.index("/\\ act = ") + len("/\\ act = ")
            pr = tlaval.P(lab)
            pr.i = i
            nodes[m.group(1)] = {"act": pr.value()}
            if m.group(3):
                init = m.group(1)
    return nodes, edges, init


def replay_graph(chk, cname, maxlevel, max_walks, rng):
    """TLC dumps the state graph of a small configuration (no VIEW: every node carries the act record of the step
    that produced it); an edge cover of it is executed on the real stacks."""
    wd = tlc.workdir("dot")
    dot = os.path.join(wd, "g")
    try:
        run_mc(chk, cname, maxlevel, dump=dot, view=False)
        nodes, edges, init = parse_dot_acts(dot + ".dot")
    finally:
        shutil.rmtree(wd, ignore_errors=True)
    walks = edge_cover(nodes, edges, init)
    total = len(walks)
    if len(walks) > max_walks:
        walks = sorted(rng.sample(walks, max_walks), key=len)
    out = []
    steps = 0
    for w in walks:
        ops = []
        for v in w:
            a = nodes[v]["act"]
            ops.append(ev(a["op"], a["s"], a["p"], a["o"], a["c"], a["l"], a["v"]))
            chk.case(("R", cname, v))
        steps += len(ops)
        out.append(ops)
    chk.extra.setdefault("replay", []).append({"config": cname, "depth": maxlevel, "graph_nodes": len(nodes), "graph_edges": len(edges),
                                               "walks_in_cover": total, "walks_executed": len(out), "steps_executed_on_impl": steps})
    return out


# ---- T: random timelines ----------------------------------------------------------------------------------
def timeline(rig, rng, c, length):
    """A generator of events for one random timeline; it looks at the rig only to learn the next deadline and which
    lifetime tasks are due (the harness is the event loop) and to aim values around the last reported one."""
    tps = c["tps"]
    ns = rng.randint(1, c["nsubs"])
    nobj = len(c["kinds"])
    lifetimes = [0, 0, 1, 2, 3, 5, 10, 30, 60, 119, 120]
    known = []          # keys this timeline has subscribed (for renewals / cancellations)

    def key_of(t):
        return (rig.sub_index(t.client_addr), int(t.proc_id), int(t.obj_id[1]))

    def write_on(o, qualifying=None):
        k = c["kinds"][o - 1]
        st = rig.proj()
        cur = st["pv"][o - 1]
        if k in ("av", "pc"):
            inc = c["inc"][o - 1]
            base = st["lastRep"][o - 1] if st["lastRep"][o - 1] != NONE else cur
            cands = [base, cur, base + inc - 1, base - inc + 1, base + inc, base - inc, base + inc + 1, base - inc - 1,
                     base + 2 * inc, base + 1, base - 1]
            if qualifying:
                cands = [base + inc, base - inc, base + inc + 1, base + 2 * inc]
            v = max(0, min(1000, rng.choice(cands)))
        elif k == "bv":
            v = rng.choice([0, 1]) if not qualifying else 1 - cur
        else:
            v = rng.choice([1, 2, 3, 4]) if not qualifying else (cur % 4) + 1
        return ev("wpv", o=o, v=v)

    def burst():
        for o in rng.sample(range(1, nobj + 1), rng.choice([1, 1, 1, 2])):
            for _ in range(rng.choice([1, 1, 2, 3, 4])):
                if rng.random() < 0.25:
                    yield ev("wfl", o=o, v=rng.choice([0, 0, 1, 2, 4, 8, 15, rig.proj()["fl"][o - 1]]))
                else:
                    yield write_on(o)

    def expiries():
        while True:
            due = rig._due_subscription_tasks()
            if not due:
                return
            e = rng.choice(due) if rng.random() < 0.5 else due[0]
            s, p, o = key_of(e[2])
            if rng.random() < 0.25:
                yield write_on(o, qualifying=True)      # a change at the very instant of expiry
            yield ev("expire", s, p, o)
            if e[2].isScheduled and e in vt.tm.tasks:
                return                                  # the task did not go away: do not spin on it

    def tick_to(target):
        while rig.ticks(vt.now) < target:
            nd = vt.next_deadline()
            stop = target if nd is None else min(target, max(rig.ticks(nd), rig.ticks(vt.now)))
            d = stop - rig.ticks(vt.now)
            if d > 0:
                yield ev("tick", v=d)
            before = len(rig._due_subscription_tasks())
            for x in expiries():
                yield x
            if d <= 0 and before == 0:
                return

    n = 0
    while n < length:
        n += 1
        r = rng.random()
        if r < 0.28:
            if known and rng.random() < 0.55:
                s, p, o = rng.choice(known)
            else:
                s, p, o = rng.randint(1, ns), rng.choice(c["procs"]), rng.randint(1, nobj)
            if (s, p, o) not in known:
                known.append((s, p, o))
            l = rng.choice(lifetimes) if rng.random() < 0.8 else rng.randint(1, 120)
            yield ev("sub", s, p, o, rng.random() < 0.5, l)
        elif r < 0.35:
            if known and rng.random() < 0.85:
                s, p, o = rng.choice(known)
            else:
                s, p, o = rng.randint(1, ns), rng.choice(c["procs"]), rng.randint(1, nobj)
            yield ev("cancel", s, p, o)
        elif r < 0.70:
            for x in burst():
                yield x
            if rng.random() < 0.9:
                yield ev("drain")
        elif r < 0.92:
            now = rig.ticks(vt.now)
            nd = vt.next_deadline()
            opts = [1, tps, 2 * tps, 5 * tps, 10 * tps + 1, 30 * tps, 61 * tps]
            if nd is not None:
                gap = rig.ticks(nd) - now
                opts += [gap, gap, max(1, gap - 1), gap + 1]
            for x in tick_to(now + max(1, rng.choice(opts))):
                yield x
        elif r < 0.95 and c.get("strangers"):
            st = rig.proj()
            busy = [o for o in range(1, nobj + 1) if st["det"][o - 1] and st["subs"][o - 1]]
            if busy and not rig._due_subscription_tasks():
                yield ev("stranger", o=rng.choice(busy))
        else:
            yield ev("read", s=rng.randint(1, ns))
    # flush, then advance time across every remaining expiry, changing values all along
    yield ev("drain")
    guard = 0
    while vt.next_deadline() is not None and guard < 40:
        guard += 1
        for x in tick_to(max(rig.ticks(vt.next_deadline()), rig.ticks(vt.now) + 1)):
            yield x
        for o in range(1, nobj + 1):
            if rng.random() < 0.5:
                yield write_on(o, qualifying=True)
        yield ev("drain")
        if rng.random() < 0.3:
            yield ev("read", s=1)
    for x in tick_to(rig.ticks(vt.now) + 2 * tps):
        yield x
    for o in range(1, nobj + 1):
        yield write_on(o, qualifying=True)
    yield ev("drain")
    yield ev("read", s=1)


# ---------------------------------------------------------------------------------------------------------
def main(tier, seed):
    chk = Check("C16", tier, seed)
    rng = random.Random(seed)
    thorough = tier == "thorough"
    chk.rule = ("model: every timeline of COV.tla up to the level bound of each configuration; implementation: one evaluation = "
                "one event (subscribe / renew / cancel / write / drain / expiry / tick / read of activeCovSubscriptions) "
                "executed on real device + subscriber stacks over a vlan under virtual time, recorded with the projection of "
                "the real objects and everything the subscriber applications received, and validated by TLC (Trace_COV); "
                "distinct = distinct (graph node | timeline, position) keys; non-trivial = all of them (every step is "
                "compared with the design action and checked by the monitors)")
    chk.assumptions = [
        "reading of 'since the last reported value': the value carried by the last notification the OBJECT sent to anyone "
        "(also the initial notification of another subscriber), which is what COVIncrementCriteria.previous_reported_value "
        "implements -- not a per-subscriber memory; the spec, the ghosts and the monitors use the object-level reading",
        "burst semantics as coded: writes between two runs of the event loop are one burst; it qualifies if some write in it "
        "qualified against the last reported value when it was made; one notification per subscription live at drain time "
        "with the values current then; a subscriber that joins between the change and the drain gets the burst "
        "notification and its initial one",
        "a notification at the very instant of expiry (now = subscribe time + lifetime) is allowed, after it none; "
        "timeRemaining may be the remaining lifetime rounded either way but at least 1, and 0 iff the lifetime is indefinite",
        "loss-free vlan, subscribers acknowledge confirmed notifications at once; virtual clock (task._time and "
        "TaskManager.get_time patched); lifetimes given explicitly (0 = indefinite); covPeriod of the pulse converter is 0",
        "TLC is exhaustive up to each configuration's level bound only (full configuration: see tlc_runs); the property's "
        "sizes (3 subscribers, lifetimes to 120 s, four object kinds) are covered by validated random timelines",
    ]
    chk.extra["level_note"] = ("exhaustive TLC on the full configuration of the design row only to depth %d (about x8 states per "
                               "level; depth 8 is out of budget) -- depth 8..10 is reached on the slices pair / subs / crit, depth 12 on "
                               "the full configuration by simulation; SubscribeCOVProperty subscriptions of their own (only their interference with SubscribeCOV subscribers is covered: Stranger), covPeriod > 0, lost frames / unanswered "
                               "confirmed notifications and omitted lifetimes are outside this check" % (5 if thorough else 4))
    # D: the design satisfies the properties
    run_mc(chk, "full", 5 if thorough else 4)
    run_mc(chk, "pair", 8 if thorough else 6)
    run_mc(chk, "subs", 10 if thorough else 8)
    run_mc(chk, "crit", 10 if thorough else 8)
    run_mc(chk, "subs_x", 8 if thorough else 6)
    # beyond the exhaustive bound of the full configuration: random behaviours of depth 12
    run_mc(chk, "full", 12, simulate=40000 if thorough else 2000, seed=seed + 1)
    # sanity / vacuity: the named deviation (F11) must be caught by the properties
    run_mc(chk, "subs", 6, dev=True, expect_error=True)
    # R: spec -> code
    traces = collections.defaultdict(list)
    tid = 0
    for cname, depth, cap in (("g_subs", 5 if thorough else 4, 13000 if thorough else 700),
                              ("g_crit", 5 if thorough else 4, 12000 if thorough else 700)):
        for ops in replay_graph(chk, cname, depth, cap, rng):
            tid += 1
            rec = record(cname, ops=ops)
            traces[cname].append({"tid": tid, "ops": rec["ops"], "rec": rec})
    # T: code -> spec
    nrand = 4000 if thorough else 300
    for i in range(nrand):
        cname = "t1" if i % 2 == 0 else "t2"
        c = CONFIGS[cname]
        sub_rng = random.Random(rng.getrandbits(48))
        length = sub_rng.choice([12, 25, 40])
        rec = record(cname, gen=lambda rig: timeline(rig, sub_rng, c, length))
        tid += 1
        traces[cname].append({"tid": tid, "ops": rec["ops"], "rec": rec})
        for j in range(len(rec["evs"])):
            chk.case(("T", i, j))
        if i < 2:
            chk.sample({"config": cname, "objects": c["kinds"], "first_ops": [compact(x) for x in rec["ops"][:25]],
                        "received_by_subscribers_in_first_steps": [e["st"]["out"] for e in rec["evs"][:6]]})
    for cname, ts in traces.items():
        # keep JVM inputs moderate: batches of 1500 traces
        for b in range(0, len(ts), 1500):
            validate(chk, cname, ts[b:b + 1500], "%s/%d" % (cname, b // 1500))
    chk.extra["timelines"] = nrand
    return chk.finish()


def replay(path):
    body = json.load(open(path))
    rp = body["replay"]
    chk = Check("C16", "quick", body.get("seed", 0))
    rec = record(rp["config"], ops=rp["ops"])
    for e in rec["evs"]:
        print(compact(e), "->", json.dumps({"now": e["st"]["now"], "received": e["st"]["out"], "subs": e["st"]["subs"],
                                           "alist": [e["st"]["alen"], e["st"]["alist"]], "stuck": e["st"]["stuck"]}))
    if rec["abort"]:
        print("ABORT", rec["abort"])
    validate(chk, rp["config"], [{"tid": 1, "ops": rp["ops"], "rec": rec}], "replay")
    return chk.finish()
